"""Importable value classes for C18 (must survive pickling, so they live in a real module)."""

from __future__ import annotations


class M2:
    """a 2x2 integer matrix: the only value of the C18 pool that implements ``@``"""

    __slots__ = ("a", "b", "c", "d")

    def __init__(self, a, b, c, d):
        self.a, self.b, self.c, self.d = a, b, c, d

    def __matmul__(self, o):
        if not isinstance(o, M2):
            return NotImplemented
        return M2(self.a * o.a + self.b * o.c, self.a * o.b + self.b * o.d,
                  self.c * o.a + self.d * o.c, self.c * o.b + self.d * o.d)

    def __eq__(self, o):
        return isinstance(o, M2) and (self.a, self.b, self.c, self.d) == (o.a, o.b, o.c, o.d)

    def __hash__(self):
        return hash((self.a, self.b, self.c, self.d))

    def __repr__(self):
        return f"M2({self.a}, {self.b}, {self.c}, {self.d})"

    def __getstate__(self):
        return (self.a, self.b, self.c, self.d)

    def __setstate__(self, s):
        self.a, self.b, self.c, self.d = s


from pyiron_workflow import Workflow  # noqa: E402
from pyiron_workflow.nodes.standard import UserInput  # noqa: E402


@Workflow.wrap.as_macro_node("out")
def Holder3(self, v0=None, v1=None, v2=None):
    """a composite that is not a root: three value holders; expressions are written among its children"""
    self.m0 = UserInput(v0)
    self.m1 = UserInput(v1)
    self.m2 = UserInput(v2)
    return self.m0


@Workflow.wrap.as_macro_node("out")
def Passes(self, x=None):
    """a single-output COMPOSITE: hands its argument through; used as owner / operand of expressions in node form"""
    self.h = UserInput(x)
    return self.h
