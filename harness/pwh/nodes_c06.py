"""
Importable node classes for C06's nested / exception-class cases (nodes.py stays untouched).

* term nodes `G0..G{N_TERM-1}`: three untyped inputs a, b, c (default "d"), one output `o`; the wrapped
  function logs its call and returns the free term (g_i@epoch, a, b, c) — or raises what the per-case table
  `EXC[i]` names (a key of `FAMILY`), keeping the raised object in `RAISED[i]` so that the oracle can
  look for THAT object in the cause chain the caller sees;
* `NestMacro`: one generic macro class (inputs a, b, c; output `o`) whose graph creator builds its children
  from the description handed over in `PENDING` (a stack: the builder pushes the description of the macro
  it is about to instantiate; nested macros push their own sub-descriptions while they build).

Description of a composite body (JSON-able, the harness's `prog`):
    {"n": n, "order": [insertion order of child indices], "slots": {"i": [slot, slot, slot]},
     "kids": {"i": prog}, "gid": {"i": global term index of leaf i}, "ret": child index giving the output}
    slot = list of sibling indices (connection creation order, newest ends up first) | "a" | "b" | "c"
           (the composite's own input of that name, linked by value; every name used at most once)
"""

from __future__ import annotations

import concurrent.futures
import threading

from pyiron_workflow import as_function_node, as_macro_node
from pyiron_workflow.mixin.run import ReadinessError
from pyiron_workflow.nodes.composite import FailedChildError

N_TERM = 96
CALL_LOG: list = []  # global term index, in call order
EXC: dict[int, str] = {}  # global term index -> key of FAMILY
RAISED: dict[int, BaseException] = {}
EPOCH = [0]
PENDING: list = []
_LOCK = threading.Lock()


# ---- the family of injected exception classes --------------------------------------------------


class Boom(RuntimeError):
    """the classic injected failure"""


class CustomError(Exception):
    """a direct Exception subclass"""


class PickyError(Exception):
    """an exception whose constructor wants two arguments (does not survive a naive re-construction)"""

    def __init__(self, what, where):
        super().__init__(what, where)
        self.what, self.where = what, where


class MyIndexError(IndexError):
    pass


class MyKeyError(KeyError):
    pass


class MyLookupError(LookupError):
    pass


class NotReadyError(ValueError):
    """a ReadinessError look-alike: same base class, same attribute"""

    readiness_dict = {"ready": False}


class MyReadinessError(ReadinessError):
    """a subclass of the library's own ReadinessError, raised by a function"""


class MyFailedChildError(FailedChildError):
    pass


class Abort(BaseException):
    """not an Exception"""


def _readiness(msg):
    e = ReadinessError(msg)
    e.readiness_dict = {"ready": False, "running": False, "failed": False}
    return e


FAMILY = {
    "Boom": Boom,
    "RuntimeError": RuntimeError,
    "IndexError": IndexError,
    "MyIndexError": MyIndexError,
    "KeyError": KeyError,
    "MyKeyError": MyKeyError,
    "LookupError": LookupError,
    "MyLookupError": MyLookupError,
    "StopIteration": StopIteration,
    "StopAsyncIteration": StopAsyncIteration,
    "ValueError": ValueError,
    "TypeError": TypeError,
    "AttributeError": AttributeError,
    "ZeroDivisionError": ZeroDivisionError,
    "AssertionError": AssertionError,
    "NotImplementedError": NotImplementedError,
    "OSError": OSError,
    "FileNotFoundError": FileNotFoundError,
    "TimeoutError": TimeoutError,
    "RecursionError": RecursionError,
    "MemoryError": MemoryError,
    "UnicodeError": UnicodeError,
    "CustomError": CustomError,
    "PickyError": lambda m: PickyError(m, "here"),
    "NotReadyError": NotReadyError,
    "ReadinessError": _readiness,
    "MyReadinessError": MyReadinessError,
    "FailedChildError": FailedChildError,
    "MyFailedChildError": MyFailedChildError,
    "CancelledError": concurrent.futures.CancelledError,
    "InvalidStateError": concurrent.futures.InvalidStateError,
    "BrokenExecutor": concurrent.futures.BrokenExecutor,
    # not Exception subclasses — generated only where the case says so
    "KeyboardInterrupt": KeyboardInterrupt,
    "SystemExit": SystemExit,
    "GeneratorExit": GeneratorExit,
    "Abort": Abort,
}
EXCEPTIONS = [k for k, v in FAMILY.items() if k not in ("KeyboardInterrupt", "SystemExit", "GeneratorExit", "Abort")]
BASE_ONLY = ["KeyboardInterrupt", "SystemExit", "GeneratorExit", "Abort"]


def exc_type(key):
    v = FAMILY[key]
    return v if isinstance(v, type) else type(v("x"))


def reset():
    CALL_LOG.clear()
    EXC.clear()
    RAISED.clear()
    PENDING.clear()
    EPOCH[0] = 0


def _record(i):
    with _LOCK:
        CALL_LOG.append(i)
    key = EXC.get(i)
    if key is not None:
        e = FAMILY[key](f"g{i}")
        RAISED[i] = e
        raise e


def _mk(i):
    def fn(a="d", b="d", c="d"):
        _record(i)
        return (f"g{i}@{EPOCH[0]}", a, b, c)

    fn.__name__ = f"G{i}"
    fn.__qualname__ = f"G{i}"
    fn.__module__ = __name__
    return as_function_node("o", validate_output_labels=False)(fn)


for _i in range(N_TERM):
    globals()[f"G{_i}"] = _mk(_i)


def term_node(i, **kw):
    return globals()[f"G{i}"](**kw)


def populate(owner, prog, own_inputs=None):
    """create the children of `prog` in `owner` (a Workflow or a macro under construction) and connect them;
    `own_inputs`: the macro's UI nodes by name (None for a workflow). Returns the children by index."""
    ns = {}
    for i in prog["order"]:
        sub = prog["kids"].get(str(i))
        if sub is None:
            n = term_node(prog["gid"][str(i)], label=f"n{i}")
        else:
            PENDING.append(sub)
            try:
                n = NestMacro(label=f"n{i}")
            finally:
                PENDING.pop()
        owner.add_child(n)
        ns[i] = n
    for i in prog["order"]:
        for slot, ups in zip("abc", prog["slots"][str(i)]):
            if isinstance(ups, str):
                ns[i].inputs[slot].connect(own_inputs[ups].channel)
            else:
                for j in ups:
                    ns[i].inputs[slot].connect(ns[j].outputs.o)
    return ns


@as_macro_node("o")
def NestMacro(self, a="d", b="d", c="d"):
    prog = PENDING[-1]
    ns = populate(self, prog, {"a": a, "b": b, "c": c})
    return ns[prog["ret"]].outputs.o


# ---- a node whose failure travels with its INPUT (works in a spawned worker process: no table to inherit) ----------


def _rx(a="d", b="d", c="d"):
    if isinstance(a, str) and a.startswith("raise:"):
        raise FAMILY[a[6:]]("rx")
    return ("rx", a, b, c)


_rx.__name__ = "RX"
_rx.__qualname__ = "RX"
RX = as_function_node("o", validate_output_labels=False)(_rx)


@as_macro_node("o")
def RXMacro(self, a="d"):
    """first -> RX -> last, the macro's input goes to the RX node"""
    self.first = G0()
    self.rx = RX(a=a, b=self.first)
    self.last = G1(a=self.rx)
    return self.last
