"""C16 — a for-loop node computes exactly the nested-times-zipped table of its body."""

from __future__ import annotations

import itertools
import math
import pickle
from concurrent.futures import Executor, Future, ProcessPoolExecutor, ThreadPoolExecutor

PROP = "C16"
PROP_FILE = "PwVerif/Props/C16.lean"
DRIVER = "Driver/C16.lean"
THEOREMS = [
    "C16_maps_spec",
    "C16_maps_length",
    "C16_maps_combinations",
    "C16_maps_order",
    "C16_maps_row",
    "C16_maps_in_range",
    "C16_maps_of_spec",
    "C16_maps_refusals",
    "C16_maps_zero_fallthrough",
    "C16_table",
    "C16_history",
    "C16_rebuild",
    "C16_rerun",
    "C16_child_count",
    "C16_row_count",
    "C16_mk",
    "C16_statement_repaired",
    "C16_statement_partial",
    "C16_pinned_witness",
    "C16_graph_wf",
    "C16_schedule_independent",
    "C16_schedule_pair",
    "C16_roundtrip",
    "C16_roundtrip_unchanged",
    "C16_midrun_copy",
    "C16_by_value",
    "C16_schedule_independent_lists",
    "C16_body_failure",
    "C16_history_failures",
    "C16_nested",
    "C16_nested_table",
    "C16_after_edit",
    "C16_rows_hold_own_cells",
    "C16_labels_witness",
]
RULE = (
    "real for-nodes made by for_node / Cls.for_node / node.iter / node.zip / as a workflow child fed through data "
    "connections, over three importable term-building body classes (4 inputs/1 output, 3 inputs/2 outputs, "
    "input/output label clash): every split of the inputs into iterated / zipped / broadcast, lengths 1-4 (some 0, "
    "some unset), 1-4 runs of the SAME node with changed lengths (also unchanged = cache hit), both output forms, "
    "column maps (rename, swap, onto a broadcast label; also NON-renamings: onto a looped label, two outputs onto one "
    "name, unknown keys, unmapped clashes, a label looped twice), use_cache on/off, body nodes on a controlled executor with every "
    "completion order for <= 4 rows (thorough) / sampled (quick), and on real thread and process pools; plus "
    "dictionary_to_index_maps called directly on arbitrary key lists (duplicates, overlap, missing keys, unsized "
    "data, None). Non-trivial = a run that returned a table of >= 2 rows; distinct by canonical case"
)
TRUSTED = [
    "model ForLoop.indexMaps/indexMapsOf transcribe dictionary_to_index_maps; ForLoop.mk/build/evalOuts/run transcribe "
    "For.__init_subclass__/_on_cache_miss/_build_body/_clean_existing_subgraph/_collect_output_*; validated only on "
    "the explored cases",
    "evaluation of the built sub-graph is modelled as functional dataflow with NOT_DATA propagation (a body has "
    "delivered iff it is in the observed completion list); that the composite scheduler realises this for every "
    "completion order is C01's theorem, here it is tested on all completion orders of <= 4 rows with a deterministic "
    "executor and on real thread/process pools",
    "pandas.DataFrame abstracted to column order + list of row dicts",
    "the library's policies on refused/failed runs (C05, C06) and on colliding column names (KF-C16-1 / its repair) "
    "are observed by behaviour probes and handed to the model as configuration; the theorems hold for every value, "
    "except that the unrestricted column-map statement needs the repaired class-creation check",
]
ASSUMPTIONS = [
    "body function deterministic and argument-pure (values are free terms)",
    "after a refused/failed run the harness clears the for-node's `failed` flag before the next run",
    "looped inputs are python lists (the for-node's own `list` hint rejects anything else at assignment)",
]
EXHAUSTIVE = {"quick": False, "thorough": True}

BODIES = {
    "B4": {"inputs": ["a", "b", "c", "d"], "defaults": {"d": "dd"}, "outputs": ["o"], "sym": {"o": "g"}},
    "B3": {"inputs": ["a", "b", "c"], "defaults": {}, "outputs": ["p", "q"], "sym": {"p": "p", "q": "q"}},
    "BC": {"inputs": ["a", "b", "c"], "defaults": {}, "outputs": ["a", "r"], "sym": {"a": "h", "r": "r"}},
    # a MACRO as body (two chained function nodes computing what B3 computes) and a LOOP as body (for in for)
    "MB": {"inputs": ["a", "b", "c"], "defaults": {}, "outputs": ["p", "q"], "sym": {"p": "p", "q": "q"}},
    "NB": {"inputs": ["a", "b", "c"], "defaults": {}, "outputs": ["df"], "sym": {"df": "@inner"}},
    "BK": {"inputs": ["freq4", "k_59", "unit"], "defaults": {"unit": "u"}, "outputs": ["p", "q"],
           "sym": {"p": "p", "q": "q"}},
    "BD": {"inputs": ["a", "b", "n", "z"], "defaults": {"n": 1, "z": 0}, "outputs": ["o"], "sym": {"o": "g"}},
    "B12": {"inputs": [f"x{i}" for i in range(12)], "defaults": {"x11": "e"}, "outputs": ["o", "o2"],
            "sym": {"o": "w", "o2": "v"}},
}


# ----------------------------------------------------------------------------- deterministic executor


class CtlExecutor(Executor):
    """jobs complete only when told; callbacks run synchronously in the completing thread"""

    def __init__(self):
        self.jobs = []
        self.n_submitted = 0
        self.max_outstanding = 0

    def submit(self, fn, /, *args, **kwargs):
        f = Future()
        self.jobs.append((f, fn, args, kwargs))
        self.n_submitted += 1
        self.max_outstanding = max(self.max_outstanding, len(self.jobs))
        return f

    def complete(self, k):
        f, fn, args, kwargs = self.jobs.pop(k)
        f.set_running_or_notify_cancel()
        try:
            res = fn(*args, **kwargs)
        except BaseException as e:  # noqa: BLE001
            f.set_exception(e)
        else:
            f.set_result(res)

    def shutdown(self, wait=True, *, cancel_futures=False):
        pass


class ByValueExecutor(Executor):
    """an emulated process boundary (what execsim's `ctl-pickle` / `ctl-cloudpickle` modes do to one job): the job
    runs at once, but on a dumps/loads copy of the callable and its arguments (for a node: of the node itself), and
    the result comes back through dumps/loads as well — the node then merges the returned copy into itself"""

    def __init__(self, mode):
        self.mode = mode
        self.n = 0

    def submit(self, fn, /, *args, **kwargs):
        import cloudpickle

        dumps, loads = (pickle.dumps, pickle.loads) if self.mode == "pickle" else (cloudpickle.dumps, cloudpickle.loads)
        fut = Future()
        self.n += 1
        try:
            fn2, args2, kwargs2 = loads(dumps((fn, args, kwargs)))
            res = loads(dumps(fn2(*args2, **kwargs2)))
        except BaseException as e:  # noqa: BLE001
            fut.set_exception(e)
        else:
            fut.set_result(res)
        return fut

    def shutdown(self, wait=True, *, cancel_futures=False):
        pass


class Livelock(RuntimeError):
    pass


class _Idle:
    """replacement of `pyiron_workflow.nodes.composite.sleep`"""

    def __init__(self, ctl):
        self.ctl = ctl
        self.sched = []
        self.empty_idles = 0
        self.points = 0
        self.before = None

    def __call__(self, _dt=None):
        if self.ctl is None or not self.ctl.jobs:
            self.empty_idles += 1
            if self.empty_idles > 200:
                raise Livelock("idle point reached 200 times with no job outstanding")
            return
        if self.before is not None:
            cb, self.before = self.before, None
            cb()  # (once) e.g. pickle the loop node while its bodies are out
        self.points += 1
        k = self.sched.pop(0) if self.sched else 0
        self.ctl.complete(k % len(self.ctl.jobs))


# ----------------------------------------------------------------------------- cache policy of the library

_POLICY = None


def cache_policy():
    """
    What `Node._before_run` does with its input cache on refused / failed runs is C05's subject and
    differs between the pinned tree and its repairs. It is *observed* here on plain function nodes
    (behaviour only, no private attribute) and handed to the model as configuration; the C16
    theorems hold for every value.
      gate  : a refused run (missing input) repeated with the same inputs is refused again
              (False: the second call is a silent cache hit)
      clear : a failed run repeated with the same inputs (after clearing `failed`) runs again
              (False: the second call is a silent cache hit)
      abort : (C06's subject) the exception of a failing starting node escapes `Composite.run` as it is
              (False: collected, FailedChildError after the rest of the graph has run)
    """
    global _POLICY
    if _POLICY is None:
        from . import nodes_c16

        n = nodes_c16.B3(a="x", b="y")
        gate = None
        try:
            n.run()
        except Exception:  # noqa: BLE001
            try:
                n.run()
                gate = False
            except Exception:  # noqa: BLE001
                gate = True
        b = nodes_c16.Boom(x="x")
        clear = None
        try:
            b.run()
        except Exception:  # noqa: BLE001
            b.failed = False
            try:
                b.run()
                clear = False
            except Exception:  # noqa: BLE001
                clear = True
        from pyiron_workflow import Workflow

        wf = Workflow("c16probe", autoload=None)
        wf.n = nodes_c16.Boom(x="x")
        abort = None
        try:
            wf.run()
        except Exception as e:  # noqa: BLE001
            abort = type(e).__name__ != "FailedChildError"
        # does class creation refuse a column map ONTO a looped label (C16's own finding / its repair)?
        from pyiron_workflow.nodes.for_loop import for_node

        try:
            for_node(nodes_c16.B4, iter_on=("a",), output_column_map={"o": "a"}, a=["x"], b="B", c="C")
            checkcols = False
        except ValueError:
            checkcols = True
        _POLICY = {"gate": bool(gate), "clear": bool(clear), "abort": bool(abort), "checkcols": checkcols,
                   "probe_ok": gate is not None and clear is not None and abort is not None}
    return _POLICY


# ----------------------------------------------------------------------------- terms


def canon(v):
    from pyiron_workflow.channels import NOT_DATA

    if v is NOT_DATA:
        return "ND"
    if isinstance(v, tuple):
        return f"{v[0]}(" + ",".join(canon(x) for x in v[1:]) + ")"
    if isinstance(v, list):
        return "[" + ",".join(canon(x) for x in v) + "]"
    if hasattr(v, "to_dict") and hasattr(v, "columns"):  # an inner table (loop as loop body)
        cols = [str(c) for c in v.columns]
        return "T{" + "|".join(cols) + ":" + ";".join("|".join(canon(r[c]) for c in cols)
                                                       for r in v.to_dict("records")) + "}"
    return _scalar(v)


def _scalar(v):
    """cells are compared by TYPE and repr, not by `==`: 1, 1.0 and True are three different values"""
    if isinstance(v, str):
        return v
    return f"{type(v).__name__}:{v!r}"


def _inner_ref(a, b, c):
    """the table the inner loop (B3 iterated over `a`, `b` and `c` broadcast) returns, in `canon` form"""
    rows = [[ref_canon(x), ref_canon(("p", x, b, c)), ref_canon(("q", x, b, c))] for x in a]
    return "T{a|p|q:" + ";".join("|".join(r) for r in rows) + "}"


def ref_canon(v):
    """same printing for the oracle's own reference terms (no library import)"""
    if isinstance(v, tuple):
        return f"{v[0]}(" + ",".join(ref_canon(x) for x in v[1:]) + ")"
    if isinstance(v, list):
        return "[" + ",".join(ref_canon(x) for x in v) + "]"
    return _scalar(v)


# ----------------------------------------------------------------------------- generation


def _splits(inputs):
    """every assignment of the inputs to iterated / zipped / broadcast with at least one looped"""
    for roles in itertools.product("izb", repeat=len(inputs)):
        if "i" in roles or "z" in roles:
            yield roles


def _colmaps(body, iter_on, zip_on):
    spec = BODIES[body]
    looped = set(iter_on) | set(zip_on)
    bc = [k for k in spec["inputs"] if k not in looped]
    res = []
    if body == "B4":
        res = [None, {"o": "O"}, {"o": "res"}]
        if bc:
            res.append({"o": bc[0]})  # onto the label of a broadcast input: still distinct columns
    elif body == "B3":
        res = [None, {"p": "P"}, {"p": "q", "q": "p"}, {"p": "x", "q": "y"}]
        if bc:
            res.append({"q": bc[-1]})
    elif body == "BD":
        res = [None, {"o": "O"}]
    elif body in ("MB", "BK"):
        res = [None, {"p": "P"}, {"p": "q", "q": "p"}]
    elif body == "NB":
        res = [None, {"df": "inner"}]
    elif body == "BC":
        if "a" in looped:
            res = [{"a": "out_a"}, {"a": "r", "r": "s"}]
        else:
            res = [None, {"a": "out_a"}, {"r": "R"}]
    return res


def _columns_distinct(body, iter_on, zip_on, colmap):
    spec = BODIES[body]
    cols = list(iter_on) + list(zip_on) + [(colmap or {}).get(o, o) for o in spec["outputs"]]
    return len(set(cols)) == len(cols)


def _vals(rng, k, n, style):
    if style == 0:
        return [f"{k}{j}" for j in range(n)]
    pool = ["u", "v", "w", f"{k}x"]
    return [rng.choice(pool) for _ in range(n)]


def _mk_case(rng, body, roles, form_df, colmap, use_cache, entry, executor, lens_seq, scheds=None,
             zero_p=0.0, unset_p=0.0, bc_list_p=0.1):
    spec = BODIES[body]
    inputs = spec["inputs"]
    iter_on = [k for k, r in zip(inputs, roles) if r == "i"]
    zip_on = [k for k, r in zip(inputs, roles) if r == "z"]
    if rng.random() < 0.3:
        rng.shuffle(iter_on)
        rng.shuffle(zip_on)
    style = rng.choice([0, 0, 1])
    init = {}
    runs = []
    for r, lens in enumerate(lens_seq):
        sets = {}
        for k in inputs:
            if k in iter_on or k in zip_on:
                n = lens[k]
                if r == 0 or rng.random() < 0.6 or n != len(cur_vals.get(k, [])):
                    sets[k] = _vals(rng, k, n, style)
            else:
                if r == 0:
                    if k in spec["defaults"] and rng.random() < 0.4:
                        continue  # leave the default
                    sets[k] = [f"{k.upper()}l0", f"{k.upper()}l1"] if rng.random() < bc_list_p else k.upper()
                elif rng.random() < 0.2:
                    sets[k] = f"{k.upper()}{r}"
        if r == 0:
            init = dict(sets)
            if unset_p and rng.random() < unset_p and init:
                # one value is supplied only with the first run's call
                k = rng.choice(sorted(init))
                late = {k: init.pop(k)}
            else:
                late = {}
            cur_vals = dict(init)
            cur_vals.update(late)
            sets = late
        else:
            cur_vals.update(sets)
        run = {"set": sets, "how": rng.choice(["call", "call", "setrun", "assign"])}
        if executor:
            run["sched"] = (scheds[r] if scheds else [rng.randrange(0, 6) for _ in range(8)])
            if not scheds and rng.random() < 0.15:
                run["exec"] = False  # this run with the executor taken off the body nodes
        runs.append(run)
    return {"kind": "for", "body": body, "iter": iter_on, "zip": zip_on, "df": form_df, "colmap": colmap,
            "use_cache": use_cache, "entry": entry, "executor": executor, "init": init, "runs": runs}


def _n_rows(iter_on, zip_on, lens):
    n = math.prod(lens[k] for k in iter_on) if iter_on else 1
    z = min(lens[k] for k in zip_on) if zip_on else 1
    return n * z


def _lehmer_all(n):
    """all completion orders of n jobs as index choices into the outstanding list"""
    return [list(c) for c in itertools.product(*[range(n - i) for i in range(n)])]


def gen_cases(rng, tier):
    quick = tier == "quick"
    # 1. structured random for-node cases
    n_rand = 1300 if quick else 16000
    bodies = ["B4", "B4", "B3", "BC"]
    for _ in range(n_rand):
        body = rng.choice(bodies)
        inputs = BODIES[body]["inputs"]
        roles = rng.choice(list(_splits(inputs)))
        iter_on = [k for k, r in zip(inputs, roles) if r == "i"]
        zip_on = [k for k, r in zip(inputs, roles) if r == "z"]
        cms = [c for c in _colmaps(body, iter_on, zip_on) if _columns_distinct(body, iter_on, zip_on, c)]
        colmap = rng.choice(cms)
        entry = rng.choice(["for_node", "for_node", "cls"])
        n_runs = rng.choice([1, 2, 2, 3, 4])
        zero = rng.random() < 0.15
        lens_seq = []
        for _r in range(n_runs):
            lens = {k: rng.randint(1, 4) for k in iter_on + zip_on}
            if zero and rng.random() < 0.5:
                for k in rng.sample(iter_on + zip_on, rng.randint(1, len(iter_on + zip_on))):
                    lens[k] = 0
            lens_seq.append(lens)
            if rng.random() < 0.15:
                lens_seq.append(dict(lens))  # same lengths again
        lens_seq = lens_seq[:4]
        yield _mk_case(rng, body, roles, rng.random() < 0.5, colmap, rng.random() < 0.75, entry,
                       rng.random() < 0.4, lens_seq, unset_p=0.12)

    # 2. every split x both forms (exhaustive over the layouts), lengths sampled, one re-run
    for body in (["B4", "B3"] if quick else ["B4", "B3", "BC"]):
        inputs = BODIES[body]["inputs"]
        for roles in _splits(inputs):
            iter_on = [k for k, r in zip(inputs, roles) if r == "i"]
            zip_on = [k for k, r in zip(inputs, roles) if r == "z"]
            for form_df in (True, False):
                if quick and rng.random() < 0.5:
                    continue
                cms = [c for c in _colmaps(body, iter_on, zip_on) if _columns_distinct(body, iter_on, zip_on, c)]
                reps = 1 if quick else 4
                for _ in range(reps):
                    lens_seq = [{k: rng.randint(1, 3 if quick else 4) for k in iter_on + zip_on} for _ in range(2)]
                    yield _mk_case(rng, body, roles, form_df, rng.choice(cms), True, "for_node",
                                   False, lens_seq)

    # 3. all length vectors 1..4 (thorough) / 1..3 (quick, sampled) for a few layouts, re-run chain on one node
    layouts = [("B4", "iizb"), ("B4", "izzb"), ("B3", "izb"), ("B3", "zzi"), ("B4", "zzzz"), ("B4", "iibb")]
    for body, roles in layouts:
        inputs = BODIES[body]["inputs"]
        looped = [k for k, r in zip(inputs, roles) if r in "iz"]
        hi = 3 if quick else 4
        allv = [dict(zip(looped, v)) for v in itertools.product(range(1, hi + 1), repeat=len(looped))]
        rng.shuffle(allv)
        if quick:
            allv = allv[:16]
        for i in range(0, len(allv), 4):
            yield _mk_case(rng, body, tuple(roles), rng.random() < 0.5, None, True, "for_node", False,
                           allv[i:i + 4])

    # 4. completion orders: every order for <= 4 rows
    order_layouts = [("B3", "izb", {"a": 2, "b": 2}), ("B3", "zzb", {"a": 3, "b": 4}),
                     ("B4", "iibb", {"a": 2, "b": 2}), ("B3", "iib", {"a": 3, "b": 1}),
                     ("B4", "izzb", {"a": 2, "b": 2, "c": 3})]
    for body, roles, lens in order_layouts:
        inputs = BODIES[body]["inputs"]
        iter_on = [k for k, r in zip(inputs, roles) if r == "i"]
        zip_on = [k for k, r in zip(inputs, roles) if r == "z"]
        n = _n_rows(iter_on, zip_on, lens)
        orders = _lehmer_all(n)
        if quick:
            orders = rng.sample(orders, min(10, len(orders)))
        for o in orders:
            for form_df in ((True, False) if not quick else (rng.random() < 0.5,)):
                # second run with other lengths and the reversed kind of order
                lens2 = {k: max(1, v - 1) for k, v in lens.items()}
                yield _mk_case(rng, body, tuple(roles), form_df, None, True, "for_node", True,
                               [lens, lens2], scheds=[list(o), [len(o) - 1 - x for x in o]])

    # 5. the convenience entry points node.iter / node.zip
    for _ in range(60 if quick else 600):
        body = rng.choice(["B4", "B3"])
        inputs = BODIES[body]["inputs"]
        style = rng.choice(["iter", "zip"])
        k = rng.randint(1, len(inputs))
        looped = sorted(rng.sample(inputs, k))
        rng.shuffle(looped)
        roles = tuple(("i" if style == "iter" else "z") if x in looped else "b" for x in inputs)
        case = _mk_case(rng, body, roles, True, rng.choice([None, None, {BODIES[body]["outputs"][0]: "X"}]), True,
                        style, rng.random() < 0.4, [{x: rng.randint(1, 3) for x in looped}], bc_list_p=0.0)
        case["iter" if style == "iter" else "zip"] = looped  # keyword order of the call
        case["runs"][0]["how"] = "call"
        case["init"].update(case["runs"][0]["set"])
        case["runs"][0]["set"] = {}
        for x in inputs:  # the shortcut broadcasts the node's own values: give every input one
            if x not in case["init"]:
                case["init"][x] = x.upper()
        yield case

    # 5''. broadcast values ==-equal to a default but of another type (1.0 / True for 1, 0.0 / False for 0), other
    #      numbers, and inputs left at their default — through the instance shortcuts and every other entry point;
    #      cells are compared by (type, repr)
    alphabet = {"n": [1, 1.0, True, 2, 0, 0.0, False, "N"], "z": [0, 0.0, False, 1, True, 1.0, -1, "Z"]}
    for i in range(70 if quick else 700):
        entry = ("iter", "zip", "for_node", "cls", "wf")[i % 5] if i % 10 < 8 else rng.choice(["iter", "zip"])
        looped = rng.choice([["a"], ["b"], ["a", "b"], ["b", "a"]])
        if entry in ("iter", "zip"):
            roles = tuple(("i" if entry == "iter" else "z") if x in looped else "b" for x in ["a", "b", "n", "z"])
        else:
            roles = tuple((rng.choice("iz") if x in looped else "b") for x in ["a", "b", "n", "z"])
        iter_on = [x for x in looped if roles["abnz".index(x)] == "i"]
        zip_on = [x for x in looped if roles["abnz".index(x)] == "z"]
        init = {x: [f"{x}{j}" for j in range(rng.randint(1, 3))] for x in looped}
        for x in "ab":
            if x not in looped:
                init[x] = x.upper()
        for x in "nz":
            if rng.random() < 0.8:
                init[x] = rng.choice(alphabet[x])  # else: left at the default
        runs = [{"set": {}, "how": "call"}]
        if entry not in ("iter", "zip") and rng.random() < 0.6:
            # (a re-run whose only change is to an ==-equal value of another type is a cache HIT by the library's
            # input comparison — C05's subject, not generated here: the new value differs by `==`)
            x = rng.choice("nz")
            cur_x = init.get(x, BODIES["BD"]["defaults"][x])
            cands = [v for v in alphabet["n"][:7] if not (v == cur_x)]
            runs.append({"set": {x: rng.choice(cands)}, "how": rng.choice(["call", "setrun"])})
        yield {"kind": "for", "body": "BD", "iter": iter_on, "zip": zip_on, "df": True if entry in ("iter", "zip")
               else rng.random() < 0.5, "colmap": rng.choice([None, {"o": "O"}]), "use_cache": True, "entry": entry,
               "executor": False, "init": init, "runs": runs}

    # 5a. sizes beyond one digit: 10, 11, 12, 21, 101 rows (row_10 / item_10 / body_10 sort before row_2 as
    #     strings; 101 reaches three digits), by one long list, by a zip, and by a product; both forms; re-run
    #     to another multi-digit size on the same node
    big = [(10, [("B3", "ibb", {"a": 10}), ("B3", "iib", {"a": 2, "b": 5}), ("B4", "zzbb", {"a": 10, "b": 13})]),
           (11, [("B3", "ibb", {"a": 11}), ("B4", "bzzb", {"b": 11, "c": 11}), ("B3", "bbi", {"c": 11})]),
           (12, [("B3", "izz", {"a": 1, "b": 12, "c": 14}), ("B4", "iibb", {"a": 3, "b": 4}),
                 ("B3", "iiz", {"a": 2, "b": 3, "c": 2})]),
           (21, [("B3", "iib", {"a": 3, "b": 7}), ("B4", "zbbb", {"a": 21}), ("B3", "izb", {"a": 7, "b": 3})]),
           (101, [("B3", "ibb", {"a": 101}), ("B4", "bbzz", {"c": 101, "d": 150})])]
    for n_rows, layouts_n in big:
        for body, roles, lens in layouts_n:
            for form_df in (True, False):
                if quick and n_rows == 101 and not form_df and roles != "ibb":
                    continue
                others = [v for v in (10, 11, 12, 21) if v != n_rows]
                first = sorted(lens)[0]
                lens2 = dict(lens)
                lens2[first] = rng.choice(others) if len(lens) == 1 else max(1, lens[first] - 1)
                executor = (rng.random() < 0.3) and n_rows <= 21
                case = _mk_case(rng, body, tuple(roles), form_df, None, True, rng.choice(["for_node", "cls"]),
                                executor, [lens, lens2] if n_rows <= 21 else [lens])
                assert _n_rows(case["iter"], case["zip"], lens) == n_rows
                yield case

    # 5a'. more than ten looped inputs / columns (labels x10, x11 sort before x2 as strings)
    for i in range(10 if quick else 60):
        inputs = BODIES["B12"]["inputs"]
        kind = i % 5
        if kind == 0:
            roles = ["z"] * 12
        elif kind == 1:
            roles = ["i", "i"] + ["z"] * 10
        elif kind == 2:
            roles = ["z"] * 11 + ["b"]
        elif kind == 3:
            roles = [rng.choice("zzb") for _ in range(12)]
            roles[rng.randrange(12)] = "i"
        else:
            roles = ["b"] * 12
            for j in rng.sample(range(12), 3):
                roles[j] = "i"
            roles[rng.choice([10, 11])] = "z"
        looped = [k for k, r in zip(inputs, roles) if r in "iz"]
        n_it = sum(1 for r in roles if r == "i")
        lens_seq = [{k: rng.randint(1, 2 if n_it > 2 else 3) for k in looped} for _ in range(2)]
        colmap = rng.choice([None, {"o": "x12"}, {"o2": "a"}])
        yield _mk_case(rng, "B12", tuple(roles), rng.random() < 0.6, colmap, True, "for_node",
                       rng.random() < 0.2, lens_seq, bc_list_p=0.0)

    # 5e. pickling: round trips of the loop node at rest (in memory / through a save file) and copies restored
    #     from a pickle taken WHILE the bodies of a run are out; the history continues on the copy
    for i in range(90 if quick else 1200):
        body = rng.choice(["B4", "B4", "B3", "BC"])
        inputs = BODIES[body]["inputs"]
        roles = rng.choice(list(_splits(inputs)))
        iter_on = [k for k, r in zip(inputs, roles) if r == "i"]
        zip_on = [k for k, r in zip(inputs, roles) if r == "z"]
        cms = [c for c in _colmaps(body, iter_on, zip_on) if _columns_distinct(body, iter_on, zip_on, c)]
        n_runs = rng.choice([2, 3, 3, 4])
        bad = i % 3 == 2   # some histories with empty lists / late inputs (round trips after refused and failed runs)
        lens_seq = []
        for _r in range(n_runs):
            lens = {k: rng.randint(1, 3) for k in iter_on + zip_on}
            if bad and rng.random() < 0.4:
                lens[rng.choice(iter_on + zip_on)] = 0
            lens_seq.append(lens)
            if rng.random() < 0.2:
                lens_seq.append(dict(lens))
        lens_seq = lens_seq[:4]
        executor = (not bad) and rng.random() < 0.6
        case = _mk_case(rng, body, roles, rng.random() < 0.5, rng.choice(cms), rng.random() < 0.8,
                        rng.choice(["for_node", "cls"]), executor, lens_seq, unset_p=0.3 if bad else 0.0)
        for run in case["runs"]:
            run.pop("exec", None)
            r = rng.random()
            if executor and r < 0.45:
                run["pickle"] = "mid"
            elif r < 0.8:
                run["pickle"] = "after"
            elif r < 0.9:
                run["pickle"] = "file"
        yield case

    # 5f. the loop node ITSELF (or the workflow owning it) on a by-value executor: every run happens on a pickled
    #     copy that is merged back. Histories: run -> new values, same lengths -> other lengths -> unchanged run
    #     (-> round trip -> grown lists), to be compared with the reference table and the model's plain runs
    for i in range(70 if quick else 900):
        body = rng.choice(["B4", "B4", "B3", "BC"])
        inputs = BODIES[body]["inputs"]
        roles = rng.choice(list(_splits(inputs)))
        iter_on = [k for k, r in zip(inputs, roles) if r == "i"]
        zip_on = [k for k, r in zip(inputs, roles) if r == "z"]
        looped = iter_on + zip_on
        cms = [c for c in _colmaps(body, iter_on, zip_on) if _columns_distinct(body, iter_on, zip_on, c)]
        l0 = {k: rng.randint(1, 3) for k in looped}
        l2 = {k: rng.randint(1, 4) for k in looped}
        l4 = {k: v + rng.randint(0, 2) for k, v in l2.items()}
        lens_seq = [l0, dict(l0), l2, dict(l2)] + ([l4] if rng.random() < 0.5 else [])
        entry = "wf" if i % 3 == 2 else rng.choice(["for_node", "cls"])
        case = _mk_case(rng, body, roles, rng.random() < 0.5, rng.choice(cms), rng.random() < 0.85, entry,
                        False, lens_seq)
        case["self_exec"] = "cloudpickle" if i % 2 else "pickle"
        # run 1: new values at the same lengths; run 3: literally unchanged
        style_vals = lambda k, n, tag: [f"{k}{tag}{j}" for j in range(n)]  # noqa: E731
        case["runs"][1]["set"] = {k: style_vals(k, l0[k], "n") for k in looped}
        if rng.random() < 0.5:
            bc = [k for k in inputs if k not in looped]
            if bc:
                case["runs"][1]["set"][rng.choice(bc)] = "NEW"
        case["runs"][3]["set"] = {}
        if entry != "wf" and rng.random() < 0.3:
            case["runs"][rng.choice([0, 2])]["pickle"] = "after"
        yield case

    # 5g. a body copy FAILS at iteration k (the value "BAD" reaches it): locally and on the controlled executor with
    #     arbitrary completion orders; then the cause is removed and the same node runs again
    for i in range(70 if quick else 700):
        body = rng.choice(["B4", "B3", "MB"])
        inputs = BODIES[body]["inputs"]
        roles = rng.choice(list(_splits(inputs)))
        iter_on = [k for k, r in zip(inputs, roles) if r == "i"]
        zip_on = [k for k, r in zip(inputs, roles) if r == "z"]
        looped = iter_on + zip_on
        cms = [c for c in _colmaps(body, iter_on, zip_on) if _columns_distinct(body, iter_on, zip_on, c)]
        lens_seq = [{k: rng.randint(1, 3) for k in looped} for _ in range(rng.choice([2, 3, 3]))]
        case = _mk_case(rng, body, roles, rng.random() < 0.5, rng.choice(cms), rng.random() < 0.8,
                        rng.choice(["for_node", "cls"]), rng.random() < 0.5, lens_seq)
        bad_run = rng.randrange(len(case["runs"]) - 1)
        vals = dict(case["init"])
        for r, run in enumerate(case["runs"]):
            run.pop("exec", None)
            vals.update(run["set"])
            if r == bad_run:
                k = rng.choice(looped) if rng.random() < 0.85 else rng.choice(inputs)
                if k in looped:
                    lst = list(vals.get(k) or ["x"])
                    lst[rng.randrange(len(lst))] = "BAD"
                    new = lst
                else:
                    new = "BAD"
                (case["init"] if r == 0 else run["set"])[k] = new
                vals[k] = new
                # the next run repairs it
                nxt = case["runs"][r + 1]["set"]
                if k not in nxt or (isinstance(nxt[k], list) and "BAD" in nxt[k]) or nxt[k] == "BAD":
                    nxt[k] = [f"{k}r{j}" for j in range(len(new))] if isinstance(new, list) else k.upper() + "r"
        yield case

    # 5h. a MACRO as loop body
    for _ in range(50 if quick else 500):
        inputs = BODIES["MB"]["inputs"]
        roles = rng.choice(list(_splits(inputs)))
        iter_on = [k for k, r in zip(inputs, roles) if r == "i"]
        zip_on = [k for k, r in zip(inputs, roles) if r == "z"]
        lens_seq = [{k: rng.randint(1, 4) for k in iter_on + zip_on} for _ in range(rng.choice([1, 2, 3]))]
        yield _mk_case(rng, "MB", roles, rng.random() < 0.5, rng.choice(_colmaps("MB", iter_on, zip_on)),
                       rng.random() < 0.8, rng.choice(["for_node", "cls"]), rng.random() < 0.4, lens_seq)

    # 5i. a LOOP as loop body (for in for, zip inside iterate): the inner loop iterates its `a`; the outer loop
    #     iterates / zips lists of lists for `a` and lists for `b`, `c`; re-runs shrink and grow (oracle only)
    for _ in range(50 if quick else 400):
        roles = rng.choice([r for r in _splits(["a", "b", "c"])])
        iter_on = [k for k, r in zip("abc", roles) if r == "i"]
        zip_on = [k for k, r in zip("abc", roles) if r == "z"]
        runs, init = [], {}
        for r in range(rng.choice([1, 2, 3])):
            sets = {}
            for k in "abc":
                if r and rng.random() < 0.4:
                    continue
                n = rng.randint(1, 3)
                inner = lambda tag: [f"a{tag}{j}" for j in range(rng.randint(1, 3))]  # noqa: E731
                if k in iter_on + zip_on:
                    sets[k] = [inner(f"{r}{i}") for i in range(n)] if k == "a" else [f"{k}{r}{i}" for i in range(n)]
                else:
                    sets[k] = inner(str(r)) if k == "a" else f"{k.upper()}{r}"
            if r == 0:
                init = sets
                sets = {}
            run = {"set": sets, "how": rng.choice(["call", "setrun"])}
            runs.append(run)
        executor = rng.random() < 0.3
        if executor:
            for run in runs:
                run["sched"] = [rng.randrange(0, 6) for _ in range(8)]
        yield {"kind": "for", "body": "NB", "iter": iter_on, "zip": zip_on, "df": rng.random() < 0.5,
               "colmap": rng.choice([None, {"df": "inner"}]), "use_cache": True, "entry": "for_node",
               "executor": executor, "init": init, "runs": runs}

    # 5j. depth: the loop node inside a macro inside a workflow, body copies on the controlled executor with
    #     arbitrary completion orders; re-runs with other lengths through the macro's inputs
    for _ in range(40 if quick else 400):
        lens_seq = [{"a": rng.randint(1, 3), "b": rng.randint(1, 3)} for _ in range(rng.choice([2, 3]))]
        case = _mk_case(rng, "B3", ("i", "z", "b"), True, None, True, "deep", rng.random() < 0.7, lens_seq,
                        bc_list_p=0.0)
        case["iter"], case["zip"] = ["a"], ["b"]
        for run in case["runs"]:
            run.pop("exec", None)
        yield case

    # 5k. hand edits of the generated sub-graph between runs: after a run one body copy is given another value on a
    #     broadcast input and run by hand, then its collectors; then the loop runs again with UNCHANGED inputs
    #     (must be the table of its own inputs, not a cache hit on the edited one), then with other lengths
    for i in range(75 if quick else 750):
        body = rng.choice(["B4", "B3", "MB"])
        inputs = BODIES[body]["inputs"]
        roles = [r for r in _splits(inputs) if "b" in r]
        roles = rng.choice(roles)
        iter_on = [k for k, r in zip(inputs, roles) if r == "i"]
        zip_on = [k for k, r in zip(inputs, roles) if r == "z"]
        bc = [k for k, r in zip(inputs, roles) if r == "b"]
        cms = [c for c in _colmaps(body, iter_on, zip_on) if _columns_distinct(body, iter_on, zip_on, c)]
        l0 = {k: rng.randint(1, 3) for k in iter_on + zip_on}
        lens_seq = [l0, dict(l0), {k: rng.randint(1, 3) for k in iter_on + zip_on}]
        case = _mk_case(rng, body, roles, rng.random() < 0.5, rng.choice(cms), True,
                        rng.choice(["for_node", "cls"]), False, lens_seq)
        case["runs"][1]["set"] = {}
        n_rows = _n_rows(iter_on, zip_on, l0)
        case["runs"][0]["edit"] = {"body": rng.randrange(n_rows), "input": rng.choice(bc), "value": "EDIT",
                                   "mode": ("run", "assign", "remove")[i % 3]}
        if rng.random() < 0.3:
            case["runs"][1]["edit"] = {"body": 0, "input": rng.choice(bc), "value": "EDIT2",
                                       "mode": rng.choice(["run", "assign", "remove"])}
        yield case

    # 5b. body nodes on REAL executors (threads, processes): the completion order is whatever it is
    for i in range(24 if quick else 160):
        body = rng.choice(["B4", "B3"])
        inputs = BODIES[body]["inputs"]
        roles = rng.choice(list(_splits(inputs)))
        iter_on = [k for k, r in zip(inputs, roles) if r == "i"]
        zip_on = [k for k, r in zip(inputs, roles) if r == "z"]
        lens_seq = [{k: rng.randint(1, 3) for k in iter_on + zip_on} for _ in range(rng.choice([1, 2, 3]))]
        case = _mk_case(rng, body, roles, rng.random() < 0.5, None, True, "for_node", False, lens_seq)
        case["executor"] = "process" if i % 4 == 3 else "thread"
        yield case

    # 5c. the loop node as a child of a workflow, fed through data connections, run by the workflow
    for _ in range(60 if quick else 500):
        body = rng.choice(["B4", "B3"])
        inputs = BODIES[body]["inputs"]
        roles = rng.choice(list(_splits(inputs)))
        iter_on = [k for k, r in zip(inputs, roles) if r == "i"]
        zip_on = [k for k, r in zip(inputs, roles) if r == "z"]
        cms = [c for c in _colmaps(body, iter_on, zip_on) if _columns_distinct(body, iter_on, zip_on, c)]
        lens_seq = [{k: rng.randint(1, 3) for k in iter_on + zip_on} for _ in range(rng.choice([1, 2, 3]))]
        yield _mk_case(rng, body, roles, rng.random() < 0.5, rng.choice(cms), rng.random() < 0.8, "wf",
                       rng.random() < 0.3, lens_seq)

    # 5d. column maps that are NOT renamings (two columns would share a name), maps with unknown keys,
    #     unmapped input/output clashes: what does class creation do, and what comes out if it accepts
    for _ in range(60 if quick else 400):
        body = rng.choice(["B4", "B3", "BC"])
        inputs = BODIES[body]["inputs"]
        outs = BODIES[body]["outputs"]
        roles = rng.choice(list(_splits(inputs)))
        iter_on = [k for k, r in zip(inputs, roles) if r == "i"]
        zip_on = [k for k, r in zip(inputs, roles) if r == "z"]
        looped = iter_on + zip_on
        r = rng.random()
        if r < 0.5:
            colmap = {rng.choice(outs): rng.choice(looped)}  # onto a looped label
            if len(outs) > 1 and rng.random() < 0.3:
                other = [o for o in outs if o not in colmap][0]
                colmap[other] = rng.choice(looped + ["w"])
        elif r < 0.75 and len(outs) > 1:
            colmap = rng.choice([{outs[0]: outs[1]}, {outs[0]: "x", outs[1]: "x"}, {outs[1]: outs[0]}])
        elif r < 0.9:
            colmap = rng.choice([{"zz": "y"}, {outs[0]: "y", "nope": "n"}])  # key that is no output
        else:
            colmap = None if body == "BC" else {outs[0]: outs[0]}  # BC: unmapped clash when `a` is looped
        lens_seq = [{k: rng.randint(1, 3) for k in looped} for _ in range(rng.choice([1, 2]))]
        case = _mk_case(rng, body, roles, rng.random() < 0.5, colmap, rng.random() < 0.75, "for_node",
                        False, lens_seq)
        if rng.random() < 0.15:
            # a label looped twice (iterated twice, or iterated and zipped): two columns of one name as well
            case["colmap"] = None if body != "BC" else {"a": "out_a"}
            tgt = rng.choice(["iter", "zip"])
            case[tgt] = case[tgt] + [rng.choice(looped)]
        yield case

    # 5l. aliasing of looped cells: a large population of (input label, index) cells, judged on real nodes
    yield {"kind": "labels", "seed": rng.randrange(10 ** 6), "labels": ["freq4", "k_59", "a", "b", "c", "d", "x10", "x2"],
           "n_labels": 400 if quick else 1500, "n_index": 500 if quick else 1000}
    # a big zipped loop over the two labels of the past failure, and a big product (hundreds of rows, both forms)
    for form_df in (True, False):
        yield {"kind": "for", "body": "BK", "iter": [], "zip": ["freq4", "k_59"], "df": form_df, "colmap": None,
               "use_cache": True, "entry": "for_node", "executor": False,
               "init": {"freq4": [f"f{j}" for j in range(24)], "k_59": [f"k{j}" for j in range(24)], "unit": "Hz"},
               "runs": [{"set": {}, "how": "call"}]}
    yield {"kind": "for", "body": "BK", "iter": ["freq4", "k_59"], "zip": [], "df": rng.random() < 0.5, "colmap": None,
           "use_cache": True, "entry": "for_node", "executor": False,
           "init": {"freq4": [f"f{j}" for j in range(15)], "k_59": [f"k{j}" for j in range(14)], "unit": "Hz"},
           "runs": [{"set": {}, "how": "call"}]}

    # 5m. executor-run bodies whose completion callbacks run on their own thread in two halves (execfine): every
    #     sampled interleaving of the halves with the loop's main thread must give the reference table, also on a
    #     re-run with other lengths
    for _ in range(50 if quick else 600):
        layout = rng.choice([(["a"], []), (["a"], ["b"]), ([], ["a", "b"]), (["a", "b"], [])])
        l0 = {k: rng.randint(1, 3) for k in layout[0] + layout[1]}
        l1 = {k: rng.randint(1, 3) for k in layout[0] + layout[1]}
        init = {k: ([f"{k}{j}" for j in range(l0[k])] if k in l0 else k.upper()) for k in "abc"}
        yield {"kind": "fine", "iter": layout[0], "zip": layout[1], "df": rng.random() < 0.5, "init": init,
               "runs": [{"set": {}}, {"set": {k: [f"{k}n{j}" for j in range(l1[k])] for k in l1}}],
               "choices": [rng.randrange(0, 6) for _ in range(40)]}

    # 6. dictionary_to_index_maps directly
    keys = ["a", "b", "c", "x"]
    for _ in range(400 if quick else 6000):
        data = {}
        for k in keys[:3]:
            r = rng.random()
            data[k] = "nolen" if r < 0.06 else rng.choice([0, 1, 1, 2, 2, 3, 4])
        def pick():
            r = rng.random()
            if r < 0.1:
                return None
            n = rng.choice([0, 1, 1, 2, 2, 3])
            pool = keys if rng.random() < 0.12 else keys[:3]
            if rng.random() < 0.8:
                return rng.sample(pool[:3], min(n, 3))
            return [rng.choice(pool) for _ in range(n)]
        yield {"kind": "maps", "data": data, "nested": pick(), "zipped": pick()}
    if not quick:
        for nl in itertools.product(range(0, 4), repeat=2):
            for zl in itertools.product(range(0, 4), repeat=2):
                data = {"a": nl[0], "b": nl[1], "c": zl[0], "d": zl[1]}
                for nk, zk in [(["a", "b"], ["c", "d"]), (["a"], ["c", "d"]), (["a", "b"], ["c"]), ([], ["c", "d"]),
                               (["b", "a"], [])]:
                    yield {"kind": "maps", "data": data, "nested": nk, "zipped": zk}

    # 7. a malformed stream: the driver must refuse, never default
    yield {"kind": "malformed",
           "lines": ["in a", "out o g", "form table", "set zz many 1", "run 0", "runq x", "maps a b", "data a minus",
                     "frobnicate", "cache maybe", "begin", "begin", "in b -", "set zz one 1", "run x"],
           "expect": ["bad-op"] * 10 + ["ch ", "bad-op", "bad-op", "bad-op", "bad-op"]}


def corpus():
    # the docstring example of for_node (48 children, then 12)
    yield {"kind": "for", "body": "B4", "iter": ["a", "b"], "zip": ["c", "d"], "df": True, "colmap": None,
           "use_cache": True, "entry": "for_node", "executor": False,
           "init": {"a": ["1", "2"], "b": ["3", "4", "5", "6"], "c": ["7", "8"], "d": ["9", "10", "11"]},
           "runs": [{"set": {}, "how": "call"}, {"set": {"a": ["1"], "b": ["3"], "d": ["7"]}, "how": "call"}]}
    # P23: zero-length iterated input next to a non-empty zipped one; then recovery with changed lengths
    yield {"kind": "for", "body": "B4", "iter": ["a"], "zip": ["b"], "df": True, "colmap": None, "use_cache": True,
           "entry": "for_node", "executor": False, "init": {"a": [], "b": ["b0", "b1"], "c": "C"},
           "runs": [{"set": {}, "how": "call"}, {"set": {}, "how": "call"},
                    {"set": {"a": ["a0", "a1", "a2"]}, "how": "call"}, {"set": {"a": [], "b": []}, "how": "call"},
                    {"set": {"a": ["a0"], "b": ["b0"]}, "how": "setrun"}]}
    # shrink then grow, lists form, swapped column names, executor with reversed completion
    yield {"kind": "for", "body": "B3", "iter": ["b"], "zip": ["c", "a"], "df": False, "colmap": {"p": "q", "q": "p"},
           "use_cache": True, "entry": "cls", "executor": True,
           "init": {"a": ["u", "u", "v"], "b": ["b0", "b1"], "c": ["c0", "c1"]},
           "runs": [{"set": {}, "how": "call", "sched": [3, 2, 1, 0]},
                    {"set": {"b": ["b9"]}, "how": "assign", "sched": [1, 0]},
                    {"set": {"b": ["b9"]}, "how": "call", "sched": []},
                    {"set": {"b": ["b0", "b1", "b2"], "c": ["c0", "c1", "c2"]}, "how": "call", "sched": [0, 7, 3, 2, 1]}]}
    # unset input: refused, then supplied
    yield {"kind": "for", "body": "B3", "iter": ["a"], "zip": [], "df": True, "colmap": None, "use_cache": True,
           "entry": "for_node", "executor": False, "init": {"a": ["a0", "a1"], "b": "B"},
           "runs": [{"set": {}, "how": "call"}, {"set": {"c": "C"}, "how": "call"}]}
    # the column map sends the output ONTO the iterated label: the input column is lost (table) / label clash (lists)
    yield {"kind": "for", "body": "B4", "iter": ["a"], "zip": [], "df": True, "colmap": {"o": "a"}, "use_cache": True,
           "entry": "for_node", "executor": False, "init": {"a": ["a0", "a1"], "b": "B", "c": "C"},
           "runs": [{"set": {}, "how": "call"}]}
    yield {"kind": "for", "body": "B4", "iter": ["a"], "zip": ["b"], "df": False, "colmap": {"o": "a"},
           "use_cache": True, "entry": "for_node", "executor": False,
           "init": {"a": ["a0", "a1"], "b": ["b0"], "c": "C"},
           "runs": [{"set": {}, "how": "call"}, {"set": {"a": ["a0"]}, "how": "call"}]}
    yield {"kind": "for", "body": "B3", "iter": ["a"], "zip": [], "df": True, "colmap": {"p": "q"}, "use_cache": True,
           "entry": "for_node", "executor": False, "init": {"a": ["a0", "a1"], "b": "B", "c": "C"},
           "runs": [{"set": {}, "how": "call"}]}
    # refused when the class is made: unmapped input/output clash, map key that is no output
    yield {"kind": "for", "body": "BC", "iter": ["a"], "zip": [], "df": True, "colmap": None, "use_cache": True,
           "entry": "for_node", "executor": False, "init": {"a": ["a0"], "b": "B", "c": "C"},
           "runs": [{"set": {}, "how": "call"}]}
    yield {"kind": "for", "body": "B4", "iter": ["a"], "zip": [], "df": True, "colmap": {"zz": "y"}, "use_cache": True,
           "entry": "for_node", "executor": False, "init": {"a": ["a0"], "b": "B", "c": "C"},
           "runs": [{"set": {}, "how": "call"}]}
    # real thread pool / process pool under the body nodes, re-run with other lengths
    yield {"kind": "for", "body": "B4", "iter": ["a"], "zip": ["b", "c"], "df": True, "colmap": None, "use_cache": True,
           "entry": "for_node", "executor": "thread",
           "init": {"a": ["a0", "a1"], "b": ["b0", "b1", "b2"], "c": ["c0", "c1"]},
           "runs": [{"set": {}, "how": "call"}, {"set": {"a": ["x"], "c": ["c0"]}, "how": "call"}]}
    yield {"kind": "for", "body": "B3", "iter": ["a", "b"], "zip": [], "df": False, "colmap": {"p": "P"},
           "use_cache": True, "entry": "for_node", "executor": "process",
           "init": {"a": ["a0", "a1"], "b": ["b0", "b1"], "c": "C"},
           "runs": [{"set": {}, "how": "call"}, {"set": {"b": ["x"]}, "how": "setrun"}]}
    # the loop node inside a workflow, inputs through connections, shrinking re-run
    yield {"kind": "for", "body": "B4", "iter": ["a"], "zip": ["b"], "df": True, "colmap": None, "use_cache": True,
           "entry": "wf", "executor": False, "init": {"a": ["a0", "a1"], "b": ["b0", "b1", "b2"], "c": "C"},
           "runs": [{"set": {}, "how": "call"}, {"set": {"a": ["z"]}, "how": "call"}]}
    # the loop node itself on a by-value executor (seeded C16-5): new values at the same lengths, other lengths,
    # unchanged, grown; parentless and as the child of a shipped workflow; both forms
    for entry, form_df, mode in (("for_node", True, "pickle"), ("cls", False, "cloudpickle"), ("wf", True, "pickle")):
        yield {"kind": "for", "body": "B4", "iter": ["a"], "zip": ["b", "c"], "df": form_df, "colmap": None,
               "use_cache": True, "entry": entry, "executor": False, "self_exec": mode,
               "init": {"a": ["1", "2", "3"], "b": ["10", "20"], "c": ["5", "6", "7"], "d": "x"},
               "runs": [{"set": {}, "how": "call"},
                        {"set": {"a": ["7", "8", "9"], "b": ["30", "40"], "c": ["1", "2", "3"], "d": "y"}, "how": "call"},
                        {"set": {"a": ["4", "5"], "b": ["50", "60", "70"], "c": ["8", "9"], "d": "z"}, "how": "setrun"},
                        {"set": {}, "how": "call"},
                        {"set": {"a": ["4", "5", "6", "7"], "c": ["8", "9", "0"]}, "how": "assign"}]}
    # a body copy fails at iteration 1 of 3 (locally; on the executor with the failing one completing first), repaired
    yield {"kind": "for", "body": "B3", "iter": ["a"], "zip": [], "df": True, "colmap": None, "use_cache": True,
           "entry": "for_node", "executor": False, "init": {"a": ["a0", "BAD", "a2"], "b": "B", "c": "C"},
           "runs": [{"set": {}, "how": "call"}, {"set": {}, "how": "call"}, {"set": {"a": ["a0", "a1", "a2"]}, "how": "call"}]}
    yield {"kind": "for", "body": "B4", "iter": ["a"], "zip": ["b"], "df": False, "colmap": None, "use_cache": True,
           "entry": "cls", "executor": True, "init": {"a": ["a0", "a1"], "b": ["b0", "BAD"], "c": "C"},
           "runs": [{"set": {}, "how": "call", "sched": [1, 2, 0, 0]},
                    {"set": {"b": ["b0", "b1", "b2"]}, "how": "setrun", "sched": [5, 4, 3, 2, 1, 0]}]}
    # macro as body; loop as body (for in for); loop inside macro inside workflow
    yield {"kind": "for", "body": "MB", "iter": ["a"], "zip": ["b"], "df": True, "colmap": {"p": "P"}, "use_cache": True,
           "entry": "for_node", "executor": True, "init": {"a": ["a0", "a1"], "b": ["b0", "b1"], "c": "C"},
           "runs": [{"set": {}, "how": "call", "sched": [3, 0, 1, 0]}, {"set": {"a": ["x"]}, "how": "call", "sched": [1, 0]}]}
    yield {"kind": "for", "body": "NB", "iter": ["a"], "zip": [], "df": True, "colmap": {"df": "inner"},
           "use_cache": True, "entry": "for_node", "executor": False,
           "init": {"a": [["a0", "a1"], ["a2"]], "b": "B", "c": "C"},
           "runs": [{"set": {}, "how": "call"}, {"set": {"a": [["x"]]}, "how": "call"},
                    {"set": {"a": [["x", "y", "z"], ["w"], ["v", "u"]]}, "how": "call"}]}
    yield {"kind": "for", "body": "B3", "iter": ["a"], "zip": ["b"], "df": True, "colmap": None, "use_cache": True,
           "entry": "deep", "executor": True, "init": {"a": ["a0", "a1"], "b": ["b0", "b1", "b2"], "c": "C"},
           "runs": [{"set": {}, "how": "call", "sched": [3, 2, 1, 0]}, {"set": {"a": ["z"]}, "how": "call", "sched": [1, 0]},
                    {"set": {}, "how": "call", "sched": []}]}
    # hand edit of a body copy + its collectors, then the unchanged inputs again (seeded C16-8), both forms
    for form_df in (True, False):
        yield {"kind": "for", "body": "B4", "iter": ["a", "b"], "zip": [], "df": form_df, "colmap": None,
               "use_cache": True, "entry": "for_node", "executor": False,
               "init": {"a": ["1", "2"], "b": ["10", "20"], "c": "kg"},
               "runs": [{"set": {}, "how": "call", "edit": {"body": 2, "input": "c", "value": "lb"}},
                        {"set": {}, "how": "call"}, {"set": {"a": ["3"], "c": "t"}, "how": "call"}]}
        for mode in ("assign", "remove"):
            yield {"kind": "for", "body": "B4", "iter": ["a", "b"], "zip": [], "df": form_df, "colmap": None,
                   "use_cache": True, "entry": "for_node", "executor": False,
                   "init": {"a": ["1", "2"], "b": ["10", "20"], "c": "kg"},
                   "runs": [{"set": {}, "how": "call", "edit": {"body": 2, "input": "c", "value": "lb", "mode": mode}},
                            {"set": {}, "how": "call"}, {"set": {"a": ["3"], "c": "t"}, "how": "call"}]}
    # past failure (seeded C16-10): 32-bit label checksum, freq4[9] / k_59[10] shared a get-item node
    yield {"kind": "for", "body": "BK", "iter": [], "zip": ["freq4", "k_59"], "df": True, "colmap": None,
           "use_cache": True, "entry": "for_node", "executor": False,
           "init": {"freq4": [str(100 + j) for j in range(12)], "k_59": [str(500 + j) for j in range(12)], "unit": "Hz"},
           "runs": [{"set": {}, "how": "call"}]}
    # past failure (seeded C16-11 = C01-6): the last body's callback parks between its two registrations
    yield {"kind": "fine", "iter": ["a"], "zip": [], "df": True, "init": {"a": ["a0", "a1"], "b": "B", "c": "C"},
           "runs": [{"set": {}}, {"set": {"a": ["x", "y", "z"]}}], "choices": [1, 0, 0, 0, 2, 1, 0, 0, 0, 0, 0, 0]}
    # past failure (seeded C16-14): the instance shortcut dropped a broadcast value that is ==-equal to its default
    for style, nval, zval in (("iter", 1.0, False), ("zip", True, 0.0)):
        yield {"kind": "for", "body": "BD", "iter": ["a"] if style == "iter" else [], "zip": ["a"] if style == "zip" else [],
               "df": True, "colmap": None, "use_cache": True, "entry": style, "executor": False,
               "init": {"a": ["a0", "a1"], "b": "B", "n": nval, "z": zval}, "runs": [{"set": {}, "how": "call"}]}
    # pickling: at rest, through a file, mid-run (history continues on the copy), after a failed run
    yield {"kind": "for", "body": "B4", "iter": ["a"], "zip": ["b"], "df": True, "colmap": {"o": "O"}, "use_cache": True,
           "entry": "for_node", "executor": True, "init": {"a": ["a0", "a1"], "b": ["b0", "b1", "b2"], "c": "C"},
           "runs": [{"set": {}, "how": "call", "sched": [1, 0], "pickle": "after"},
                    {"set": {}, "how": "call", "sched": [], "pickle": "mid"},
                    {"set": {"a": ["x"]}, "how": "call", "sched": [2, 0, 0], "pickle": "mid"},
                    {"set": {}, "how": "call", "sched": [0, 0, 0], "pickle": "file"},
                    {"set": {"b": ["y", "z"]}, "how": "setrun", "sched": [1, 0]}]}
    yield {"kind": "for", "body": "B3", "iter": ["a"], "zip": ["b"], "df": False, "colmap": None, "use_cache": True,
           "entry": "cls", "executor": False, "init": {"a": [], "b": ["b0", "b1"], "c": "C"},
           "runs": [{"set": {}, "how": "call", "pickle": "after"}, {"set": {"a": ["a0", "a1"]}, "how": "call", "pickle": "file"},
                    {"set": {}, "how": "call"}, {"set": {"b": ["q"]}, "how": "assign"}]}
    yield {"kind": "maps", "data": {"a": 2, "b": 0, "c": 3}, "nested": ["a", "b"], "zipped": ["c"]}
    yield {"kind": "maps", "data": {"a": 2, "c": 3}, "nested": ["a", "a"], "zipped": ["c", "a"]}
    yield {"kind": "maps", "data": {"a": 2}, "nested": None, "zipped": None}


# ----------------------------------------------------------------------------- implementation side


def _exc_kind(e, state=None):
    """classify an exception by its TYPE and by the observable STATE it was raised in (`state`), never by the
    wording of its message:
      ValueError   out of dictionary_to_index_maps  -> noKeys iff both key lists are None, else allZero
                   out of a run                      -> allZero iff some looped input is an empty list
      AttributeError out of a run of a lists-form loop whose collector labels are not distinct -> LabelClash"""
    name = type(e).__name__
    state = state or {}
    if name == "ValueError":
        if state.get("no_keys"):
            return "Value:noKeys"
        if state.get("maps") or state.get("empty_looped"):
            return "Value:allZero"
        return "Value:other"
    if name == "AttributeError" and state.get("labels_clash"):
        return "LabelClash"
    return {"KeyError": "Key", "TypeError": "Type", "ReadinessError": "Readiness",
            "FailedChildError": "FailedChild", "Livelock": "Livelock"}.get(name, f"Other({name})")


def _child_name(f, child, input_labels):
    lab = child.label
    if lab in input_labels:
        return lab
    if lab.startswith("body_"):
        return "body:" + lab[5:]
    if lab.startswith("row_collector_"):
        return "rowc:" + lab[len("row_collector_"):]
    if lab == "dataframe":
        return "dataframe"
    if lab.startswith("column_collector_"):
        return "colc:" + lab[len("column_collector_"):]
    if lab.startswith("injected_GetItem_"):
        try:
            src = child.inputs.obj.connections[0].owner.label
            return f"item:{src}:{child.inputs.item.value}"
        except Exception:  # noqa: BLE001
            return "item:?"
    return "?" + lab


def _outs_view(df_form, get):
    """canonical view of the outputs: (line, structured)"""
    from pyiron_workflow.channels import NOT_DATA

    if df_form:
        v = get("df")
        if v is NOT_DATA:
            return "df ND", {"form": "df", "table": None}
        cols = [str(c) for c in v.columns]
        recs = v.to_dict("records")
        rows = [{str(k): canon(x) for k, x in r.items()} for r in recs]
        line = "df cols=" + "|".join(cols) + " rows=" + ";".join("|".join(r[c] for c in cols) for r in rows)
        return line, {"form": "df", "cols": cols, "table": rows, "dup_cols": len(set(cols)) != len(cols)}
    labels, vals = get(None)
    parts = []
    struct = {}
    for lab in labels:
        v = vals[lab]
        if v is NOT_DATA:
            parts.append(f"{lab}=ND")
            struct[lab] = None
        else:
            cv = [canon(x) for x in v]
            parts.append(f"{lab}=[" + "|".join(cv) + "]")
            struct[lab] = cv
    return "lists " + " ".join(parts), {"form": "lists", "labels": list(labels), "columns": struct}


def _pickle_mode(case, run):
    """which round trip follows / accompanies this run (None: none)"""
    how = run.get("pickle")
    if not how or case["entry"] in ("iter", "zip", "wf", "deep"):
        return None
    if how == "mid":
        return "mid" if (case["executor"] is True and run.get("exec", True)) else None
    return how


def _wire_view(f, in_labels):
    """every non-input child with the owner of the first connection of each of its input channels"""
    parts = []
    for c in f:
        if c.label in in_labels:
            continue
        ups = []
        for ch in c.inputs:
            ups.append(_child_name(f, ch.connections[0].owner, in_labels) if ch.connections else "")
        parts.append(_child_name(f, c, in_labels) + "[" + ",".join(ups) + "]")
    return "wire " + " ".join(parts)


def _state_lines(case, f):
    line, _ = _outs_view(case["df"], (lambda lab: f.outputs.df.value) if case["df"] else
                         (lambda _l: (list(f.outputs.labels), f.outputs.to_value_dict())))
    in_labels = list(f.inputs.labels)
    return [line, "ch " + " ".join(_child_name(f, c, in_labels) for c in f)]


def _run_for(case):
    import pyiron_workflow.nodes.composite as composite
    from pyiron_workflow.nodes.for_loop import for_node

    from . import nodes_c16

    policy = dict(cache_policy())
    nodes_c16.reset()
    spec = BODIES[case["body"]]
    Body = getattr(nodes_c16, case["body"])
    real = case["executor"] if case["executor"] in ("thread", "process") else None
    ctl = CtlExecutor() if (case["executor"] and not real) else None
    pool = None
    if real == "thread":
        pool = ThreadPoolExecutor(max_workers=3)
    elif real == "process":
        pool = ProcessPoolExecutor(max_workers=2)
    body_exec = pool if real else ctl
    idle = _Idle(ctl)
    old_sleep = composite.sleep
    if not real:
        composite.sleep = idle  # (a real pool completes by itself: the library's own sleep stays)
    obs, runs_out = [], []
    stats = {"form:" + ("df" if case["df"] else "lists"): 1, "entry:" + case["entry"]: 1,
             "body:" + case["body"]: 1, "executor:" + str(case["executor"]): 1}
    wf, srcs = None, {}
    try:
        shortcut = case["entry"] in ("iter", "zip")
        f = None
        if not shortcut:
            kw = dict(iter_on=tuple(case["iter"]), zip_on=tuple(case["zip"]), output_as_dataframe=case["df"],
                      output_column_map=case["colmap"], use_cache=case["use_cache"])
            init = {k: (list(v) if isinstance(v, list) else v) for k, v in case["init"].items()}
            try:
                if case["entry"] == "cls":
                    f = Body.for_node(**kw, **init)
                elif case["entry"] == "deep":
                    # loop inside macro inside workflow (layout fixed by the macro: iterate a, zip b, broadcast c)
                    from pyiron_workflow import Workflow

                    wf = Workflow("c16deep", autoload=None)
                    wf.add_child(nodes_c16.LoopMacro(**init), label="m")
                    f = wf.children["m"].loop
                elif case["entry"] == "wf":
                    # the loop node as a child of a workflow; its inputs are fed through data connections
                    from pyiron_workflow import Workflow

                    wf = Workflow("c16wf", autoload=None)
                    f = for_node(Body, **kw)
                    wf.add_child(f, label="loop")
                    for k in spec["inputs"]:
                        if k in init:
                            srcs[k] = Workflow.create.standard.UserInput(init[k], label="src_" + k)
                            wf.add_child(srcs[k])
                            f.inputs[k] = srcs[k]
                else:
                    f = for_node(Body, **kw, **init)
            except ValueError as e:
                # refused when the class is made (`For.__init_subclass__`)
                kind = {"UnmappedConflictError": "Unmapped", "MapsToNonexistentOutputError": "Nonexistent",
                        "ColumnNameConflictError": "Columns"}.get(type(e).__name__, f"Other({type(e).__name__})")
                obs.append("mk err " + kind)
                stats["mk:" + kind] = 1
                return {"obs": obs, "runs": [], "stats": stats, "policy": policy, "created": False,
                        "mk_err": f"{type(e).__name__}: {e}"[:300]}
            f.body_node_executor = body_exec
            self_exec = ByValueExecutor(case["self_exec"]) if case.get("self_exec") else None
            if self_exec is not None:
                # the loop node ITSELF (or the workflow that owns it) is shipped by value: run on a copy, merged back
                (wf if wf is not None else f).executor = self_exec
                stats["self_exec:" + case["self_exec"] + (":wf" if wf is not None else "")] = 1
            in_labels = list(f.inputs.labels)
            obs.append("ch " + " ".join(_child_name(f, c, in_labels) for c in f))
        else:
            obs.append("ch " + " ".join(spec["inputs"]))
        for run in case["runs"]:
            idle.sched = list(run.get("sched", []))
            if f is not None and body_exec is not None:
                f.body_node_executor = body_exec if run.get("exec", True) else None
            calls0 = len(nodes_c16.CALLS)
            snap = {}
            if _pickle_mode(case, run) == "mid":
                idle.before = (lambda node=f: snap.__setitem__("p", pickle.dumps(node)))
            sets = {k: (list(v) if isinstance(v, list) else v) for k, v in run["set"].items()}
            res, ret, err_text = "ok", None, ""
            try:
                if shortcut:
                    looped = case["iter"] if case["entry"] == "iter" else case["zip"]
                    node = Body(**{k: v for k, v in case["init"].items() if k not in looped})
                    meth = node.iter if case["entry"] == "iter" else node.zip
                    df = meth(body_node_executor=body_exec, output_column_map=case["colmap"],
                              **{k: list(case["init"][k]) for k in looped})
                    ret = {"df": df}
                elif case["entry"] == "deep":
                    for k, v in sets.items():
                        setattr(wf.children["m"].inputs, k, v)
                    wf.run()
                    f = wf.children["m"].loop
                elif wf is not None:
                    from pyiron_workflow import Workflow

                    for k, v in sets.items():
                        if k not in srcs:
                            srcs[k] = Workflow.create.standard.UserInput(label="src_" + k)
                            wf.add_child(srcs[k])
                            f.inputs[k] = srcs[k]
                        srcs[k].inputs.user_input = v
                    fut = wf.run()  # outputs are read off the loop node below
                    if isinstance(fut, Future):
                        fut.result()
                    if case.get("self_exec"):
                        # a shipped workflow comes back with NEW children: ours are the discarded ones now
                        f = wf.children["loop"]
                        srcs = {k: wf.children["src_" + k] for k in srcs}
                else:
                    if run["how"] == "call":
                        # (`__call__` pulls the data tree, which the library refuses for a node with an executor)
                        ret = f.run(**sets) if case.get("self_exec") else f(**sets)
                    elif run["how"] == "setrun":
                        f.set_input_values(**sets)
                        ret = f.run()
                    else:
                        for k, v in sets.items():
                            setattr(f.inputs, k, v)
                        ret = f.run()
                if isinstance(ret, Future):
                    ret = ret.result()
            except Exception as e:  # noqa: BLE001
                looped_now = [getattr(f.inputs[k], "value", None) for k in case["iter"] + case["zip"]] \
                    if f is not None else []
                cols_now = [(case["colmap"] or {}).get(o, o) for o in spec["outputs"]] + case["zip"] + case["iter"]
                res = "err " + _exc_kind(e, {
                    "empty_looped": any(isinstance(v, list) and len(v) == 0 for v in looped_now),
                    "labels_clash": (not case["df"]) and len(set(cols_now)) != len(cols_now)})
                err_text = f"{type(e).__name__}: {e}"[:300]
                if f is not None:
                    f.failed = False
                    if case.get("self_exec"):
                        f.running = False
                if wf is not None:
                    wf.failed = False
            leftover = 0
            if ctl is not None and ctl.jobs:
                leftover = len(ctl.jobs)
                while ctl.jobs:
                    ctl.complete(0)
            if ret is not None:
                line, struct = _outs_view(case["df"], (lambda lab: ret["df"]) if case["df"] else
                                          (lambda _l: (list(ret.keys()), dict(ret))))
            elif f is None:
                line, struct = "df ND", {"form": "df", "table": None}
            else:
                line, struct = _outs_view(case["df"], (lambda lab: f.outputs.df.value) if case["df"] else
                                          (lambda _l: (list(f.outputs.labels), f.outputs.to_value_dict())))
            consistent = True
            if ret is not None and f is not None:
                line2, _ = _outs_view(case["df"], (lambda lab: f.outputs.df.value) if case["df"] else
                                      (lambda _l: (list(f.outputs.labels), f.outputs.to_value_dict())))
                consistent = line2 == line
            if f is not None:
                in_labels = list(f.inputs.labels)
                children = [_child_name(f, c, in_labels) for c in f]
                order = [int(x[5:]) for x in f.provenance_by_completion if x.startswith("body_")
                         and x in f.children and not f.children[x].failed]  # the body copies that DELIVERED
                n_children = len(f)
            else:
                children, order, n_children = None, [], None
            obs.append("res " + res)
            obs.append(line)
            if children is not None:
                obs.append("ch " + " ".join(children))
                if _columns_distinct(case["body"], case["iter"], case["zip"], case["colmap"]):
                    obs.append(_wire_view(f, in_labels))
            idle.before = None
            how_p = _pickle_mode(case, run)
            if how_p:
                stats["pickle:" + how_p] = stats.get("pickle:" + how_p, 0) + 1
                if how_p == "mid":
                    if "p" in snap:
                        # the history continues on the copy restored from the pickle taken while the bodies
                        # were out; the `running` flags (its own and its children's) are cleared by hand
                        f = pickle.loads(snap["p"])
                        f.running = False
                        f.failed = False
                        for child in f:  # the body copies were out: still flagged running, their inputs locked
                            child.running = False
                        f.body_node_executor = body_exec
                        if case.get("self_exec"):
                            f.executor = self_exec
                        obs.append("snap ok")
                        obs.extend(_state_lines(case, f))
                    else:
                        obs.append("snap none")
                else:
                    if how_p == "file":
                        f.save("pickle")
                        g = type(f)(label=f.label, autoload="pickle")
                        g.delete_storage("pickle")
                        f = g
                    else:
                        f = pickle.loads(pickle.dumps(f))
                    f.body_node_executor = body_exec
                    if case.get("self_exec"):
                        f.executor = self_exec
                    obs.append("rl")
                    obs.extend(_state_lines(case, f))
            edited = False
            ed = run.get("edit")
            if ed and f is not None and wf is None and res == "ok" and not shortcut:
                # the generated sub-graph is edited BY HAND: one body copy gets another value on a broadcast input and
                # is run by hand, then the collectors downstream of it; the loop's outputs now hold the edited row
                blabel = f"body_{ed['body']}"
                mode = ed.get("mode", "run")
                if blabel in f.children and ed["input"] in f.children[blabel].inputs.labels:
                    try:
                        if mode == "run":
                            f.children[blabel].executor = None
                            f.children[blabel].run(**{ed["input"]: ed["value"]})
                            if case["df"]:
                                f.children[f"row_collector_{ed['body']}"].run()
                                f.children["dataframe"].run()
                            else:
                                for o in spec["outputs"]:
                                    f.children["column_collector_" + (case["colmap"] or {}).get(o, o)].run()
                        elif mode == "assign":
                            # NO child is run (a hand run of a child drops the records of the composites above it by
                            # itself): the body copy's free input is assigned, and what a hand run would have left in
                            # the collectors' outputs is assigned too — only the loop's internal cache key (children,
                            # wiring, free child inputs) can notice
                            f.children[blabel].inputs[ed["input"]].value = ed["value"]
                            if case["df"]:
                                tab = f.children["dataframe"].outputs.df.value.copy()
                                tab.iat[min(ed["body"], len(tab) - 1), len(tab.columns) - 1] = ("edited", ed["value"])
                                f.children["dataframe"].outputs.df.value = tab
                            else:
                                o = spec["outputs"][-1]
                                col = f.children["column_collector_" + (case["colmap"] or {}).get(o, o)]
                                lst = list(col.outputs.list.value)
                                lst[min(ed["body"], len(lst) - 1)] = ("edited", ed["value"])
                                col.outputs.list.value = lst
                        else:
                            # a child of the generated sub-graph is REMOVED by hand (no run either): the number of
                            # children after the re-run must again be what the lengths dictate
                            victim = (f"row_collector_{ed['body']}" if case["df"] else blabel)
                            f.remove_child(victim)
                        edited = True
                    except Exception:  # noqa: BLE001
                        edited = False
                stats["edit:" + mode] = stats.get("edit:" + mode, 0) + (1 if edited else 0)
            stats["edit:" + str(edited)] = stats.get("edit:" + str(edited), 0) + (1 if ed else 0)
            runs_out.append({"edited": edited, "res": res, "outs": struct, "children": children,
                             "n_children": n_children,
                             "order": order, "consistent": consistent, "leftover_jobs": leftover,
                             "err": err_text, "calls": [list(c) for c in nodes_c16.CALLS[calls0:]],
                             "sched_points": idle.points})
            stats["res:" + res.replace("err ", "")] = stats.get("res:" + res.replace("err ", ""), 0) + 1
            if struct.get("table"):
                stats["rows:" + str(min(len(struct["table"]), 9))] = stats.get(
                    "rows:" + str(min(len(struct["table"]), 9)), 0) + 1
    finally:
        composite.sleep = old_sleep
        if pool is not None:
            pool.shutdown(wait=True, cancel_futures=True)
    if ctl is not None:
        stats["max_outstanding:" + str(min(ctl.max_outstanding, 9))] = 1
    stats[f"policy:gate={policy['gate']},clear={policy['clear']},abort={policy['abort']}"] = 1
    return {"obs": obs, "runs": runs_out, "stats": stats, "policy": policy, "created": True}


def _run_maps(case):
    from pyiron_workflow.nodes.for_loop import dictionary_to_index_maps

    data = {}
    for k, v in case["data"].items():
        data[k] = 5 if v == "nolen" else [f"{k}{i}" for i in range(v)]
    try:
        maps = dictionary_to_index_maps(data, nested_keys=case["nested"], zipped_keys=case["zipped"])
        line = "maps ok " + ";".join(",".join(f"{k}:{i}" for k, i in m.items()) for m in maps)
        struct = [dict(m) for m in maps]
        order = [list(m.items()) for m in maps]
        res = "ok"
    except Exception as e:  # noqa: BLE001
        res = _exc_kind(e, {"maps": True, "no_keys": case["nested"] is None and case["zipped"] is None})
        line = "maps err " + res
        struct, order = None, None
    return {"obs": [line], "maps": struct, "maps_items": order, "res": res,
            "stats": {"maps:" + res: 1}}


def _run_labels(case):
    """every looped cell is read through an injected get-item node that is LOOKED UP BY LABEL: two cells whose
    labels coincide share a node. Search a large population of (input label, index) cells for such a pair — guided,
    where the tree has it, by the library's own label function (a private helper: only used to find candidates) —
    and JUDGE by public behaviour: in a workflow, `wf.<l1>.outputs.user_input[i1]` and `wf.<l2>.outputs.user_input[i2]`
    must be different nodes"""
    import random

    from pyiron_workflow import Workflow

    rng = random.Random(case["seed"])
    labels = list(case["labels"])
    while len(labels) < case["n_labels"]:
        labels.append(rng.choice("abcdefghijklmnopqrstuvwxyz") + "".join(
            rng.choice("abcdefghijklmnopqrstuvwxyz0123456789_") for _ in range(rng.randint(1, 5))))
    labels = sorted(set(labels))
    wf = Workflow("c16labels", autoload=None)
    probe = Workflow.create.standard.UserInput([0], label="probe__src")
    wf.add_child(probe)
    chan = probe.outputs.user_input
    fn = getattr(chan, "_get_injection_label", None)
    candidates, n_keys = [], 0
    if callable(fn):
        from pyiron_workflow.nodes.standard import GetItem

        seen = {}
        old_label = probe.label
        try:
            for lab in labels:
                probe._label = lab  # (search only) the label function reads the channel's scoped label
                for i in range(case["n_index"]):
                    try:
                        key = fn(GetItem, i)
                    except Exception:  # noqa: BLE001
                        key = None
                    if key is None:
                        continue
                    n_keys += 1
                    if key in seen and seen[key] != (lab, i):
                        candidates.append((seen[key], (lab, i)))
                    else:
                        seen[key] = (lab, i)
                    if len(candidates) >= 3:
                        break
                if len(candidates) >= 3:
                    break
        except Exception:  # noqa: BLE001
            candidates = []
        finally:
            try:
                probe._label = old_label
            except Exception:  # noqa: BLE001
                pass
    # public judgement (also of a fixed sample when no search was possible)
    pairs = candidates or [((labels[j], j), (labels[j + 1], j + 1)) for j in range(0, min(40, len(labels) - 1), 2)]
    shared = []
    for (l1, i1), (l2, i2) in pairs:
        w = Workflow("c16lab2", autoload=None)
        n1 = Workflow.create.standard.UserInput(list(range(max(i1, i2) + 1)), label=l1)
        w.add_child(n1)
        if l2 == l1:
            n2 = n1
        else:
            n2 = Workflow.create.standard.UserInput(list(range(max(i1, i2) + 1)), label=l2)
            w.add_child(n2)
        g1 = n1.outputs.user_input[i1]
        g2 = n2.outputs.user_input[i2]
        if g1 is g2:
            shared.append([[l1, i1], [l2, i2]])
    return {"obs": [], "shared": shared, "n_keys": n_keys, "searched": callable(fn),
            "stats": {"labels:keys": n_keys, "labels:searched:" + str(callable(fn)): 1}}


def _run_fine(case):
    """body nodes on a shared-memory executor whose done-callbacks run on their OWN THREAD in two halves
    (harness/pwh/execfine.py, as C01/C10 use it): whichever half runs when, the loop must return the reference
    table of its inputs — 'every completion order of executor-run body nodes' at the granularity of the callback"""
    from pyiron_workflow.nodes.for_loop import for_node

    from . import nodes_c16
    from .execfine import FineInstrument, FineScheduler
    from .execsim import CtlExecutor, Stuck

    nodes_c16.reset()
    sched = FineScheduler(list(case["choices"]))
    f = for_node(nodes_c16.B3, iter_on=tuple(case["iter"]), zip_on=tuple(case["zip"]),
                 output_as_dataframe=case["df"], **{k: (list(v) if isinstance(v, list) else v)
                                                    for k, v in case["init"].items()})
    f.body_node_executor = CtlExecutor(sched, "ctl")
    runs_out = []
    for run in case["runs"]:
        res, err = "ok", ""
        try:
            with FineInstrument(sched):
                try:
                    f.run(**{k: (list(v) if isinstance(v, list) else v) for k, v in run["set"].items()})
                finally:
                    at_return = _outs_view(case["df"], (lambda lab: f.outputs.df.value) if case["df"] else
                                           (lambda _l: (list(f.outputs.labels), f.outputs.to_value_dict())))[1]
                    late = sched.release_all()
        except Stuck as e:
            res, err = "stuck", str(e)[:100]
            at_return, late = {"form": "df" if case["df"] else "lists", "table": None, "columns": {}}, 0
        except Exception as e:  # noqa: BLE001
            res, err = "err " + type(e).__name__, str(e)[:200]
            f.failed = False
            f.running = False
        runs_out.append({"res": res, "err": err, "outs": at_return, "late": late, "running": bool(f.running),
                         "tokens": list(sched.tokens)})
        sched.tokens.clear()
    return {"obs": [], "fine_runs": runs_out, "stats": {"fine_cases": 1}}


def run_impl(case):
    if case["kind"] == "for":
        return _run_for(case)
    if case["kind"] == "maps":
        return _run_maps(case)
    if case["kind"] == "labels":
        return _run_labels(case)
    if case["kind"] == "fine":
        return _run_fine(case)
    # malformed: nothing to run on the implementation; the driver has to refuse every line
    return {"obs": list(case["expect"]), "stats": {"malformed": 1}}


def nontrivial(case, r):
    if case["kind"] == "for":
        return any(x["res"] == "ok" and (
            (x["outs"].get("table") and len(x["outs"]["table"]) >= 2)
            or (x["outs"].get("columns") and any(v and len(v) >= 2 for v in x["outs"]["columns"].values())))
            for x in r.get("runs", []))
    if case["kind"] == "maps":
        return bool(r.get("maps")) and len(r["maps"]) >= 2
    if case["kind"] == "labels":
        return r.get("n_keys", 0) > 1000 or not r.get("searched")
    if case["kind"] == "fine":
        return any(x["res"] == "ok" for x in r.get("fine_runs", []))
    return False


# ----------------------------------------------------------------------------- model side


def _tok(v):
    return v if isinstance(v, str) else "[" + ",".join(v) + "]"


def model_input(case, impl=None):
    if case["kind"] == "malformed":
        return list(case["lines"])
    if case["kind"] in ("labels", "fine"):
        return []
    if case["kind"] == "maps":
        lines = [f"data {k} {v}" for k, v in case["data"].items()]

        def enc(ks):
            return "-" if ks is None else "=" + ",".join(ks)

        lines.append(f"maps {enc(case['nested'])} {enc(case['zipped'])}")
        return lines
    spec = BODIES[case["body"]]
    lines = []
    if case["body"] == "NB":
        return lines
    for k in spec["inputs"]:
        lines.append(f"in {k} {_scalar(spec['defaults'][k]) if k in spec['defaults'] else '-'}")
    for o in spec["outputs"]:
        lines.append(f"out {o} {spec['sym'][o]} {(case['colmap'] or {}).get(o, o)}")
    lines.append("iter " + " ".join(case["iter"]))
    lines.append("zip " + " ".join(case["zip"]))
    lines.append("form " + ("df" if case["df"] else "lists"))
    lines.append("cache " + ("on" if case["use_cache"] else "off"))
    policy = (impl or {}).get("policy") or {"gate": False, "clear": False, "abort": True, "checkcols": False}
    lines.append("gatecache " + ("on" if policy["gate"] else "off"))
    lines.append("clearonfail " + ("on" if policy["clear"] else "off"))
    lines.append("startabort " + ("on" if policy["abort"] else "off"))
    lines.append("mapkeys " + " ".join((case["colmap"] or {}).keys()))
    lines.append("checkcols " + ("on" if policy.get("checkcols") else "off"))
    lines.append("begin")
    if impl is not None and impl.get("created") is False:
        return lines  # no node on the implementation side: the model has to refuse the class as well
    looped = set(case["iter"]) | set(case["zip"])

    def setline(k, v):
        if k in looped or isinstance(v, list):
            return f"set {k} many " + " ".join(v)
        return f"set {k} one {_scalar(v)}"

    for k, v in case["init"].items():
        lines.append(setline(k, v))
    shortcut = case["entry"] in ("iter", "zip")
    runs = impl["runs"] if impl and "runs" in impl else [None] * len(case["runs"])
    for run, ro in zip(case["runs"], runs):
        for k, v in run["set"].items():
            lines.append(setline(k, v))
        order = ro["order"] if ro else []
        if shortcut and ro:
            order = list(range(len(ro["calls"])))  # the for-node is not reachable: every body that was called
        how_p = _pickle_mode(case, run)
        verb = "runq " if shortcut else "snaprun " if how_p == "mid" else "rrun " if case.get("self_exec") else "run "
        lines.append(verb + " ".join(map(str, order)))
        if how_p in ("after", "file"):
            lines.append("reload")
        if ro and ro.get("edited"):
            lines.append("tamper")
    return lines


# ----------------------------------------------------------------------------- oracle (plain python, no model)


def _reference(case, vals):
    """the nested-times-zipped table of the body, written with itertools.product / zip"""
    spec = BODIES[case["body"]]
    iter_on, zip_on = case["iter"], case["zip"]
    colmap = case["colmap"] or {}
    rows = []
    zipped_stream = list(zip(*[vals[k] for k in zip_on])) if zip_on else [()]
    for nvals in itertools.product(*[vals[k] for k in iter_on]):
        for zvals in zipped_stream:
            env = {k: vals[k] for k in spec["inputs"] if k not in iter_on and k not in zip_on}
            env.update(dict(zip(iter_on, nvals)))
            env.update(dict(zip(zip_on, zvals)))
            row = {k: ref_canon(env[k]) for k in iter_on + zip_on}
            for o in spec["outputs"]:
                if case["body"] == "NB":
                    row[colmap.get(o, o)] = _inner_ref(env["a"], env["b"], env["c"])
                else:
                    row[colmap.get(o, o)] = ref_canon((spec["sym"][o], *[env[k] for k in spec["inputs"]]))
            rows.append(row)
    return rows


def _unordered(line):
    """the statement constrains the NUMBER of children after re-runs and the rows / columns / their order, not the
    position of a child inside `children` (creation order of bodies, get-item nodes and collectors): compare the
    child list and the wiring entries as multisets"""
    for tag in ("ch ", "wire "):
        if line.startswith(tag):
            return tag + " ".join(sorted(line[len(tag):].split(" ")))
    return line


def diff(case, impl, model):
    view = corr_view(case, impl)
    if view is None:
        return None
    a = [_unordered(x) for x in view]
    b = [_unordered(x) for x in model]
    if a == b:
        return None
    for i, (x, y) in enumerate(zip(a, b)):
        if x != y:
            return {"index": i, "impl": x, "model": y}
    return {"index": min(len(a), len(b)), "impl": f"<{len(a)} lines>", "model": f"<{len(b)} lines>",
            "impl_tail": a[-2:], "model_tail": b[-2:]}


def corr_view(case, impl):
    """loop-as-body cases are checked by the oracle only (the model's body is an uninterpreted function; the
    driver has no term constructor for an inner table)"""
    if case.get("kind") == "for" and case.get("body") == "NB":
        return None
    if case.get("kind") in ("labels", "fine"):
        return None
    return impl["obs"]


def _expected_children(case, vals):
    spec = BODIES[case["body"]]
    iter_on, zip_on = case["iter"], case["zip"]
    n_rows = math.prod(len(vals[k]) for k in iter_on) * (min(len(vals[k]) for k in zip_on) if zip_on else 1)
    items = sum(len(vals[k]) for k in iter_on) + (len(zip_on) * min(len(vals[k]) for k in zip_on) if zip_on else 0)
    coll = (n_rows + 1) if case["df"] else (len(spec["outputs"]) + len(iter_on) + len(zip_on))
    return len(spec["inputs"]) + n_rows + items + coll


def _f(clause, case, k, detail, **extra):
    sig = {"clause": clause, "form": "df" if case.get("df") else "lists", "executor": bool(case.get("executor"))}
    sig.update(extra)
    return {"clause": clause, "detail": f"run #{k}: {detail}", "signature": sig}


def oracle(case, r):
    fails = []
    if case["kind"] == "malformed":
        return fails
    if case["kind"] == "maps":
        return _oracle_maps(case, r)
    if case["kind"] == "labels":
        # 'each row holds THOSE input values': every looped cell needs its own item-access node
        return [{"clause": "cells-share-a-node", "detail": f"{a} and {b} are read through the same get-item node",
                 "signature": {"clause": "cells-share-a-node", "trigger": "labels"}} for a, b in r.get("shared", [])][:2]
    if case["kind"] == "fine":
        vals = dict(case["init"])
        for k, (run, ro) in enumerate(zip(case["runs"], r["fine_runs"])):
            vals.update(run["set"])
            fcase = dict(case, body="B3", colmap=None)
            ref = _reference(fcase, dict(vals))
            outs = ro["outs"]
            if outs.get("form") == "df":
                got = outs.get("table")
            else:
                cols = outs.get("columns") or {}
                got = None
                if cols and all(v is not None for v in cols.values()) and len({len(v) for v in cols.values()}) == 1:
                    n = len(next(iter(cols.values())))
                    got = [{lab: cols[lab][i] for lab in cols} for i in range(n)]
            if ro["res"] != "ok" or got != ref:
                fails.append(_f("no-table" if got is None else "row-content", case, k,
                                f"callback halves {ro['tokens']}: {ro['res']} {ro['err']} returned "
                                f"{'NOT_DATA' if got is None else str(len(got)) + ' rows'}, reference has {len(ref)} rows",
                                trigger="fine-interleaving"))
                break
        return fails
    spec = BODIES[case["body"]]
    looped = case["iter"] + case["zip"]
    if r.get("created") is False:
        return fails  # the library refused to make the loop class: there is no loop node to talk about
    colmap = case["colmap"] or {}
    if any(x not in spec["outputs"] for x in colmap):
        return fails  # (a map with unknown keys is documented to be refused; never reached)
    cols = looped + [colmap.get(o, o) for o in spec["outputs"]]
    collide = len(set(cols)) != len(cols)
    vals = {x: v for x, v in spec["defaults"].items() if x not in looped}
    vals.update(case["init"])
    for k, (run, ro) in enumerate(zip(case["runs"], r["runs"])):
        vals.update(run["set"])
        if not looped:
            continue  # no loop at all: documented ValueError, nothing to demand
        if collide:
            # the map is not a renaming (two columns share a name), yet the loop class was made: whatever
            # comes back cannot hold the looped values AND the body's results under their column names
            if all(x in vals for x in spec["inputs"]) and not any(len(vals[x]) == 0 for x in looped):
                outs = ro["outs"]
                got = (f"columns {outs.get('cols')}" if outs.get("table") is not None
                       else f"{ro['res']} {ro['err'][:80]}")
                fails.append(_f("colliding-columns", case, k, f"column map {case['colmap']} over looped {looped} gives "
                                f"the names {cols}; the class was created and the run gave: {got}",
                                trigger="colmap", looped_twice=len(set(looped)) != len(looped)))
                break
            continue
        if any(x not in vals for x in spec["inputs"]):
            continue  # an input without data: no table is defined
        zero = any(len(vals[x]) == 0 for x in looped)
        outs = ro["outs"]
        if outs["form"] == "df":
            complete = outs["table"] is not None
            got_rows = outs["table"]
        else:
            complete = all(v is not None for v in outs["columns"].values())
            got_rows = None
            if complete:
                cols = outs["columns"]
                n = {len(v) for v in cols.values()}
                if len(n) != 1:
                    fails.append(_f("ragged-lists", case, k, f"column lengths {sorted(n)}", trigger="lists"))
                    continue
                got_rows = [{lab: cols[lab][i] for lab in cols} for i in range(n.pop())]
        if ro["leftover_jobs"]:
            fails.append(_f("returned-with-running-body", case, k, f"{ro['leftover_jobs']} executor jobs outstanding",
                            trigger="executor"))
        if zero:
            # the code refuses zero-length looped input; a refusal (or no table) is accepted, rows are not
            if ro["res"] == "ok" and complete and got_rows:
                fails.append(_f("rows-for-empty-input", case, k, f"{len(got_rows)} rows for lengths "
                                f"{ {x: len(vals[x]) for x in looped} }", trigger="zero-length"))
            continue
        ref = _reference(case, vals)
        if any("BAD" in v for row in ref for v in row.values()):
            # a body copy FAILS for some row: the statement promises a row only where the body computes something.
            # Demanded: no normal return with a table (a row silently missing or rows shifted); the run must raise
            if ro["res"] == "ok" and complete:
                fails.append(_f("table-despite-failure", case, k, f"a body fails, yet the run returned "
                                f"{len(got_rows)} rows", trigger="body-failure"))
            continue
        if ro["res"] != "ok":
            fails.append(_f("run-refused", case, k, f"{ro['res']} ({ro['err']}) for lengths "
                            f"{ {x: len(vals[x]) for x in looped} }", trigger=ro["res"]))
            continue
        if not complete:
            fails.append(_f("no-table", case, k, "run returned NOT_DATA for positive lengths", trigger="nodata"))
            continue
        if not ro["consistent"]:
            fails.append(_f("return-differs-from-outputs", case, k, "", trigger="return"))
        if outs["form"] == "df" and outs.get("dup_cols"):
            fails.append(_f("duplicate-columns", case, k, str(outs["cols"]), trigger="columns"))
        want_cols = set(ref[0]) if ref else set()
        got_cols = set(outs["cols"]) if outs["form"] == "df" else set(outs["labels"])
        if got_cols != want_cols:
            fails.append(_f("column-names", case, k, f"got {sorted(got_cols)} want {sorted(want_cols)}",
                            trigger="columns"))
            continue
        if len(got_rows) != len(ref):
            fails.append(_f("row-count", case, k, f"got {len(got_rows)} rows, reference has {len(ref)}",
                            trigger="rerun" if k else "first"))
            continue
        if got_rows != ref:
            i = next(i for i, (a, b) in enumerate(zip(got_rows, ref)) if a != b)
            same_set = sorted(map(str, got_rows)) == sorted(map(str, ref))
            fails.append(_f("row-order" if same_set else "row-content", case, k,
                            f"row {i}: got {got_rows[i]} want {ref[i]}", trigger="rerun" if k else "first"))
            continue
        if ro["n_children"] is not None and ro["n_children"] != _expected_children(case, vals):
            fails.append(_f("child-count", case, k, f"{ro['n_children']} children, lengths "
                            f"{ {x: len(vals[x]) for x in looped} } need {_expected_children(case, vals)}",
                            trigger="rerun" if k else "first"))
    return fails[:3]


def _oracle_maps(case, r):
    """the pure helper on well-formed arguments: product outer, zip inner, min-truncated"""
    nk, zk, data = case["nested"] or [], case["zipped"] or [], case["data"]
    keys = nk + zk
    if not keys or len(set(keys)) != len(keys) or any(k not in data or data[k] == "nolen" for k in keys):
        return []
    if any(data[k] == 0 for k in keys):
        return []
    want = []
    zs = range(min(data[k] for k in zk)) if zk else [None]
    for idx in itertools.product(*[range(data[k]) for k in nk]):
        for z in zs:
            m = dict(zip(nk, idx))
            if z is not None:
                m.update({k: z for k in zk})
            want.append(m)
    if r["maps"] != want:
        return [{"clause": "index-maps", "detail": f"got {r['maps']} want {want}",
                 "signature": {"clause": "index-maps", "trigger": "maps"}}]
    return []


def shrink_candidates(case):
    if case["kind"] != "for":
        return
    runs = case["runs"]
    # drop a run (its sets are merged into the following one)
    for i in range(len(runs)):
        if len(runs) == 1:
            break
        new = [dict(x) for x in runs]
        dropped = new.pop(i)
        if i < len(new):
            merged = dict(dropped["set"])
            merged.update(new[i]["set"])
            new[i] = dict(new[i], set=merged)
        c = dict(case, runs=new)
        yield c
    if case["executor"]:
        yield dict(case, executor=False, runs=[{k: v for k, v in x.items() if k != "sched"} for x in runs])
    if case["colmap"]:
        c = dict(case, colmap=None)
        if _columns_distinct(case["body"], case["iter"], case["zip"], None) and not (
                case["body"] == "BC" and "a" in case["iter"] + case["zip"]):
            yield c
    # shorten lists
    for where, sets in [("init", case["init"])] + [(i, x["set"]) for i, x in enumerate(runs)]:
        for k, v in sets.items():
            if isinstance(v, list) and len(v) > 1:
                ns = dict(sets)
                ns[k] = v[:-1]
                if where == "init":
                    yield dict(case, init=ns)
                else:
                    new = [dict(x) for x in runs]
                    new[where] = dict(new[where], set=ns)
                    yield dict(case, runs=new)
