"""
Importable node classes for the C12 harness (connection editing at every owner level).

Leaf classes are generated from an interface table: every class has (a subset of) the inputs
i, s, u, b and the outputs oi, os, ob with hints chosen so that every panel position of a
multi-panel copy (`copy_io`, `replace_child`) can be made to refuse: a label missing or a hint
incompatible at the FIRST / LAST input, the FIRST / LAST output, or in the signal panels.

    TA   i:int s:str u b:bool -> oi:int os:str ob:bool      the reference interface (all hinted)
    TB   i:int s:str u b:bool -> oi os ob                   unhinted outputs (accepts everything)
    TC         s:str u b:bool -> oi:int os:str ob:bool      lacks the first input
    TD   i:int s:str u        -> oi:int os:str ob:bool      lacks the last input
    TE   i:int s:str u b:bool ->        os:str ob:bool      lacks the first output
    TF   i:int s:str u b:bool -> oi:int os:str              lacks the last output
    TG   i:str s:str u b:bool -> oi:int os:str ob:bool      first input hinted differently
    TH   i:int s:str u b:str  -> oi:int os:str ob:bool      last input hinted differently
    TI   i:int s:str u b:bool -> oi:str os:str ob:bool      first output hinted differently
    TJ   i:int s:str u b:bool -> oi:int os:str ob:str       last output hinted differently
    TK   i:int s:str u b:bool -> i s ob                     outputs labelled like inputs (cf. standard.UserInput)
    TS   = TA plus the extra signal channels xin (input) / xout (output), like standard.If

Every function raises `Boom` when its input `u` is the string "boom" (a node can be driven into
the failed state), otherwise returns values of the hinted types.

`Mac12` is a macro with its own IO (x:int -> o) whose two children `ma` (TB) and `mb` (TA) are
value-linked to it; the children's channels can additionally be connected by hand to anything.
"""

from __future__ import annotations

from pyiron_workflow import as_function_node, as_macro_node
from pyiron_workflow.channels import InputSignal, OutputSignal
from pyiron_workflow.nodes.function import Function


class Boom(RuntimeError):
    """the injected failure"""


IN_DEFAULT = {"i": "0", "s": "'x'", "u": "None", "b": "True"}
OUT_VALUE = {"oi": "0", "os": "'x'", "ob": "True"}

# name -> (inputs [(label, hint or None)], outputs [(label, hint or None)])
SPECS: dict[str, tuple[list, list]] = {
    "TA": ([("i", "int"), ("s", "str"), ("u", None), ("b", "bool")], [("oi", "int"), ("os", "str"), ("ob", "bool")]),
    "TB": ([("i", "int"), ("s", "str"), ("u", None), ("b", "bool")], [("oi", None), ("os", None), ("ob", None)]),
    "TC": ([("s", "str"), ("u", None), ("b", "bool")], [("oi", "int"), ("os", "str"), ("ob", "bool")]),
    "TD": ([("i", "int"), ("s", "str"), ("u", None)], [("oi", "int"), ("os", "str"), ("ob", "bool")]),
    "TE": ([("i", "int"), ("s", "str"), ("u", None), ("b", "bool")], [("os", "str"), ("ob", "bool")]),
    "TF": ([("i", "int"), ("s", "str"), ("u", None), ("b", "bool")], [("oi", "int"), ("os", "str")]),
    "TG": ([("i", "str"), ("s", "str"), ("u", None), ("b", "bool")], [("oi", "int"), ("os", "str"), ("ob", "bool")]),
    "TH": ([("i", "int"), ("s", "str"), ("u", None), ("b", "str")], [("oi", "int"), ("os", "str"), ("ob", "bool")]),
    "TI": ([("i", "int"), ("s", "str"), ("u", None), ("b", "bool")], [("oi", "str"), ("os", "str"), ("ob", "bool")]),
    "TJ": ([("i", "int"), ("s", "str"), ("u", None), ("b", "bool")], [("oi", "int"), ("os", "str"), ("ob", "str")]),
}
# input and output data channels of the SAME label (like standard.UserInput)
SPECS["TK"] = ([("i", "int"), ("s", "str"), ("u", None), ("b", "bool")], [("i", None), ("s", None), ("ob", None)])
SPECS["TS"] = SPECS["TA"]
EXTRA_SIGNALS = {"TS": (["xin"], ["xout"])}
HINT_TYPES = {"int": int, "str": str, "bool": bool}


def _mk(name: str):
    ins, outs = SPECS[name]
    dflt = {"int": "0", "str": "'x'", "bool": "True"}
    params = ", ".join(f"{lab}: {h} = {dflt[h]}" if h else f"{lab}={IN_DEFAULT[lab]}" for lab, h in ins)
    hinted = all(h for _l, h in outs)
    ret = f" -> tuple[{', '.join(h for _l, h in outs)}]" if hinted else ""
    vals = []
    for lab, h in outs:
        vals.append({"int": "0", "str": "'x'", "bool": "True", None: OUT_VALUE.get(lab, "0")}[h])
    src = (
        f"def {name}({params}){ret}:\n"
        f"    if u == 'boom':\n"
        f"        raise Boom('{name}')\n"
        f"    return {', '.join(vals)}\n"
    )
    ns = {"Boom": Boom}
    exec(src, ns)  # noqa: S102 - fixed table above, no outside input
    fn = ns[name]
    fn.__module__ = __name__
    fn.__qualname__ = name
    return as_function_node(*[lab for lab, _h in outs], validate_output_labels=False)(fn)


for _n in SPECS:
    if _n != "TS":
        globals()[_n] = _mk(_n)


class TS(Function):
    """the TA interface with two extra signal channels (cf. `standard.If`)"""

    _output_labels = ("oi", "os", "ob")
    _validate_output_labels = False

    def __init__(self, *args, **kwargs):
        super().__init__(*args, **kwargs)
        self.signals.input.xin = InputSignal("xin", self, self.run)
        self.signals.output.xout = OutputSignal("xout", self)

    @staticmethod
    def node_function(i: int = 0, s: str = "x", u=None, b: bool = True) -> tuple[int, str, bool]:
        if u == "boom":
            raise Boom("TS")
        return 0, "x", True


@as_macro_node("o")
def Mac12(self, x: int = 0):
    self.ma = globals()["TB"](i=x)
    self.mb = globals()["TA"](i=self.ma.outputs.oi)
    return self.mb.outputs.oi


def make(name: str, label: str):
    return globals()[name](label=label)
