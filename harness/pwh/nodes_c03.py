"""
Importable node classes for C03 (fetch priority / readiness gate / typed stores), run on the
REAL implementation.

    SrcU   input a          output o           (no hints)          upstream holding anything
    SrcT   input a: int     output o: int                          upstream with an int hint
    SrcS   input a: str     output o: str                          upstream whose hint is incompatible with x
    C3     inputs x: int, y: str, z   outputs ox, oy, oz (no hints); returns its arguments
    C3T    same inputs      outputs ox: int, oy: str, oz: int      (storing the result is type checked)
    M3     macro, inputs x: int, y: str, z  value-linked to a child C3 `c`
    MU     macro, untyped inputs            value-linked to a child C3 `c`
    MM     macro, untyped inputs            value-linked to a child M3 `m` (chain macro → child → grandchild)
    CF     inputs x: float, y: list, z      outputs ox, oy, oz (no hints); returns its arguments
    C3C    C3 with the cache on;  SrcN = SrcU with the cache off
    MC     macro, untyped inputs x, y, z, u; children a = SrcN(x), b = SrcN(u), c = C3(x <- a.o then <- b.o, y, z)
The macros have the cache off (a composite's cache also keys on its internals: C05's subject).

Adversarial values (`make_pool`): objects whose duck-typed surface lies about them — look-alikes of a pint
quantity, objects with `magnitude` / `units` / `value` / `__len__` / `__iter__` / `__index__` / `__float__` /
`__int__` / `__bool__` that raise or return odd things, subclasses of int / str / float / list with overridden
`__eq__` / `__hash__`, real pint quantities, numpy scalars and arrays, None, classes.  `tag` identifies a pool
value without calling anything the value could override (the harness never compares values with `==`).

The consumers log the arguments the wrapped function actually receives.  No input has a
default, so a fresh input holds NOT_DATA.  Caching is off for the consumers (the cache is
C05's subject; with it a re-run after a refused run would not reach the gate).
"""

from __future__ import annotations

from typing import Literal

from pyiron_workflow import as_function_node, as_macro_node

CALLS: list = []
WHO: list = []  # full label of the node whose function made the corresponding CALLS entry
_PATCHED = False


def reset():
    CALLS.clear()
    WHO.clear()
    _install_who()


def _install_who():
    """class-level wrapper around `Function._on_run` (calls the original): remembers WHICH node's function logged a
    call — the function itself does not know its node; works on pickled copies too (the label travels)"""
    global _PATCHED
    if _PATCHED:
        return
    from pyiron_workflow.nodes.function import Function

    orig = Function._on_run

    def _on_run(self, *args, **kwargs):
        n0 = len(CALLS)
        try:
            return orig(self, *args, **kwargs)
        finally:
            for _ in range(len(CALLS) - n0):
                WHO.append(self.full_label)

    Function._on_run = _on_run
    _PATCHED = True


@as_function_node("o", validate_output_labels=False)
def SrcU(a):
    o = a
    return o


@as_function_node("o", validate_output_labels=False)
def SrcT(a: int) -> int:
    o = a
    return o


@as_function_node("o", validate_output_labels=False)
def SrcS(a: str) -> str:
    o = a
    return o


@as_function_node("ox", "oy", "oz", validate_output_labels=False, use_cache=False)
def C3(x: int, y: str, z):
    CALLS.append((x, y, z))
    return x, y, z


@as_function_node("ox", "oy", "oz", validate_output_labels=False, use_cache=False)
def C3T(x: int, y: str, z) -> tuple[int, str, int]:
    CALLS.append((x, y, z))
    return x, y, z


@as_macro_node("ox", "oy", "oz", use_cache=False)
def M3(self, x: int, y: str, z):
    self.c = C3(x=x, y=y, z=z)
    return self.c.outputs.ox, self.c.outputs.oy, self.c.outputs.oz


@as_macro_node("ox", "oy", "oz", use_cache=False)
def MU(self, x, y, z):
    self.c = C3(x=x, y=y, z=z)
    return self.c.outputs.ox, self.c.outputs.oy, self.c.outputs.oz


@as_macro_node("ox", "oy", "oz", use_cache=False)
def MM(self, x, y, z):
    self.m = M3(x=x, y=y, z=z)
    return self.m.outputs.ox, self.m.outputs.oy, self.m.outputs.oz


@as_function_node("ox", "oy", "oz", validate_output_labels=False, use_cache=False)
def CF(x: float, y: list, z):
    CALLS.append((x, y, z))
    return x, y, z


@as_function_node("ox", "oy", "oz", validate_output_labels=False)
def C3C(x: int, y: str, z):
    """C3 with the cache ON"""
    CALLS.append((x, y, z))
    return x, y, z


@as_function_node("o", validate_output_labels=False, use_cache=False)
def SrcN(a):
    o = a
    return o


@as_macro_node("ox", "oy", "oz", use_cache=False)
def MC(self, x, y, z, u):
    """a macro with three children and a child input holding TWO connections: c.x <- a.o, then c.x <- b.o"""
    self.a = SrcN(a=x)
    self.b = SrcN(a=u)
    self.c = C3(x=self.a, y=y, z=z)
    self.c.inputs.x.connect(self.b.outputs.o)
    return self.c.outputs.ox, self.c.outputs.oy, self.c.outputs.oz


@as_function_node("ox", "oy", "oz", validate_output_labels=False, use_cache=False)
def CG(x: list[int], y: dict[str, int], z):
    """inputs hinted with subscripted generics: mutable values that can stop satisfying their hint in place"""
    CALLS.append((x, y, z))
    return x, y, z


@as_function_node("ox", "oy", "oz", validate_output_labels=False)
def CGC(x: list[int], y: dict[str, int], z):
    """CG with the cache on"""
    CALLS.append((x, y, z))
    return x, y, z


@as_function_node("ox", "oy", "oz", validate_output_labels=False, use_cache=False)
def CT(x: tuple[int, int], y: Literal[1, 2], z):
    """hints under which a value can compare equal to a valid one and still be ill-typed"""
    CALLS.append((x, y, z))
    return x, y, z


@as_macro_node("ox", "oy", "oz", use_cache=False)
def MT(self, x, y, z):
    self.c = CT(x=x, y=y, z=z)
    return self.c.outputs.ox, self.c.outputs.oy, self.c.outputs.oz


@as_macro_node("ox", "oy", "oz", use_cache=False)
def MG(self, x, y, z):
    self.c = CG(x=x, y=y, z=z)
    return self.c.outputs.ox, self.c.outputs.oy, self.c.outputs.oz


@as_macro_node("ox", "oy", "oz", use_cache=False)
def MGT(self, x: list[int], y: dict[str, int], z):
    self.c = CG(x=x, y=y, z=z)
    return self.c.outputs.ox, self.c.outputs.oy, self.c.outputs.oz


# ----------------------------------------------------------------------------- adversarial values


class IntEq(int):
    """an int that claims to be equal to everything"""

    def __eq__(self, other):
        return True

    def __ne__(self, other):
        return False

    def __hash__(self):
        return 0


class StrEq(str):
    """a str that is equal to nothing (not even itself) and refuses to be hashed"""

    def __eq__(self, other):
        return False

    def __ne__(self, other):
        return True

    def __hash__(self):
        raise TypeError("unhashable liar")


class FloatEq(float):
    def __eq__(self, other):
        return True

    def __hash__(self):
        return 0


class ListEq(list):
    def __eq__(self, other):
        raise RuntimeError("no comparison")

    __hash__ = None


class IntNoBool(int):
    """an int without truth value"""

    def __bool__(self):
        raise RuntimeError("no truth value")


class FakeQ:
    """looks like a pint quantity, is none"""

    def __init__(self, magnitude, units="meter"):
        self.magnitude = magnitude
        self.units = units

    @property
    def m(self):
        return self.magnitude

    @property
    def u(self):
        return self.units


class MagRaises:
    @property
    def magnitude(self):
        raise RuntimeError("no magnitude for you")

    @property
    def units(self):
        raise RuntimeError("no units for you")

    @property
    def value(self):
        raise RuntimeError("no value for you")


class LiarNum:
    """claims to be a number and a container"""

    value = 5

    def __index__(self):
        return 7

    def __int__(self):
        return 7

    def __float__(self):
        return 1.5

    def __len__(self):
        return 3

    def __iter__(self):
        return iter((1, 2, 3))

    def __bool__(self):
        raise RuntimeError("no truth value")


class LenRaises:
    def __len__(self):
        raise RuntimeError("no length")

    def __iter__(self):
        raise RuntimeError("no iteration")

    def __bool__(self):
        return False


class AnyAttr:
    """has every attribute you ask for (magnitude, units, value, ...)"""

    def __getattr__(self, name):
        if name.startswith("__"):
            raise AttributeError(name)
        return 5


_PLAIN = (MagRaises, LiarNum, LenRaises, AnyAttr)
_UREG = None


def _ureg():
    global _UREG
    if _UREG is None:
        import pint

        _UREG = pint.UnitRegistry()
    return _UREG


def _factories():
    import numpy as np

    from pyiron_workflow.channels import NotData

    def q(mag):
        return lambda: _ureg().Quantity(mag, "meter")

    return {
        200: lambda: None,
        201: lambda: int,
        202: lambda: NotData,
        203: lambda: True,
        204: lambda: 1.5,
        205: lambda: float("nan"),
        206: lambda: [1, 2],
        210: lambda: IntEq(5),
        211: lambda: StrEq("s9"),
        212: lambda: FloatEq(2.5),
        213: lambda: ListEq([1]),
        214: lambda: IntNoBool(3),
        220: lambda: FakeQ(3),
        221: lambda: FakeQ(1.5),
        222: lambda: FakeQ("s101"),
        223: lambda: FakeQ([1, 2]),
        224: lambda: MagRaises(),
        225: lambda: LiarNum(),
        226: lambda: LenRaises(),
        227: lambda: AnyAttr(),
        230: q(3),
        231: q(1.5),
        232: q(np.array([1.0, 2.0])),
        240: lambda: np.float64(1.5),
        241: lambda: np.int64(3),
        242: lambda: np.array([1, 2]),
        243: lambda: np.bool_(True),
        # mutable values and what they look like after their other holder changed them in place
        250: lambda: [7, 8],
        251: lambda: ["a", "b"],
        252: lambda: {"a": 1},
        253: lambda: {1: "x"},
        254: lambda: [7, 8, 9],
        # values that compare equal to well-typed ones but are of another type
        260: lambda: (2, 3),
        261: lambda: (2.0, 3.0),
        262: lambda: 1.0,
        263: lambda: 2.0,
    }


ADV_KEYS = (200, 201, 202, 203, 204, 205, 206, 210, 211, 212, 213, 214, 220, 221, 222, 223, 224, 225, 226, 227,
            230, 231, 232, 240, 241, 242, 243, 250, 251, 252, 253, 254, 260, 261, 262, 263)
# in-place changes the harness (the other holder of the object) can make: value index before -> after
MUTATIONS = {(250, 251), (251, 250), (250, 254), (254, 250), (252, 253), (253, 252)}


def mutate(obj, k2):
    """change `obj` in place so that it has the content of pool value `k2`"""
    new = make(k2)
    if type(obj) is list:
        obj[:] = new
    elif type(obj) is dict:
        obj.clear()
        obj.update(new)
    else:
        raise AssertionError(f"not a mutable pool value: {type(obj)}")


def make(k):
    """a fresh pool object"""
    return _factories()[k]()


def tag(v):
    """identify a pool value without calling anything the value can override"""
    t = type(v)
    if v is None:
        return "None"
    if t is bool:
        return "bool:" + ("T" if v is True else "F")
    if t is int:
        return "int:" + int.__repr__(v)
    if t is str:
        return "str:" + str.__str__(v)
    if t is float:
        return "float:" + float.__repr__(v)
    if t is list:
        return "list:" + ",".join(tag(x) for x in list.__iter__(v))
    if t is tuple:
        return "tuple:" + ",".join(tag(x) for x in tuple.__iter__(v))
    if t is dict:
        return "dict:" + ",".join(tag(a) + "=" + tag(b) for a, b in dict.items(v))
    if type.__instancecheck__(type, v):
        return "cls:" + type.__getattribute__(v, "__module__") + "." + type.__getattribute__(v, "__qualname__")
    if t in (IntEq, IntNoBool):
        return t.__name__ + ":" + int.__repr__(v)
    if t is StrEq:
        return "StrEq:" + str.__str__(v)
    if t is FloatEq:
        return "FloatEq:" + float.__repr__(v)
    if t is ListEq:
        return "ListEq:" + ",".join(tag(x) for x in list.__iter__(v))
    if t is FakeQ:
        d = object.__getattribute__(v, "__dict__")
        return "FakeQ:" + tag(d.get("magnitude")) + ":" + tag(d.get("units"))
    if t in _PLAIN:
        return t.__name__
    mod = getattr(t, "__module__", "") or ""
    if mod.startswith("pint"):
        return "Q:" + tag(v.magnitude) + ":" + str(v.units)
    if mod.startswith("numpy"):
        import numpy as np

        if isinstance(v, np.ndarray):
            return "nd:" + str(v.dtype) + ":" + repr(v.tolist())
        return "np:" + t.__name__ + ":" + repr(v.item())
    return "?" + t.__name__


_TAG2K = None


def key_of(v):
    """pool index of a value (by structure), or None"""
    global _TAG2K
    if _TAG2K is None:
        _TAG2K = {tag(f()): k for k, f in _factories().items()}
        assert len(_TAG2K) == len(ADV_KEYS), "pool tags are not distinct"
    return _TAG2K.get(tag(v))
