"""
Importable node classes for C03 (fetch priority / readiness gate / typed stores), run on the
REAL implementation.

    SrcU   input a          output o           (no hints)          upstream holding anything
    SrcT   input a: int     output o: int                          upstream with an int hint
    SrcS   input a: str     output o: str                          upstream whose hint is incompatible with x
    C3     inputs x: int, y: str, z   outputs ox, oy, oz (no hints); returns its arguments
    C3T    same inputs      outputs ox: int, oy: str, oz: int      (storing the result is type checked)
    M3     macro, inputs x: int, y: str, z  value-linked to a child C3 `c`
    MU     macro, untyped inputs            value-linked to a child C3 `c`
    MM     macro, untyped inputs            value-linked to a child M3 `m` (chain macro → child → grandchild)

The consumers log the arguments the wrapped function actually receives.  No input has a
default, so a fresh input holds NOT_DATA.  Caching is off for the consumers (the cache is
C05's subject; with it a re-run after a refused run would not reach the gate).
"""

from __future__ import annotations

from pyiron_workflow import as_function_node, as_macro_node

CALLS: list = []


def reset():
    CALLS.clear()


@as_function_node("o", validate_output_labels=False)
def SrcU(a):
    o = a
    return o


@as_function_node("o", validate_output_labels=False)
def SrcT(a: int) -> int:
    o = a
    return o


@as_function_node("o", validate_output_labels=False)
def SrcS(a: str) -> str:
    o = a
    return o


@as_function_node("ox", "oy", "oz", validate_output_labels=False, use_cache=False)
def C3(x: int, y: str, z):
    CALLS.append((x, y, z))
    return x, y, z


@as_function_node("ox", "oy", "oz", validate_output_labels=False, use_cache=False)
def C3T(x: int, y: str, z) -> tuple[int, str, int]:
    CALLS.append((x, y, z))
    return x, y, z


@as_macro_node("ox", "oy", "oz")
def M3(self, x: int, y: str, z):
    self.c = C3(x=x, y=y, z=z)
    return self.c.outputs.ox, self.c.outputs.oy, self.c.outputs.oz


@as_macro_node("ox", "oy", "oz")
def MU(self, x, y, z):
    self.c = C3(x=x, y=y, z=z)
    return self.c.outputs.ox, self.c.outputs.oy, self.c.outputs.oz


@as_macro_node("ox", "oy", "oz")
def MM(self, x, y, z):
    self.m = M3(x=x, y=y, z=z)
    return self.m.outputs.ox, self.m.outputs.oy, self.m.outputs.oz
