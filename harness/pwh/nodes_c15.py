"""
Importable node classes for C15.

`Same`: a node written in the `x = f(x); return x` idiom — its input AND its output channel are both
called `x` (they live in different panels); second input `by`.  It returns the free term ("s", x, by).
"""

from __future__ import annotations

from pyiron_workflow import as_function_node


@as_function_node("x", validate_output_labels=False)
def Same(x="d", by="d"):
    x = ("s", x, by)
    return x


@as_function_node("o", validate_output_labels=False)
def TermG(a="d", b="d", c="d", d="d"):
    """a term node with one channel more than F: the upgrade a replace_child swaps in"""
    o = ("g", a, b, c, d)
    return o
