"""
Fine-grained, still deterministic, control of the REAL scheduler: the done-callback of an
executor-run child runs on its OWN THREAD and is stepped in two halves.

`Node._run_finally` makes two calls on the running parent, `register_child_finished` and
`register_child_emitting` (in whichever order the tree under test has them). In fine mode

* `F:k` starts a thread that resolves job k's future (→ callbacks → `_finish_run` → … ) and lets it
  run until the FIRST of those two calls has returned; there the thread parks;
* `T:k` resumes the parked thread and lets it run to its end.

The composite's main thread is stopped meanwhile (it is inside one of its schedule points), so exactly
one thread runs at any time and a run is a deterministic function of the choice list. Schedule points
of the main thread: every idle `sleep` of the composite (at least one half must run there) and every
`register_child_emitting` made on the main thread (a local child completed; any number of halves may
run). Tokens `p:F:k` / `p:T:k` record at which point p (counted from 0) which half ran; `L:T:k` are
second halves that were still parked when `run()` returned and were released afterwards.

Everything delegates to the original methods; nothing of the library is replaced.
"""

from __future__ import annotations

import threading

from .execsim import Stuck, _run_job


class _Cb:
    def __init__(self, k, job):
        self.k = k
        self.job = job
        self.parked = threading.Event()  # set when the thread parks or ends
        self.go = threading.Event()
        self.done = False
        self.thread = None
        self.calls = 0


class FineScheduler:
    def __init__(self, choices, ident=lambda owner: owner.label, max_points=400):
        self.choices = list(choices)
        self.jobs: list = []  # filled by CtlExecutor.submit
        self.tokens: list[str] = []
        self.trace = self.tokens
        self.ident = ident
        self.points = 0
        self.max_points = max_points
        self.options_seen: list[int] = []
        self.log: list = []
        self.parked: list[_Cb] = []
        self.main = threading.main_thread()
        self.cur = threading.local()
        self.events = 0
        self.first_calls: list = []  # (k, "finished" | "emitting"): which call came first in a callback

    # ----- choices
    def _choose(self, n):
        self.options_seen.append(n)
        c = self.choices.pop(0) if self.choices else 0
        return c % n

    # ----- callback thread side
    def in_callback(self):
        return getattr(self.cur, "cb", None)

    def bookkeeping_call(self, which):
        """called (on the callback thread) after a register_child_finished/emitting returned"""
        cb = self.in_callback()
        if cb is None:
            return
        cb.calls += 1
        if cb.calls == 1:
            self.first_calls.append((cb.k, which))
            cb.parked.set()
            cb.go.wait()

    # ----- main thread side
    def _start(self, idx, p):
        job = self.jobs.pop(idx)
        k = self.ident(job[0])
        cb = _Cb(k, job)

        def body():
            self.cur.cb = cb
            try:
                _run_job(job)
            finally:
                cb.done = True
                cb.parked.set()

        cb.thread = threading.Thread(target=body, daemon=True)
        self.tokens.append(f"{p}:F:{k}")
        cb.thread.start()
        cb.parked.wait(60)
        if not cb.done:
            self.parked.append(cb)

    def _resume(self, idx, p):
        cb = self.parked.pop(idx)
        self.tokens.append(f"{p}:T:{cb.k}")
        cb.parked.clear()
        cb.go.set()
        cb.thread.join(60)

    def _point(self, must):
        p = self.points
        self.points += 1
        if self.points > self.max_points:
            raise Stuck("step budget exceeded")
        done_any = False
        while True:
            n_f, n_t = len(self.jobs), len(self.parked)
            opts = n_f + n_t + (0 if (must and not done_any) else 1)
            if n_f + n_t == 0:
                if must and not done_any:
                    raise Stuck("idle with nothing outstanding")
                return
            c = self._choose(opts)
            if not (must and not done_any):
                if c == 0:
                    return
                c -= 1
            if c < n_f:
                self._start(c, p)
            else:
                self._resume(c - n_f, p)
            done_any = True

    def at_sleep(self, *_a):
        self._point(must=True)

    def at_emit_main(self):
        self.events += 1
        self._point(must=False)

    def release_all(self):
        """after run() returned: let every parked callback finish (late), complete leftover jobs"""
        n = 0
        while self.parked:
            cb = self.parked.pop(0)
            self.tokens.append(f"L:T:{cb.k}")
            cb.parked.clear()
            cb.go.set()
            cb.thread.join(60)
            n += 1
        return n


class FineInstrument:
    def __init__(self, sched: FineScheduler):
        self.sched = sched

    def __enter__(self):
        import pyiron_workflow.nodes.composite as comp

        self.comp = comp
        self.old_sleep = comp.sleep
        self.old_emit = comp.Composite.register_child_emitting
        self.old_start = comp.Composite.register_child_starting
        self.old_fin = comp.Composite.register_child_finished
        sched = self.sched
        old_emit, old_start, old_fin = self.old_emit, self.old_start, self.old_fin

        def land(self_, child):
            # the moment the child's result is in place (outputs written, flags set) is BEFORE either call
            if not any(e[0] == "land" and e[1] == child.label for e in sched.log):
                sched.log.append(("land", child.label, self_.label))

        def emitting(self_, child):
            land(self_, child)
            old_emit(self_, child)
            sched.log.append(("emit", child.label, self_.label))
            if sched.in_callback() is not None:
                sched.bookkeeping_call("emitting")
            elif threading.current_thread() is sched.main:
                sched.at_emit_main()

        def starting(self_, child):
            old_start(self_, child)
            sched.log.append(("start", child.label, self_.label))

        def finished(self_, child):
            land(self_, child)
            old_fin(self_, child)
            sched.log.append(("finish", child.label, self_.label))
            if sched.in_callback() is not None:
                sched.bookkeeping_call("finished")

        comp.sleep = sched.at_sleep
        comp.Composite.register_child_emitting = emitting
        comp.Composite.register_child_starting = starting
        comp.Composite.register_child_finished = finished
        return self

    def __exit__(self, *exc):
        self.comp.sleep = self.old_sleep
        self.comp.Composite.register_child_emitting = self.old_emit
        self.comp.Composite.register_child_starting = self.old_start
        self.comp.Composite.register_child_finished = self.old_fin
        return False
