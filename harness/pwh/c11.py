"""C11 — pulling a node runs exactly its upstream closure and leaves the graph as it was."""

from __future__ import annotations

import json
import re

PROP = "C11"
PROP_FILE = "PwVerif/Props/C11.lean"
DRIVER = "Driver/C11.lean"
THEOREMS = [
    "C11_closure_spec",
    "C11_dag_not_refused",
    "C11_cycle_refused",
    "C11_exec_refused",
    "C11_dependency_order",
    "C11_exact",
    "C11_exact_repaired",
    "C11_exact_partial",
    "C11_exact_witness",
    "C11_failed_signal_witness",
    "C11_parent_emits_witness",
    "C11_restored",
    "C11_restored_ordered",
    "C11_restored_ordered_repaired",
    "C11_order_witness",
    "C11_driver_exec_refused",
    "C11_driver_exec_witness",
    "C11_no_trigger_state",
    "C11_no_trigger_state_repaired",
    "C11_allof_stale_witness",
    "C11_running_target_refused",
    "C11_refused_unchanged",
    "C11_automate_restored",
    "C11_automate_witness",
    "C11_levels_shape",
    "C11_parents",
    "C11_parents_repaired",
]
RULE = (
    "hand-written corpus (witnesses of the fixed findings KF-C11-1..4, P18, P25, refusals, three levels) + seeded scenes: parentless "
    "term/If nodes, children of a Workflow, children of a macro inside a workflow or parentless, children of a "
    "macro nested in a macro (the macro's sub-graph is generated per case), random data DAG per level (3 input "
    "slots, 0..2 connections), optional DAG-wiring of the owners beforehand, random hand-made signals (a >> b, "
    "c << (a, b), true/false/failed -> run/accumulate_and_run, forward only), hand-set starting nodes; quick: "
    "two targets per scene, thorough: every leaf x with and without run_parent_trees_too; faults {none, failing "
    "upstream node(s), data cycle, executor inside an inspected closure, data from another scope, a stale "
    "`running` flag on the target / an upstream node / the driving parent}; leaf and macro targets; `node()` or "
    "`node.pull(run_parent_trees_too=True)`; a quarter of the fault-free scenes with caching on and repeated "
    "pulls; hand-made signals on the `ran`/`failed` of driving macros; every "
    "even-numbered scene satisfies ClosureEmitsOnlyRan and DriverSilent (no failure is excusable there: the "
    "oracle computes both hypotheses from the observations and puts them into the signature). Non-trivial = "
    "some pulled level has a closure of >= 2 nodes and the pull got past the refusal checks; distinct by "
    "canonical case"
)
TRUSTED = [
    "model Pull.upstream/drive/pull transcribe Node.run_data_tree / pull / __call__, the linear wiring helper "
    "with its fallback recovery, disconnect_run, and signal propagation (direct calls without a running parent, "
    "the FIFO signal queue under a running parent); node bodies are 'log the call, maybe raise'; data readiness "
    "is not modelled (every input of the harness nodes has a default)",
    "the closure members and the execution order handed to the model are read off the live data connections: the "
    "topological enumeration whose ties are broken by the observed execution (no library internals are wrapped "
    "except Node.on_run and Node._on_cache_hit); the model checks both for validity",
    "label + str(id(node)) is injective on live nodes; caching switched off on every node (C05's subject)",
    "a macro pulled over as a sibling runs as one unit (model: one node that fails iff something inside fails); "
    "targets are leaf nodes",
    "the model has 4 switches; the driver evaluates 6 variants per case (all repairs, each single repair "
    "missing, none) and the implementation has to agree with one and the same variant on every case of a run "
    "(V0000 = the tree as pinned, V1110 = the tree now, V1111 = with fixes/C11-pull-restore-lists.patch)",
    "which nodes' caches answer (cache stream only; composites never cache there) and `running` flags set by hand "
    "are inputs of the model; a running ancestor together with run_parent_trees_too is not generated",
]
ASSUMPTIONS = [
    "wrapped functions are deterministic and touch nothing but their arguments",
    "signal connections only join siblings (the generator never wires across scopes)",
]

CH = {"run": 0, "accumulate_and_run": 1, "ran": 2, "failed": 3, "true": 4, "false": 5}

# ----------------------------------------------------------------------------- scene on the real objects


class Scene:
    pass


def _walk_levels(spec, parent_gid, out):
    """(parent_gid, level spec) for every level, outermost first"""
    out.append((parent_gid, spec))
    for nd in spec["nodes"]:
        if nd["kind"] == "macro":
            _walk_levels(nd["inner"], nd["gid"], out)
    return out


def build(case):
    from pyiron_workflow import Workflow
    from pyiron_workflow.nodes.composite import Composite

    from . import nodes, nodes_c11

    nodes.reset()
    nodes_c11.SPEC_QUEUE.clear()
    nodes_c11.BUILT.clear()
    sc = Scene()
    sc.wf = Workflow("w", autoload=None) if case["top"] == "wf" else None
    nodes_c11.build_level(sc.wf, case["level"])
    sc.node = dict(nodes_c11.BUILT)  # gid -> node
    if sc.wf is not None:
        sc.node[case["wfgid"]] = sc.wf
    for f in case.get("foreign", []):
        n = nodes.term_node(f["fid"], label=f"n{f['gid']}")
        sc.node[f["gid"]] = n
    # nodes the library made on its own (UserInput nodes kept inside macros)
    nxt = case["ngid"]
    for gid in sorted(sc.node):
        n = sc.node[gid]
        if isinstance(n, Composite):
            for c in n.children.values():
                if all(c is not m for m in sc.node.values()):
                    sc.node[nxt] = c
                    nxt += 1
    sc.n = nxt
    sc.gid = {id(n): g for g, n in sc.node.items()}
    sc.composites = [g for g in sorted(sc.node) if isinstance(sc.node[g], Composite)]
    sc.wfs = [g for g in sc.composites if isinstance(sc.node[g], Workflow)]
    for n in sc.node.values():
        # caching is C05's subject; switched on only in the cache stream, and there only on the leaves: a
        # composite whose own cache answers skips the upstream run it was asked to drive wholesale (sound, since
        # nothing has changed, but not modelled)
        n.use_cache = bool(case.get("cache")) and not isinstance(n, Composite)
    post = case.get("post", {})
    for g in post.get("dagwire", []):
        sc.node[g].set_run_signals_to_dag_execution()
    for dst, slot, src in post.get("late_edges", []):
        sc.node[dst].inputs[slot].connect(nodes_c11.out_channel(sc.node[src]))
    for s in post.get("signals", []):
        if s[0] == "rr":
            sc.node[s[1]] >> sc.node[s[2]]
        elif s[0] == "acc":
            sc.node[s[1]] << tuple(sc.node[a] for a in s[2])
        elif s[0] == "sig":
            _, a, ch, b, inp = s
            sc.node[b].signals.input[inp].connect(sc.node[a].signals.output[ch])
    for g, st in post.get("starting", {}).items():
        sc.node[int(g)].starting_nodes = [sc.node[x] for x in st]
    for g, v in post.get("automate", {}).items():
        sc.node[int(g)].automate_execution = bool(v)
    return sc


def snapshot(sc):
    from pyiron_workflow.nodes.composite import Composite

    conns, labels, keys = {}, {}, {}
    for g, n in sc.node.items():
        for panel in (n.signals.input, n.signals.output):
            for lab, chan in panel.items():
                lst = [6 * sc.gid.get(id(c.owner), 10**6) + CH[c.label] for c in chan.connections]
                if lst:
                    conns[6 * g + CH[lab]] = lst
        labels[g] = n.label
        if isinstance(n, Composite):
            keys[g] = {k: sc.gid.get(id(c), -1) for k, c in n.children.items()}
    return {
        "conns": conns,
        "labels": labels,
        "keys": keys,
        "starting": {g: [sc.gid.get(id(x), -1) for x in sc.node[g].starting_nodes] for g in sc.composites},
        "automate": {g: bool(sc.node[g].automate_execution) for g in sc.wfs},
        "failed": sorted(g for g, n in sc.node.items() if n.failed),
        "parents": {g: (None if n.parent is None else sc.gid.get(id(n.parent), -1)) for g, n in sc.node.items()},
    }


def live_deps(sc):
    deps = {}
    for g, n in sc.node.items():
        deps[g] = [sc.gid.get(id(c.owner), -1) for inp in n.inputs for c in inp.connections]
    return deps


def live_slots(sc):
    """gid -> input label -> owners of the connected upstream channels, in connection-list order"""
    return {g: {lab: [sc.gid.get(id(c.owner), -1) for c in ch.connections] for lab, ch in n.inputs.items()}
            for g, n in sc.node.items()}


def live_parent(sc):
    return {g: (None if n.parent is None else sc.gid[id(n.parent)]) for g, n in sc.node.items()}


def _parking_executor():
    """accepts jobs and never starts them: nothing depends on timing, and every hand-over is counted"""
    from concurrent.futures import Executor, Future

    class Parking(Executor):
        def __init__(self):
            self.parked = []

        def submit(self, fn, /, *args, **kwargs):
            f = Future()
            self.parked.append((f, fn, args, kwargs))
            return f

    return Parking()


class Runaway(BaseException):
    pass


class Instr:
    """wrappers that call the originals and only record"""

    def __init__(self, sc):
        self.sc = sc
        self.exec_log = []
        self.hits = []  # nodes whose cache answered
        self.attempts = []  # nodes asked to run (also those that then refuse: failed / running / not ready)
        self.obs = {}  # target gid -> [order, chain]
        self.cur = None

    def __enter__(self):
        import pyiron_workflow.node as nd
        import pyiron_workflow.topology as tp

        self.nd, self.tp = nd, tp
        self.o_on_run = nd.Node.on_run
        self.o_hit = nd.Node._on_cache_hit
        me = self

        def on_hit(self_):
            me.hits.append(me.sc.gid.get(id(self_), -1))
            return me.o_hit(self_)

        nd.Node._on_cache_hit = on_hit
        self.o_run = nd.Node.run

        def run(self_, *a, **k):
            me.attempts.append(me.sc.gid.get(id(self_), -1))
            return me.o_run(self_, *a, **k)

        nd.Node.run = run

        def on_run(self_, *a, **k):
            me.exec_log.append(me.sc.gid.get(id(self_), -1))
            if len(me.exec_log) > 400:
                raise Runaway()  # backstop: a signal cycle would keep the real scheduler busy for ever
            return me.o_on_run(self_, *a, **k)

        nd.Node.on_run = on_run
        return self

    def __exit__(self, *exc):
        self.nd.Node.on_run = self.o_on_run
        self.nd.Node._on_cache_hit = self.o_hit
        self.nd.Node.run = self.o_run
        return False


def _outcome(e, sc=None, t=None, parents=False):
    """
    the outcome class of a pull — by exception TYPE and by the observable STATE the refusal is about, never by
    the wording of a message
    """
    from pyiron_workflow.topology import CircularDataFlowError

    if e is None:
        return "ok"
    if isinstance(e, CircularDataFlowError):
        return "cyclic"
    name = type(e).__name__
    if name in ("Boom", "FailedChildError", "ReadinessError"):
        return "failed"
    running = sc is not None and any(getattr(n, "running", False) for n in sc.node.values())
    if isinstance(e, (RuntimeError, KeyError)) and running:
        # a node marked `running` refuses new input (locked) before it refuses to run; a parent with a `running`
        # child tries to resume "a broken process" by (temporary) label
        return "failed"
    if isinstance(e, ValueError) and sc is not None:
        # a refusal of the pull itself: what is it that the inspected closures contain?
        why = _refusal_state(sc, t, parents)
        if why is not None:
            return why
    return f"exc:{name}"


def _refusal_state(sc, t, parents):
    """'exec' if a closure the pull inspects holds a node with an executor, 'mixed' if one spans two scopes"""
    node = sc.node[t]
    chain = [node]
    while parents and chain[0].parent is not None:
        chain.insert(0, chain[0].parent)
    for a in chain:  # root-most level first, as the pull does
        seen, todo = {id(a): a}, [a]
        while todo:
            x = todo.pop()
            for inp in x.inputs:
                for c in inp.connections:
                    if id(c.owner) not in seen:
                        seen[id(c.owner)] = c.owner
                        todo.append(c.owner)
        if any(x.executor is not None for x in seen.values()) or (
                len(seen) > 1 and a.parent is not None and a.parent.executor is not None):
            return "exec"
        if any(x.parent is not a.parent for x in seen.values()):
            return "mixed"
    return None


def _nats(l):
    return "[" + ",".join(map(str, l)) + "]"


def unit_log(exec_log, t, parent, composites):
    """
    executions as the level sees them: the ancestors of the target only drive (dropped); any other
    composite runs as one unit (kept, its descendants' executions folded into it)
    """
    anc = set()
    x = t
    while x is not None:
        anc.add(x)
        x = parent.get(x)
    drivers = anc - {t}
    out = []
    for g in exec_log:
        if g in composites and g in drivers:
            continue
        p, inside_unit = parent.get(g), False
        while p is not None:
            if p not in drivers:
                inside_unit = True
            p = parent.get(p)
        if not inside_unit:
            out.append(g)
    return out


def _derive_obs(sc, t, parents, exec_log):
    """
    per level target: [members of its closure, an execution order]. Both are read off the live data connections,
    not off library internals: the order is THE topological enumeration of the closure whose ties are broken by
    when a node was seen to execute (then by number) — if the implementation executed in a valid order this is its
    order, if it did not the model's log differs from the implementation's.
    """
    deps = live_deps(sc)
    par = live_parent(sc)
    pos = {}
    for k, g in enumerate(exec_log):
        pos.setdefault(g, k)
    out = {}
    for a in _levels(t, parents, par):
        cl, cyc = _reach(deps, a)
        if cyc or any(x < 0 for x in cl):
            continue
        left, done, chain = set(cl), set(), []
        while left:
            ready = [x for x in left if all(d in done for d in deps.get(x, []) if d in cl)]
            x = min(ready, key=lambda g: (pos.get(g, 10**9), g))
            chain.append(x)
            done.add(x)
            left.discard(x)
        out[str(a)] = [sorted(cl), chain]
    return out


def nodes_c11_out(node):
    from . import nodes_c11

    return nodes_c11.out_channel(node)


def _if_class():
    from pyiron_workflow.nodes.standard import If

    return If


def obs_lines(sc, rec, init_labels, parent):
    s = rec["after"]
    leaf = unit_log(rec["exec"], rec["t"], parent, sc.composites)
    relab = [g for g, l in s["labels"].items() if l != init_labels[g]]
    return [
        f"outcome {rec['outcome']}",
        f"log {_nats(leaf)}",
        ("conns " + " ".join(f"{c}:{_nats(sorted(l))}" for c, l in sorted(s["conns"].items()))).rstrip() + (
            "" if s["conns"] else " "),
        f"relabelled {_nats(sorted(relab))}",
        ("starting " + " ".join(f"{p}:{_nats(sorted(s['starting'][p]))}" for p in sc.composites)).rstrip() + (
            "" if sc.composites else " "),
        ("automate " + " ".join(f"{p}:{int(s['automate'][p])}" for p in sc.wfs)).rstrip() + ("" if sc.wfs else " "),
        f"failed {_nats(unit_log(s['failed'], rec['t'], parent, []))}",
        f"ordered {int(rec['before']['conns'] == s['conns'])}",
    ]


def run_impl(case):
    import concurrent.futures

    from . import nodes
    from .execsim import term_str

    # identical graphs built before (and kept alive): which of several independent nodes a pull handles first
    # follows the iteration order of sets of node objects, i.e. object ids
    junk = [build(case) for _ in range(int(case.get("replica", 0)))]
    sc = build(case)
    fails_now = set(case.get("fails", []))
    for g in fails_now:
        fid = case["fid"].get(str(g))
        if fid is not None:
            nodes.FAIL[fid] = {0}
    for g in case.get("running", []):
        sc.node[g].running = True  # a stale flag / a run in flight elsewhere
    pool = None
    if case.get("exec"):
        pool = _parking_executor()
        for g in case["exec"]:
            sc.node[g].executor = pool
    world = {
        "n": sc.n,
        "parent": live_parent(sc),
        "composites": sc.composites,
        "wfs": sc.wfs,
        "deps": live_deps(sc),
        "init": snapshot(sc),
        "ifs": {g: bool(n.inputs.condition.value) for g, n in sc.node.items() if isinstance(n, _if_class())},
        "links": _value_links(sc),
        "slots": live_slots(sc),
    }
    recs = []
    history = any(isinstance(st[0], str) for st in case["pulls"])
    edits = []
    try:
        for step in case["pulls"]:
            if isinstance(step[0], str):
                # the user edits the graph between two pulls
                if step[0] == "repair":
                    nodes.FAIL.clear()
                    fails_now = set()
                    for n in sc.node.values():
                        n.failed = False
                elif step[0] == "edge":
                    _, dst, slot, src = step
                    sc.node[dst].inputs[slot].connect(nodes_c11_out(sc.node[src]))
                edits.append(list(step))
                continue
            t, parents = step
            before = snapshot(sc)
            vals_before = _values(sc)
            nodes.CALL_LOG.clear()
            err, ret = None, None
            with Instr(sc) as ins:
                try:
                    if parents and case.get("call"):
                        ret = sc.node[t]()  # `__call__` = pull with the parent scopes
                    else:
                        ret = sc.node[t].pull(run_parent_trees_too=bool(parents))
                except (Exception, Runaway) as e:  # noqa: BLE001
                    err = e
            rec = {
                "t": t,
                "parents": bool(parents),
                "outcome": _outcome(err, sc, t, bool(parents)),
                "err": None if err is None else f"{type(err).__name__}: {str(err)[:200]}",
                "exec": list(ins.exec_log),
                "hits": list(ins.hits),
                "submitted": 0 if pool is None else len(pool.parked),
                "calls": [c[0] for c in nodes.CALL_LOG],
                "obs": _derive_obs(sc, t, bool(parents), ins.attempts),
                "edits": edits,
                "deps": live_deps(sc),
                "slots": live_slots(sc),
                "fails": sorted(fails_now),
                "before": before,
                "after": snapshot(sc),
                "vals_before": vals_before,
                "vals_after": _values(sc),
                "ret": None if err is not None else term_str(_single(ret)),
                "out": term_str(_single_out(sc.node[t])),
            }
            recs.append(rec)
            edits = []
            if rec["outcome"] != "ok" and not history:
                break
    finally:
        del junk
        pool = None
    obs = []
    for r in recs:
        obs.extend(obs_lines(sc, r, world["init"]["labels"], world["parent"]))
    stats = {f"outcome:{r['outcome']}": 1 for r in recs}
    stats[f"top:{case['top']}"] = 1
    stats[f"depth:{len(_walk_levels(case['level'], None, []))}"] = 1
    stats["pulls"] = len(recs)
    stats["pulls_with_parents"] = sum(1 for r in recs if r["parents"])
    stats["max_closure"] = max([len(o[0]) for r in recs for o in r["obs"].values()] or [0])
    stats["leaf_executions"] = sum(len(r["exec"]) for r in recs)
    stats["cache_hits"] = sum(len(r["hits"]) for r in recs)
    stats["pulls_with_cache_hits"] = sum(1 for r in recs if r["hits"])
    stats["macro_targets"] = sum(1 for r in recs if r["t"] in sc.composites)
    stats["via_call"] = sum(1 for r in recs if r["parents"] and case.get("call"))
    stats["running_flags"] = len(case.get("running", []))
    stats["histories_fail_repair_repull"] = int(history)
    stats["replica>0"] = int(bool(case.get("replica")))
    stats["conn_list_order_changed_sets_equal"] = sum(
        1 for r in recs if r["before"]["conns"] != r["after"]["conns"]
        and all(set(r["before"]["conns"].get(c, [])) == set(r["after"]["conns"].get(c, []))
                for c in set(r["before"]["conns"]) | set(r["after"]["conns"])))
    for r in recs:
        if r["parents"] and len(_levels(r["t"], True, world["parent"])) >= 3:
            stats["pull_through_3_levels"] = stats.get("pull_through_3_levels", 0) + 1
    return {"obs": obs, "world": world, "recs": recs, "stats": stats,
            "fids": {str(g): case["fid"].get(str(g)) for g in sc.node}}


def _single(ret):
    try:
        if hasattr(ret, "keys"):
            vals = list(dict(ret).values())
            return vals[0] if len(vals) == 1 else tuple(vals)
    except Exception:  # noqa: BLE001
        pass
    return ret


def _single_out(node):
    from . import nodes_c11

    return nodes_c11.out_channel(node).value


def _values(sc):
    """current data values (canonical strings) of every input and every first output"""
    from .execsim import term_str

    vals = {"in": {}, "out": {}}
    for g, n in sc.node.items():
        vals["in"][g] = {lab: term_str(ch.value) for lab, ch in n.inputs.items()}
        outs = list(n.outputs)
        vals["out"][g] = term_str(outs[0].value) if outs else "ND"
    return vals


def _value_links(sc):
    """macro input -> (child gid, child input label) value links"""
    from pyiron_workflow.nodes.composite import Composite

    links = {}
    for g, n in sc.node.items():
        if isinstance(n, Composite):
            for lab, ch in n.inputs.items():
                r = getattr(ch, "value_receiver", None)
                if r is not None:
                    links[f"{sc.gid.get(id(r.owner), -1)}.{r.label}"] = [g, lab]
    return links


# ----------------------------------------------------------------------------- model side


def model_input(case, impl):
    w = impl["world"]
    lines = ["variants " + " ".join(TAGS), f"n {w['n']}"]
    init = w["init"]
    for g in sorted(int(k) for k in w["parent"]):
        par = w["parent"][g] if g in w["parent"] else w["parent"][str(g)]
        kind = "wf" if g in w["wfs"] else ("macro" if g in w["composites"] else "leaf")
        lines.append(f"node {g} {'-' if par is None else par} {kind} {g}")
        d = _get(w["deps"], g)
        if d:
            lines.append(f"deps {g} " + " ".join(map(str, d)))
    for c, l in sorted((int(c), l) for c, l in init["conns"].items()):
        lines.append(f"conns {c} " + " ".join(map(str, l)))
    for p in w["composites"]:
        lines.append(f"starting {p} " + " ".join(map(str, _get(init["starting"], p))))
    for p in w["wfs"]:
        lines.append(f"automate {p} {int(_get(init['automate'], p))}")
    if case.get("exec"):
        lines.append("exec " + " ".join(map(str, case["exec"])))
    if case.get("running"):
        lines.append("running " + " ".join(map(str, case["running"])))
    for g, v in sorted((int(g), v) for g, v in w["ifs"].items()):
        lines.append(f"truth {g} {int(v)}")
    lines.extend(case.get("raw", []))  # malformed lines: the driver must refuse each with `bad-op`
    cur_deps = {int(g): list(d) for g, d in w["deps"].items()}
    for r in impl["recs"]:
        # edits between two pulls: cleared `failed` flags, new data connections
        if any(e[0] == "repair" for e in r.get("edits", [])):
            lines.append("unfail " + " ".join(map(str, range(w["n"]))))
        for g, d in sorted((int(g), list(d)) for g, d in r["deps"].items()):
            if d != cur_deps.get(g, []):
                lines.append((f"deps {g} " + " ".join(map(str, d))).rstrip())
                cur_deps[g] = d
        # what raises in this pull; a macro that is pulled over as a sibling runs as one unit: whether its inside
        # raises (that depends on its own wiring and starting nodes, C09's subject) is observed
        anc = set(_levels(r["t"], True, _ik(w["parent"]))) - {r["t"]}
        fl = set(r["fails"]) | {g for g in r["after"]["failed"] if g in w["composites"] and g not in anc
                                and g not in r["before"]["failed"]}
        lines.append(("fails " + " ".join(map(str, sorted(fl)))).rstrip())
        # the branch an `If` takes is data (a condition fed by another `If` may be False): observed
        for g in sorted(int(g) for g in w["ifs"]):
            v = _get(r["vals_after"]["out"], g)
            if v in ("True", "False"):
                lines.append(f"truth {g} {int(v == 'True')}")
        # whose cache answers is C05's subject: observed (a driving parent never hits: its wiring differs)
        lines.append(("hit " + " ".join(map(str, sorted(set(r["hits"]))))).rstrip())
        for t, (order, chain) in sorted((int(t), oc) for t, oc in r["obs"].items()):
            lines.append(f"obs {t} " + " ".join(map(str, order)) + " / " + " ".join(map(str, chain)))
        lines.append(f"pull {r['t']} {int(r['parents'])}")
    return lines


def _get(d, k):
    return d[k] if k in d else d[str(k)]


# the variants the driver evaluates: all repairs, each single repair missing, nothing repaired (a tree further
# away than one missing repair diverges, which is red as well)
TAGS = ["V00000", "V01111", "V10111", "V11011", "V11101", "V11110", "V11111"]
ALIVE = set(TAGS)  # variants that explained every case so far (the tree is ONE of them)
VARIANT_HITS: dict = {}


def _norm(line):
    """connection lists and starting nodes as sets (sorted)"""
    if line.startswith("conns") or line.startswith("starting"):
        return re.sub(r"\[([0-9,]*)\]",
                      lambda m: "[" + ",".join(map(str, sorted(int(x) for x in m.group(1).split(",") if x))) + "]", line)
    return line


def diff(case, impl, model):
    refused = sum(1 for l in model if l.strip() == "bad-op")
    if refused != len(case.get("raw", [])):
        return {"index": -3, "impl": f"{len(case.get('raw', []))} malformed lines", "model": f"{refused} refused"}
    mine_all = [l.rstrip() for l in impl["obs"]]
    mine = mine_all
    best = None
    ok_tags = set()
    for tag in TAGS:
        theirs = [_norm(l[len(tag) + 1:].rstrip()) for l in model if l.startswith(tag + " ")]
        if tag[4] == "0":
            # re-connecting remembered pairs yields the same connections in *some* order
            theirs = [l for l in theirs if not l.startswith("ordered")]
            mine = [l for l in mine_all if not l.startswith("ordered")]
        else:
            mine = mine_all
        if theirs == mine:
            ok_tags.add(tag)
            continue
        k = next((i for i, (a, b) in enumerate(zip(mine, theirs)) if a != b), min(len(mine), len(theirs)))
        if best is None or k > best["index"]:
            best = {"index": k, "impl": mine[k] if k < len(mine) else "<end>",
                    "model": theirs[k] if k < len(theirs) else "<end>", "variant": tag}
    if not ok_tags:
        return best or {"index": -1, "impl": mine[:1], "model": model[:2]}
    if len(ok_tags) < len(TAGS):
        for t in ok_tags:
            VARIANT_HITS[t] = VARIANT_HITS.get(t, 0) + 1
        if not (ALIVE & ok_tags):
            return {"index": -2, "impl": f"agrees only with variants {sorted(ok_tags)}",
                    "model": f"earlier cases only with {sorted(ALIVE)}",
                    "why": "no single model variant explains the implementation on all cases"}
        ALIVE.intersection_update(ok_tags)
    return None


# ----------------------------------------------------------------------------- generation


class _Ids:
    def __init__(self):
        self.g = 0
        self.f = 0
        self.fid = {}

    def gid(self):
        self.g += 1
        return self.g - 1

    def leaf(self):
        g = self.gid()
        self.fid[str(g)] = self.f
        self.f += 1
        return g


def _gen_level(rng, ids, n_leaf, inner, owner_is_macro, clean, p_edge, p_if):
    """one level: leaves (term / If) and possibly the macro holding `inner`; returns (spec, meta)"""
    nds = []
    for _ in range(n_leaf):
        if rng.random() < p_if:
            nds.append({"gid": ids.gid(), "kind": "if", "truth": rng.random() < 0.7})
        else:
            g = ids.leaf()
            nds.append({"gid": g, "kind": "term", "fid": ids.fid[str(g)]})
    macro_gid = None
    if inner is not None:
        macro_gid = ids.gid()
        nds.append({"gid": macro_gid, "kind": "macro", "inner": inner})
    hidden = [n["gid"] for n in nds]
    rng.shuffle(hidden)
    if macro_gid is not None and clean:
        # nothing may hang on the macro's `ran` once its owner is DAG-wired: make it a data sink
        hidden.remove(macro_gid)
        hidden.append(macro_gid)
    pos = {g: k for k, g in enumerate(hidden)}
    kind = {n["gid"]: n for n in nds}
    edges = []
    for n in nds:
        g = n["gid"]
        earlier = [h for h in hidden if pos[h] < pos[g]]
        if n["kind"] == "term":
            slots = ["a", "b", "c"]
        elif n["kind"] == "if":
            slots = ["condition"] if n["truth"] else []
        else:
            slots = ["x"]
        for s in slots:
            k = 0
            if earlier and rng.random() < p_edge:
                k = 1 if (rng.random() < 0.75 or s == "condition") else 2
            for src in rng.sample(earlier, min(k, len(earlier))):
                edges.append([g, s, src])
    rng.shuffle(edges)
    order = list(nds)
    rng.shuffle(order)
    spec = {"nodes": order, "edges": edges}
    if owner_is_macro:
        leaves = [n["gid"] for n in nds if n["kind"] != "macro"]
        free = [(n["gid"], s) for n in nds if n["kind"] == "term" for s in "abc"
                if not any(e[0] == n["gid"] and e[1] == s for e in edges)]
        k = rng.choice([0, 1, 1, 2, 3])
        spec["xin"] = [list(p) for p in rng.sample(free, min(k, len(free)))]
        spec["out"] = rng.choice(leaves)
    return spec, {"hidden": hidden, "macro": macro_gid, "gids": [n["gid"] for n in nds],
                  "leaves": [n["gid"] for n in nds if n["kind"] != "macro"],
                  "ifs": {n["gid"]: n["truth"] for n in nds if n["kind"] == "if"}}


def gen_scene(rng, max_leaf=4, clean=None, fault=None):
    ids = _Ids()
    clean = (rng.random() < 0.5) if clean is None else clean
    top = rng.choice(["none", "wf", "wf"])
    depth = rng.choice([1, 1, 2, 2, 3])
    if top == "none" and depth == 3:
        depth = 2
    p_edge = rng.choice([0.35, 0.5, 0.7])
    p_if = 0.0 if rng.random() < 0.3 else 0.25
    metas = []
    inner = None
    # innermost level first (its description is nested into the macro node of the level above)
    for lvl in range(depth - 1, -1, -1):
        n_leaf = rng.randint(2 if lvl == depth - 1 else 1, max_leaf)
        spec, meta = _gen_level(rng, ids, n_leaf, inner, owner_is_macro=(lvl > 0), clean=clean, p_edge=p_edge, p_if=p_if)
        metas.insert(0, meta)
        inner = spec
    case = {"top": top, "level": inner, "fid": ids.fid}
    if top == "wf":
        case["wfgid"] = ids.gid()
    owners = []  # owner gid of each level (None = parentless)
    for lvl, meta in enumerate(metas):
        owners.append((case.get("wfgid") if top == "wf" else None) if lvl == 0 else metas[lvl - 1]["macro"])
    post = {"dagwire": [], "late_edges": [], "signals": [], "starting": {}, "automate": {}}
    for lvl, meta in enumerate(metas):
        own = owners[lvl]
        if own is not None and rng.random() < 0.45:
            post["dagwire"].append(own)
        hidden, mg = meta["hidden"], meta["macro"]
        for _ in range(rng.choice([0, 0, 1, 2, 3])):
            if len(hidden) < 2:
                break
            i, j = sorted(rng.sample(range(len(hidden)), 2))
            a, b = hidden[i], hidden[j]
            r = rng.random()
            if clean and a == mg:
                continue  # no signal out of a macro that may have to drive a pull
            if r < 0.5:
                post["signals"].append(["rr", a, b])
            elif r < 0.7:
                srcs = [h for h in hidden[:j] if not (clean and h == mg)]
                post["signals"].append(["acc", b, rng.sample(srcs, min(len(srcs), rng.choice([1, 2])))])
            elif not clean and a != mg:
                if a in meta["ifs"] and rng.random() < 0.7:
                    chn = "true" if (meta["ifs"][a] if rng.random() < 0.8 else not meta["ifs"][a]) else "false"
                else:
                    chn = "failed"
                post["signals"].append(["sig", a, chn, b, rng.choice(["run", "run", "accumulate_and_run"])])
        if own is not None and rng.random() < 0.3:
            post["starting"][str(own)] = rng.sample(meta["gids"], rng.randint(0, min(2, len(meta["gids"]))))
    if top == "wf" and rng.random() < 0.15:
        post["automate"][str(case["wfgid"])] = False
    # faults
    fault = fault or rng.choice(["none"] * 9 + ["fails"] * 5 + ["cyclic"] * 2 + ["exec"] * 2 + ["mixed"] * 2
                                + ["running"] * 2)
    all_leaves = [g for m in metas for g in m["leaves"]]
    case["fails"], case["exec"], case["foreign"] = [], [], []
    if fault == "fails":
        cand = [g for g in all_leaves if str(g) in ids.fid]
        case["fails"] = rng.sample(cand, min(len(cand), rng.choice([1, 1, 2])))
    elif fault in ("exec", "running"):
        pass  # placed by `gen_cases` inside a closure that the chosen pull inspects
    elif fault == "cyclic":
        m = rng.choice(metas)
        terms = [g for g in m["leaves"] if str(g) in ids.fid]
        if terms:
            hid = [h for h in m["hidden"] if h in terms]
            a = rng.choice(hid)
            later = [h for h in m["hidden"] if m["hidden"].index(h) >= m["hidden"].index(a) and h != m["macro"]]
            post["late_edges"].append([a, rng.choice("abc"), rng.choice(later)])
            if a != later[-1] and rng.random() < 0.5:
                # make sure the back edge closes a cycle: later[-1] takes data from a as well
                if str(later[-1]) in ids.fid:
                    post["late_edges"].append([later[-1], rng.choice("abc"), a])
    elif fault == "mixed":
        lv = [k for k, o in enumerate(owners) if o is not None]
        if lv:
            m = metas[rng.choice(lv)]
            terms = [g for g in m["leaves"] if str(g) in ids.fid]
            if terms:
                g = ids.leaf()
                case["foreign"].append({"gid": g, "fid": ids.fid[str(g)]})
                post["late_edges"].append([rng.choice(terms), rng.choice("abc"), g])
    if not clean:
        # the wiring that the partial theorem excludes: a branch of an `If`, the `failed` of a failing node
        for meta in metas:
            srcs = [(g, "true" if tr else "false") for g, tr in meta["ifs"].items()]
            srcs += [(g, "failed") for g in case["fails"] if g in meta["leaves"]]
            if meta["macro"] is not None:
                # whatever a driving macro could emit: its `ran`, its `failed`
                srcs += [(meta["macro"], rng.choice(["failed", "failed", "ran"]))]
            for a, chn in srcs:
                others = meta["hidden"][meta["hidden"].index(a) + 1:]  # forward only: no signal cycles
                if others and rng.random() < 0.6:
                    post["signals"].append(["sig", a, chn, rng.choice(others),
                                            rng.choice(["run", "run", "accumulate_and_run"])])
    case["post"] = post
    case["ngid"] = ids.g
    case["_meta"] = {"clean": clean, "fault": fault, "leaves": all_leaves, "levels": [m["leaves"] for m in metas],
                     "macros": [m["macro"] for m in metas if m["macro"] is not None],
                     "hidden": [[h for h in m["hidden"] if str(h) in ids.fid] for m in metas]}
    return case


def with_pulls(case, pulls):
    c = {k: v for k, v in case.items()}
    c["pulls"] = [list(p) for p in pulls]
    return json.loads(json.dumps(c))


def spec_levels(case):
    """[(owner gid or None, level spec)] outermost first; owner of the top level is the workflow (if any)"""
    return _walk_levels(case["level"], case.get("wfgid") if case["top"] == "wf" else None, [])


def spec_closure(case, t):
    """(closure of t among its siblings following the generated data edges, owner gid of that level)"""
    for owner, spec in spec_levels(case):
        gids = {n["gid"] for n in spec["nodes"]}
        if t not in gids:
            continue
        deps = {}
        for dst, _slot, src in list(spec["edges"]) + [e for e in case["post"]["late_edges"] if e[0] in gids]:
            deps.setdefault(dst, []).append(src)
        seen, todo = {t}, [t]
        while todo:
            for j in deps.get(todo.pop(), []):
                if j not in seen:
                    seen.add(j)
                    todo.append(j)
        return seen, owner
    return {t}, None


def place_executor(rng, case, t, par, with_parent=False):
    cands, owner = spec_closure(case, t)
    cands = sorted(cands)
    if not with_parent and owner is not None and len(cands) > 1:
        cands.append(owner)  # (executor) the parent that would have to drive the upstream run
    if not with_parent and par and case["top"] == "wf":
        cands.append(case["wfgid"])  # ... the root of the enclosing scopes
    if with_parent and owner is not None and not par:
        # (running flag) also the composite that would have to drive the upstream run; not with the parent
        # scopes: whether the `fetch` of a running ancestor raises depends on its data, which is not modelled
        cands.append(owner)
    while par and owner is not None and owner != case.get("wfgid"):
        cl, up = spec_closure(case, owner)
        cands += sorted(cl - {owner}) if with_parent else sorted(cl)
        owner = up
    return [rng.choice(cands)]


def gen_cases(rng, tier):
    n_scenes = 200 if tier == "quick" else 1800
    for k in range(n_scenes):
        sc = gen_scene(rng, max_leaf=4 if tier == "quick" else 5, clean=(k % 2 == 0))
        leaves = sc["_meta"]["leaves"]
        deep = sc["_meta"]["levels"][-1]
        macros = sc["_meta"]["macros"]
        if tier == "quick":
            targets = [rng.choice(deep), rng.choice(leaves + macros)]
        else:
            targets = list(leaves) + macros
        fault = sc["_meta"]["fault"]
        for t in targets:
            par = rng.random() < 0.5
            if fault == "running":
                # with the parent scopes an ancestor's `fetch` forwards values into the (locked) inputs of running
                # descendants: whether that raises depends on data and links, which are not modelled
                par = False
            pulls = [[t, int(par)]]
            sc["call"] = rng.random() < 0.5  # `node()` instead of `node.pull(run_parent_trees_too=True)`
            sc["cache"] = fault in ("none", "fails") and rng.random() < 0.25
            if fault == "exec":
                sc["exec"] = place_executor(rng, sc, t, par)
            elif fault == "running":
                sc["running"] = place_executor(rng, sc, t, par, with_parent=True)
            elif sc["cache"]:
                # the second pull meets the caches the first one filled
                pulls.append([t, int(par)])
                if rng.random() < 0.5:
                    pulls.append([rng.choice(leaves), int(rng.random() < 0.5)])
            elif rng.random() < 0.2:
                pulls.append([rng.choice(leaves), int(rng.random() < 0.5)])
            sc["replica"] = 0
            if fault == "fails" and not sc["cache"] and rng.random() < 0.6:
                # history: the pull fails half-way, the user repairs (and perhaps puts two independent nodes in
                # series), pulls again; on a graph built after a few identical ones (other object ids)
                pulls = [[t, int(par)], ["repair"]]
                lvl = next((h for h in sc["_meta"]["hidden"] if t in h), None)
                if lvl and len(lvl) >= 2 and rng.random() < 0.7:
                    i, j = sorted(rng.sample(range(len(lvl)), 2))
                    pulls.append(["edge", lvl[j], rng.choice("abc"), lvl[i]])
                pulls.append([t, int(par)])
                sc["replica"] = rng.randrange(6)
            yield with_pulls(sc, pulls)
            if tier == "thorough":
                if fault == "exec":
                    sc["exec"] = place_executor(rng, sc, t, not par)
                elif fault == "running":
                    continue
                yield with_pulls(sc, [[t, int(not par)]] * (2 if sc["cache"] else 1))
    if tier == "thorough":
        yield from small_scope()


def small_scope():
    """every data DAG on three nodes (edges i -> j for i < j) x parentless / workflow children x every target x
    {nobody, each node} failing x {no hand-made signal, 0 >> 2, 0 >> 1 and 1 >> 2} x with / without parents"""
    import itertools

    pairs = [(0, 1), (0, 2), (1, 2)]
    for top in ("none", "wf"):
        n = 4 if top == "wf" else 3
        for mask in range(8):
            edges = [[j, "a" if i == 0 else "b", i] for k, (i, j) in enumerate(pairs) if mask >> k & 1]
            level = {"nodes": [_term(0), _term(1), _term(2)], "edges": edges}
            for t, fail, sig, par in itertools.product(range(3), (None, 0, 1, 2), range(3), (0, 1)):
                signals = [[], [["rr", 0, 2]], [["rr", 0, 1], ["rr", 1, 2]]][sig]
                yield _mk(top, level, n, post={"signals": signals}, fails=[] if fail is None else [fail],
                          pulls=[[t, par]])


# ----------------------------------------------------------------------------- oracle (independent of the model)


def _ik(d):
    return {int(k): v for k, v in d.items()}


def _reach(deps, a):
    """(nodes reachable from `a` through data dependencies, `a` included; is a cycle reachable)"""
    seen, order, cyc = set(), [], False
    state = {}

    def go(x):
        nonlocal cyc
        st = [(x, iter(deps.get(x, [])))]
        state[x] = 1
        seen.add(x)
        while st:
            y, it = st[-1]
            nxt = next(it, None)
            if nxt is None:
                state[y] = 2
                order.append(y)
                st.pop()
                continue
            if state.get(nxt) == 1:
                cyc = True
            elif nxt not in state:
                state[nxt] = 1
                seen.add(nxt)
                st.append((nxt, iter(deps.get(nxt, []))))

    go(a)
    return seen, cyc


def _levels(t, parents, parent):
    lv = [t]
    if parents:
        p = parent.get(t)
        while p is not None:
            lv.insert(0, p)
            p = parent.get(p)
    return lv


def _trigger(o, before_conns, drivers, log, failed_after, ifs):
    """which emission made the outside node `o` run: look at who is wired to its run inputs"""
    ranked = []
    for inp in (6 * o, 6 * o + 1):
        for c in before_conns.get(inp, []):
            own, k = divmod(c, 6)
            if own in drivers:
                kind = {2: "driver-ran", 3: "driver-failed"}.get(k, "driver-other")
                fired = (k == 3) == (own in failed_after)
            elif k in (4, 5):
                kind, fired = "if-branch", own in log and ifs.get(own) == (k == 4)
            elif k == 3:
                kind, fired = "failed-signal", own in log and own in failed_after
            else:
                kind, fired = "ran", own in log
            ranked.append((0 if fired else 1, ["if-branch", "failed-signal", "driver-ran", "driver-failed", "ran",
                                               "driver-other"].index(kind), kind))
    ranked.sort()
    return ranked[0][2] if ranked else "unwired"


def _ref_value(w, rec, levels, allowed, fids, closures):
    """the term the target must return: the wrapped functions composed in plain Python along the data
    connections (first connection holding data wins; an unconnected input keeps its value; a macro that
    runs as one unit is a black box whose observed output is taken as given)"""
    slots, links = _ik(rec.get("slots") or w["slots"]), w["links"]
    comps, ifs = set(w["composites"]), _ik(w["ifs"])
    vb, va = rec["vals_before"], rec["vals_after"]
    vin, vout_after = _ik(vb["in"]), _ik(va["out"])
    # a macro that drives a level is run in full (`parent.run()`), which fetches its own inputs from whatever
    # their upstream channels hold at that moment and forwards them by value to its children
    # ... with the parent scopes every ancestor's inputs are fetched explicitly; without, the direct parent
    # does so only if it runs at all, i.e. if the level target is not alone in its closure
    par = _ik(w["parent"])
    drivers = (set(levels[:-1]) | {par.get(a) for a in levels if len(closures[a]) > 1}) - {None}
    hits = set(rec.get("hits", []))
    memo = {}

    def slotval(g, lab):
        for src in slots.get(g, {}).get(lab, []):
            v = T(src)
            if v != "ND":
                return v
        link = links.get(f"{g}.{lab}")
        if link is not None and link[0] in drivers and slots.get(link[0], {}).get(link[1]):
            return slotval(link[0], link[1])
        return vin[g][lab]

    def T(g):
        if g in memo:
            return memo[g]
        memo[g] = "?"
        if g in comps or g not in allowed or g in hits:
            v = vout_after.get(g, "?")  # black box / not run / answered from the cache: what it holds
        elif g in ifs:
            c = slotval(g, "condition")
            v = "False" if c in ("False", "0", "None", "''", "()", "[]", "{}") else "True"
        elif fids.get(str(g)) is not None:
            v = f"f{fids[str(g)]}(" + ",".join(slotval(g, s) for s in "abc") + ")"
        else:  # a UserInput node kept inside a macro
            labs = list(slots.get(g, {}))
            v = slotval(g, labs[0]) if labs else "?"
        memo[g] = v
        return v

    t = levels[-1]
    if t in comps or t in hits:
        return None
    return T(t)


def _oracle_rec(case, w, rec, fids):
    out = []
    parent, deps = _ik(w["parent"]), _ik(rec.get("deps") or w["deps"])  # the data connections at the time of this pull
    comps, ifs = set(w["composites"]), _ik(w["ifs"])
    t, par, outcome = rec["t"], rec["parents"], rec["outcome"]
    levels = _levels(t, par, parent)
    drivers = set(_levels(t, True, parent)[:-1])  # the direct parent drives the run even without the option
    execs = set(case.get("exec", []))

    def fail(clause, detail, **sig):
        out.append({"clause": clause, "detail": f"pull({t}, parents={int(par)}) -> {outcome}: {detail}",
                    "signature": {"clause": clause, **sig}})

    # which nodes may run, level by level, up to the first level that must refuse
    allowed, level_of, refusing, closures, exec_where = set(), {}, None, {}, None
    for j, a in enumerate(levels):
        cl, cyc = _reach(deps, a)
        closures[a] = cl
        if cyc:
            refusing = (j, "cyclic")
        elif cl & execs:
            refusing = (j, "exec")
            exec_where = "closure"
        elif len(cl) > 1 and parent.get(a) in execs:
            # something upstream would be run by a parent that has an executor: that run goes to the executor
            refusing = (j, "exec")
            exec_where = "driving-parent"
        elif any(x < 0 or parent.get(x) != parent.get(a) for x in cl):
            refusing = (j, "mixed")
        if refusing:
            break
        for x in cl - {a}:
            allowed.add(x)
            level_of[x] = j
    if refusing is None:
        allowed.add(t)
        level_of[t] = len(levels) - 1

    log = unit_log(rec["exec"], t, parent, comps)
    failed_after = set(rec["after"]["failed"])

    # 1. nothing else runs
    outside = [g for g in log if g not in allowed]
    if outcome == "ok" and refusing is not None and refusing[1] == "exec":
        # the un-refused pull is reported once, as such (below); the target's own run is part of it
        outside = [g for g in outside if g != t]
    if outside:
        bc0 = _ik(rec["before"]["conns"])
        out_after = _ik(rec["vals_after"]["out"])
        branch = {g: (out_after.get(g) == "True") if out_after.get(g) in ("True", "False") else v
                  for g, v in ifs.items()}
        trig = _trigger(outside[0], bc0, drivers, log, failed_after, branch)
        # the hypotheses of the partial theorem (C11_exact_partial): when they hold nothing is excusable
        only_ran = all(not bc0.get(6 * i + k) for i in allowed for k in (3, 4, 5))
        driving = {parent.get(a) for a in levels} - {None}
        silent = all(p in set(w["wfs"]) or all(not bc0.get(6 * p + k) for k in (2, 3, 4, 5)) for p in driving)
        fail(f"runs-outside-closure/{trig}", f"node {outside[0]} is not upstream of the target but ran; executed {log}, "
             f"closure {sorted(allowed)}", trigger=trig, hypotheses_hold=bool(only_ran and silent))
    inside = [g for g in log if g in allowed]
    # 2. each once
    twice = sorted({g for g in inside if inside.count(g) > 1})
    if twice:
        fail("runs-twice", f"nodes {twice} ran more than once: {log}")
    # 3. dependency order, level by level, the target last
    pos = {}
    for k, g in enumerate(inside):
        pos.setdefault(g, k)
    bad_order = None
    for g in inside:
        for d in deps.get(g, []):
            if d in allowed and level_of.get(d) == level_of.get(g) and d not in rec.get("hits", []) and (
                    d not in pos or pos[d] > pos[g]):
                bad_order = bad_order or (g, d)
    lv_seq = [level_of[g] for g in inside]
    if bad_order:
        fail("dependency-order", f"node {bad_order[0]} ran before its data source {bad_order[1]}: {log}")
    elif lv_seq != sorted(lv_seq) or (t in inside and inside[-1] != t):
        fail("dependency-order", f"levels / target out of order: {log}")
    # 4. complete on success; a cyclic pull cannot succeed
    hits = set(rec.get("hits", []))
    if outcome == "ok":
        missing = sorted(allowed - set(inside) - hits)  # a node whose cache answers need not execute (C05)
        if refusing is not None and refusing[1] == "cyclic":
            fail("cyclic-not-refused", f"the data of level target {levels[refusing[0]]} is cyclic but the pull returned")
        elif refusing is not None and refusing[1] == "exec":
            fail("executor-not-refused", f"an executor sits on the {exec_where} of level target "
                 f"{levels[refusing[0]]} but the pull returned; executed {log}, {rec.get('submitted', 0)} job(s) "
                 f"handed to the executor", where=exec_where)
        elif missing:
            fail("closure-incomplete", f"upstream nodes {missing} did not run: {log}")
    else:
        # a pull of acyclic, executor-free, single-scope data in which nothing raises has to return
        # (macros run as one unit are left out: what happens inside them is not this property's subject)
        inner_fail = set(rec["fails"] if "fails" in rec else case.get("fails", []))
        if (refusing is None and not out and not (allowed & comps) and not (allowed & inner_fail)
                and not ((set(rec["before"]["failed"]) | set(case.get("running", []))) & (allowed | drivers))):
            fail("unexpected-failure", f"nothing upstream is cyclic, on an executor, foreign or failing, yet: {rec['err']}")
    if rec.get("submitted") and "executor-not-refused" not in [f["clause"] for f in out]:
        fail("handed-to-executor", f"{rec['submitted']} job(s) were handed to an executor during the pull")
    # 5. the graph is as before, whatever the outcome
    b, a = rec["before"], rec["after"]
    bc, ac = _ik(b["conns"]), _ik(a["conns"])
    diffc = sorted(c for c in set(bc) | set(ac) if set(bc.get(c, [])) != set(ac.get(c, [])))
    if diffc:
        c = diffc[0]
        fail("signals-restored", f"channel {c} (node {c // 6}, {list(CH)[c % 6]}) had {bc.get(c, [])}, now {ac.get(c, [])}",
             outcome=outcome, channel=list(CH)[c % 6])
    elif bc != ac:
        c = sorted(c for c in set(bc) | set(ac) if bc.get(c, []) != ac.get(c, []))[0]
        fail("signal-order-restored", f"channel {c} (node {c // 6}, {list(CH)[c % 6]}) listed {bc.get(c, [])}, now "
             f"{ac.get(c, [])}: same connections, another firing order", channel=list(CH)[c % 6])
    if _ik(b["labels"]) != _ik(a["labels"]) or b["keys"] != a["keys"]:
        fail("labels-restored", f"labels {b['labels']} -> {a['labels']}", outcome=outcome)
    sb, sa = _ik(b["starting"]), _ik(a["starting"])
    if {k: sorted(v) for k, v in sb.items()} != {k: sorted(v) for k, v in sa.items()}:
        fail("starting-restored", f"starting nodes {sb} -> {sa}", outcome=outcome)
    if _ik(b["parents"]) != _ik(a["parents"]):
        fail("parent-restored", f"parents {b['parents']} -> {a['parents']}", outcome=outcome)
    if _ik(b["automate"]) != _ik(a["automate"]):
        fail("automate-restored", f"automate_execution {b['automate']} -> {a['automate']}", outcome=outcome)
    # 6. returned value
    if outcome == "ok" and refusing is None and not [f for f in out if f["clause"] != "signal-order-restored"]:
        ref = _ref_value(w, rec, levels, allowed, fids, closures)
        if ref is not None and (rec["ret"] != ref or rec["out"] != ref):
            fail("value", f"returned {rec['ret']} (output channel {rec['out']}), reference {ref}")
    return out


def oracle(case, impl):
    if "recs" not in impl:
        return []
    out = []
    for rec in impl["recs"]:
        out.extend(_oracle_rec(case, impl["world"], rec, impl.get("fids", {})))
    return out


def nontrivial(case, impl):
    for rec in impl.get("recs", []):
        if rec["outcome"] in ("ok", "failed") and any(len(o[0]) >= 2 for o in rec["obs"].values()):
            return True
    return False


# ----------------------------------------------------------------------------- corpus, shrinking


def _term(g, f=None):
    return {"gid": g, "kind": "term", "fid": g if f is None else f}


def _mk(top, level, n, *, post=None, fails=(), execs=(), foreign=(), pulls=(), raw=()):
    """a hand-written case: gids 0..n-1 are used by the description (the workflow, if any, is n-1)"""
    fid = {}

    def walk(spec):
        for nd in spec["nodes"]:
            if nd["kind"] == "term":
                fid[str(nd["gid"])] = nd["fid"]
            elif nd["kind"] == "macro":
                walk(nd["inner"])

    walk(level)
    for f in foreign:
        fid[str(f["gid"])] = f["fid"]
    p = {"dagwire": [], "late_edges": [], "signals": [], "starting": {}, "automate": {}}
    p.update(post or {})
    c = {"top": top, "level": level, "fid": fid, "fails": list(fails), "exec": list(execs),
         "foreign": list(foreign), "post": p, "ngid": n, "pulls": [list(x) for x in pulls]}
    if top == "wf":
        c["wfgid"] = n - 1
    if raw:
        c["raw"] = list(raw)
    return c


def corpus():
    # P17: `If` upstream of the target, its `true` signal wired to a bystander (known finding if-branch)
    yield _mk("none", {"nodes": [{"gid": 0, "kind": "if", "truth": True}, _term(1), _term(2)],
                       "edges": [[1, "a", 0]]}, 3,
              post={"signals": [["sig", 0, "true", 2, "run"]]}, pulls=[[1, 0]])
    # a failing upstream node whose `failed` signal starts a handler outside the closure
    yield _mk("none", {"nodes": [_term(0), _term(1), _term(2)], "edges": [[1, "a", 0]]}, 3,
              post={"signals": [["sig", 0, "failed", 2, "run"]]}, fails=[0], pulls=[[1, 0]])
    # macro inside a DAG-wired workflow; pulling a child of the macro makes the macro emit `ran`
    yield _mk("wf", {"nodes": [{"gid": 3, "kind": "macro", "inner": {"nodes": [_term(0), _term(1)],
                                                                     "edges": [[1, "a", 0]], "xin": [], "out": 1}},
                               _term(2)], "edges": [[2, "a", 3]]}, 5,
              post={"dagwire": [4]}, pulls=[[1, 0]])
    # failing upstream node under a workflow: automate_execution stays False
    yield _mk("wf", {"nodes": [_term(0), _term(1)], "edges": [[1, "a", 0]]}, 3, fails=[0], pulls=[[1, 0]])
    # P18: a >> c, a >> d, a >> b: the order inside a.ran's list is reversed by the pull, the sets are equal
    yield _mk("none", {"nodes": [_term(0), _term(1), _term(2), _term(3)], "edges": [[1, "a", 0]]}, 4,
              post={"signals": [["rr", 0, 2], ["rr", 0, 3], ["rr", 0, 1]]}, pulls=[[1, 0], [1, 0]])
    # P25: five children of a workflow, hand-made signals, failing upstream node
    yield _mk("wf", {"nodes": [_term(0), _term(1), _term(2), _term(3), _term(4)],
                     "edges": [[1, "a", 0], [2, "a", 1], [2, "b", 0], [3, "a", 2], [4, "a", 0]]}, 6,
              post={"signals": [["rr", 0, 4], ["acc", 3, [1, 4]]], "starting": {"5": [0]}}, fails=[1],
              pulls=[[2, 0]])
    yield _mk("wf", {"nodes": [_term(0), _term(1), _term(2), _term(3), _term(4)],
                     "edges": [[1, "a", 0], [2, "a", 1], [2, "b", 0], [3, "a", 2], [4, "a", 0]]}, 6,
              post={"signals": [["rr", 0, 4], ["acc", 3, [1, 4]]], "starting": {"5": [0]}, "dagwire": [5]},
              pulls=[[2, 0], [3, 1]])
    # refusals: cyclic data, executor upstream, data from another scope
    yield _mk("none", {"nodes": [_term(0), _term(1), _term(2)], "edges": [[1, "a", 0], [2, "a", 1]]}, 3,
              post={"late_edges": [[0, "b", 1]], "signals": [["rr", 2, 0]]}, pulls=[[2, 0]])
    yield _mk("wf", {"nodes": [_term(0), _term(1)], "edges": [[1, "a", 0]]}, 3, execs=[0],
              post={"signals": [["rr", 1, 0]]}, pulls=[[1, 1]])
    yield _mk("wf", {"nodes": [_term(0), _term(1)], "edges": [[1, "a", 0]]}, 4,
              foreign=[{"gid": 2, "fid": 2}], post={"late_edges": [[0, "b", 2]]}, pulls=[[1, 0]])
    # three levels, with and without the parent scopes, malformed lines in the model stream
    deep = {"nodes": [_term(5), {"gid": 4, "kind": "macro", "inner": {
        "nodes": [_term(2), {"gid": 3, "kind": "macro", "inner": {
            "nodes": [_term(0), _term(1)], "edges": [[1, "a", 0]], "xin": [[0, "a"]], "out": 1}}],
        "edges": [[3, "x", 2]], "xin": [[2, "b"]], "out": 3}}], "edges": [[4, "x", 5]]}
    yield _mk("wf", deep, 7, pulls=[[1, 1]],
              raw=["pull 1", "node 99 - leaf 0", "conns 1 x", "frobnicate", "obs 1 0 1", "truth 0 7"])
    yield _mk("wf", deep, 7, pulls=[[1, 0], [1, 1]])
    yield _mk("none", deep, 6, pulls=[[1, 1]])
    # extension: a macro as the target (runs as one unit), through `__call__`
    yield {**_mk("wf", deep, 7, pulls=[[3, 1], [4, 1]]), "call": True}
    # a driving macro that fails, with hand-made signals on its `failed` and `ran`
    mac = {"nodes": [{"gid": 3, "kind": "macro", "inner": {"nodes": [_term(0), _term(1)], "edges": [[1, "a", 0]],
                                                          "xin": [], "out": 1}}, _term(2), _term(4)], "edges": []}
    yield _mk("wf", mac, 6, post={"signals": [["sig", 3, "failed", 2, "run"], ["rr", 3, 4]]}, fails=[0],
              pulls=[[1, 0]])
    yield _mk("wf", mac, 6, post={"signals": [["sig", 3, "failed", 2, "run"], ["rr", 3, 4]]}, pulls=[[1, 1]])
    # `running` flags: the target itself (parentless, upstream runs first), a sibling under a workflow (the
    # workflow tries to resume "a broken process"), the driving workflow
    chain3 = {"nodes": [_term(0), _term(1), _term(2)], "edges": [[1, "a", 0], [2, "a", 1]]}
    yield {**_mk("none", chain3, 3, post={"signals": [["rr", 0, 2]]}, pulls=[[2, 0]]), "running": [2]}
    yield {**_mk("none", chain3, 3, pulls=[[2, 0]]), "running": [1]}
    yield {**_mk("wf", chain3, 4, pulls=[[2, 0]]), "running": [0]}
    yield {**_mk("wf", chain3, 4, pulls=[[2, 1]]), "running": [2]}
    yield {**_mk("wf", chain3, 4, pulls=[[2, 0]]), "running": [3]}
    # history on a diamond 0 -> {1, 2} -> 3 -> 4: one branch raises, repair, the branches go in series, re-pull;
    # parentless / in a workflow / in a macro, either branch failing, on the 1st..4th identical graph
    dia = {"nodes": [_term(0), _term(1), _term(2), _term(3), _term(4)],
           "edges": [[1, "a", 0], [2, "a", 0], [3, "a", 1], [3, "b", 2], [4, "a", 3]]}
    for bad, other in ((1, 2), (2, 1)):
        for rep_ in range(8):
            hist = [[4, 0], ["repair"], ["edge", other, "b", bad], [4, 0]]
            d = dia if rep_ % 2 else {**dia, "nodes": dia["nodes"][::-1]}  # creation order of the nodes varies too
            yield {**_mk("none", d, 5, fails=[bad], pulls=hist), "replica": rep_}
        yield {**_mk("wf", dia, 6, fails=[bad], pulls=[[4, 0], ["repair"], ["edge", other, "b", bad], [4, 1]]),
               "replica": 1}
        yield {**_mk("none", {"nodes": [{"gid": 5, "kind": "macro", "inner": {**dia, "xin": [[0, "a"]], "out": 4}}],
                              "edges": []}, 6, fails=[bad],
                     pulls=[[4, 0], ["repair"], ["edge", other, "b", bad], [4, 1]]), "replica": 2}
    # executors on ENCLOSING scopes (a parking executor that never starts a job): the workflow root / the enclosing
    # macro; a call with the parent scopes must be refused at that level; a plain pull whose upstream run the
    # parent would have to drive must be refused as well (KF-C11-6 while it is not)
    yield {**_mk("wf", chain3, 4, execs=[3], pulls=[[1, 1]]), "call": True}
    yield _mk("wf", chain3, 4, execs=[3], pulls=[[2, 0]])
    yield _mk("wf", chain3, 4, execs=[3], pulls=[[0, 0]])
    yield {**_mk("wf", deep, 7, execs=[4], pulls=[[1, 1]]), "call": True}
    yield _mk("wf", deep, 7, execs=[3], pulls=[[1, 0]])
    yield {**_mk("wf", deep, 7, execs=[6], pulls=[[1, 1]]), "call": True}
    # caching on: the second and third pull meet the caches the first one filled; nothing outside may run
    yield {**_mk("wf", chain3, 4, post={"signals": [["rr", 0, 2]], "dagwire": [3]}, pulls=[[2, 0], [2, 0], [1, 1]]),
           "cache": True}
    yield {**_mk("none", {"nodes": [{"gid": 0, "kind": "if", "truth": True}, _term(1), _term(2)],
                          "edges": [[1, "a", 0]]}, 3,
                 post={"signals": [["sig", 0, "true", 2, "run"]]}, pulls=[[1, 0], [1, 0]]), "cache": True}


def _drop_node(spec, gid):
    """the level description without leaf `gid` (None if it cannot go)"""
    out = dict(spec)
    if any(n["gid"] == gid for n in spec["nodes"]):
        if spec.get("out") == gid:
            return None
        out["nodes"] = [n for n in spec["nodes"] if n["gid"] != gid]
        out["edges"] = [e for e in spec["edges"] if e[0] != gid and e[2] != gid]
        if "xin" in spec:
            out["xin"] = [x for x in spec["xin"] if x[0] != gid]
        return out
    nodes, changed = [], False
    for n in spec["nodes"]:
        if n["kind"] == "macro":
            inner = _drop_node(n["inner"], gid)
            if inner is None:
                return None
            if inner is not n["inner"]:
                n = {**n, "inner": inner}
                changed = True
        nodes.append(n)
    if not changed:
        return spec
    out["nodes"] = nodes
    return out


def _mentions(post, gid):
    for s in post["signals"]:
        flat = json.dumps(s[1:])
        if any(x == gid for x in json.loads(flat) if isinstance(x, int)) or (
                s[0] == "acc" and gid in s[2]):
            return True
    return any(gid in v or str(gid) == k for k, v in post["starting"].items()) or any(
        gid in e[:1] + e[2:] for e in post["late_edges"]) or gid in post["dagwire"]


def shrink_candidates(case):
    c = json.loads(json.dumps(case))
    c.pop("_meta", None)
    post = c["post"]
    if len(c["pulls"]) > 1:
        yield {**c, "pulls": c["pulls"][:1]}
        yield {**c, "pulls": c["pulls"][1:]}
    if c.get("raw"):
        yield {**c, "raw": []}
    for key in ("signals", "dagwire", "late_edges"):
        for i in range(len(post[key])):
            yield {**c, "post": {**post, key: post[key][:i] + post[key][i + 1:]}}
    for key in ("starting", "automate"):
        for k in list(post[key]):
            yield {**c, "post": {**post, key: {a: b for a, b in post[key].items() if a != k}}}
    for i in range(len(c["fails"])):
        yield {**c, "fails": c["fails"][:i] + c["fails"][i + 1:]}
    targets = {p[0] for p in c["pulls"] if not isinstance(p[0], str)} | {
        x for p in c["pulls"] if p[0] == "edge" for x in (p[1], p[3])}
    if c.get("replica"):
        yield {**c, "replica": 0}
    # leaves nobody mentions
    for _owner, spec in spec_levels(c):
        for n in spec["nodes"]:
            g = n["gid"]
            if n["kind"] == "macro" or g in targets or g in c["fails"] or g in c["exec"] or _mentions(post, g):
                continue
            lv = _drop_node(c["level"], g)
            if lv is not None and lv is not c["level"]:
                yield {**c, "level": lv}
    # single data edges
    def edge_variants(spec):
        for i in range(len(spec["edges"])):
            yield {**spec, "edges": spec["edges"][:i] + spec["edges"][i + 1:]}
        for k, n in enumerate(spec["nodes"]):
            if n["kind"] == "macro":
                for inner in edge_variants(n["inner"]):
                    yield {**spec, "nodes": spec["nodes"][:k] + [{**n, "inner": inner}] + spec["nodes"][k + 1:]}
    yield from ({**c, "level": lv} for lv in edge_variants(c["level"]))
