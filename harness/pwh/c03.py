"""C03 — inputs resolve by connection priority; nothing runs on missing or ill-typed data."""

from __future__ import annotations

import functools
import json
import itertools
import typing

PROP = "C03"
PROP_FILE = "PwVerif/Props/C03.lean"
DRIVER = "Driver/C03.lean"
THEOREMS = [
    "C03_fetch_spec",
    "C03_fetch_value",
    "C03_recency",
    "C03_stamp",
    "C03_stamp_else",
    "C03_most_recent",
    "C03_keeps_own",
    "C03_run_kw",
    "C03_gate",
    "C03_called_with",
    "C03_gate_closed",
    "C03_called_with_closed",
    "C03_refused_clean",
    "C03_no_bad_store_step",
    "C03_no_bad_store",
    "C03_refused_assignment_noop",
    "C03_bad_rejected",
    "C03_forward_checked",
    "C03_refusal_kind",
    "C03_activate_witness",
    "C03_roundtrip_failed_noop",
    "C03_roundtrip_static",
    "C03_roundtrip_no_invention",
    "C03_roundtrip_marker",
    "C03_roundtrip_values",
    "C03_roundtrip_keeps_order",
    "C03_roundtrip_gate",
    "C03_roundtrip_reverses_witness",
    "C03_second_marker_witness",
    "C03_setInputs_refused_prefix",
    "C03_admission_gate",
    "C03_not_admitted_runs_nothing",
    "C03_calls_always_good",
    "C03_submit_gate",
    "C03_complete_calls",
    "C03_run_function_node",
    "C03_file_second_restore_noop",
    "C03_priority_ignores_run_state",
    "C03_fetch_ignores_upstream_run_state",
    "C03_skip_running_upstream_witness",
    "C03_ready_current_value",
    "C03_mutation_shuts_gate",
    "C03_memoised_ready_witness",
    "C03_replace_keeps_order",
    "C03_replace_keeps_priority",
    "C03_replace_reversed_witness",
    "C03_connect_many_seq",
    "C03_connect_many_order",
    "C03_connect_many_witness",
]
RULE = (
    "family `prod`: the full product of 0-4 connections x every connection order x every upstream state "
    "(data / NOT_DATA / hint-violating) x strict on/off on the input x upstream kind (untyped / typed non-strict / "
    "typed strict), own value state and delivery path cycled over the product (thorough: all 12768, quick: a seeded "
    "sample); family `path`: own value state x 15 delivery paths (direct value, attribute, set_input_values keyword / "
    "positional, keyword / positional at run, value_receiver link, copy_io soft / hard, macro M3 / MU / MM by value, "
    "attribute and fetch) x strictness on both sides x upstream state, exhaustive; family `rand`: seeded random "
    "histories incl. disconnect / reconnect, flags, strict toggles, receiver chains and cycles; family `bad`: "
    "malformed operations; family `rt`: 0-3 connections x every order x every upstream state x own value state x "
    "position of a pickle round trip of the whole graph in the history (first / between wiring / just before the run / "
    "between two runs / twice / around macro forwarding) x pickle | cloudpickle x a never-set input (13248 points, "
    "sampled); family `adv`: 27 adversarial values x 2 consumers (int/str/-, float/list/-) x each input x 11 delivery "
    "paths x strict on/off x {no round trip, graph round trip, node round trip} (10206 points, thorough: all); family "
    "`randrt`: random histories over plain and adversarial values with round trips of the graph (nodes in a workflow) "
    "or of single top-level nodes at any point. non-trivial = the case reached at least one run that got past "
    "set_input_values, one accepted assignment or one successful round trip; distinct by canonical case"
)
TRUSTED = [
    "model Data.setVal / fetch1 / runNode / roundTrip transcribe DataChannel.value.setter, InputData.fetch, Node.run "
    "(default flags, no executor, cache off) and __getstate__ / __setstate__ of channels, composites and macros; "
    "validated in lock-step on the explored cases only",
    "whether a hint accepts a value is computed by the harness WITHOUT the library (instance-of on the type of the "
    "object; a real pint quantity - and nothing else - is judged by its magnitude) and fed to the model as `reject` "
    "lines; the same verdict is the oracle's (valid_value on subscripted hints is C04's subject)",
    "the oracle is a plain-python reading of the property text (most recent effective connection holding data wins, "
    "gate, clean refusal, typed stores, a round trip invents no value) that keeps its own connection time stamps from "
    "the observed *sets* of partners; `no data` is recognised as the library defines it: identity with NOT_DATA",
    "node-level round trips: the harness puts the copy in the place of the original and retires the original "
    "(disconnects it, clears receivers pointing at it), as a user swapping in a re-loaded node would",
    "the model variant (connection order kept or reversed by __setstate__, value links pushed or assigned) is probed "
    "on three tiny objects per worker; it selects the Lean model to compare with, the oracle does not know it",
]
ASSUMPTIONS = [
    "Node.run with default flags (execute() / check_readiness=False / fetch_input=False switch the gate off by design)",
    "cache off for the consumer nodes: with the cache a re-run on unchanged inputs returns the stored outputs without "
    "invoking the function (allowed by the statement's `only if`, but it would hide the gate from observation; the "
    "cache itself is C05's subject)",
    "wrapped functions are total here (raising functions are C06's subject)",
    "toggling strict hints on and re-assigning hints are not assignment paths (C03_activate_witness)",
    "a round trip is pickle.loads(pickle.dumps(obj)) / cloudpickle.dumps in the same process; whether a round trip "
    "succeeds at all and what else it preserves is C07's subject - here a failing one must leave the original alone "
    "and a successful one must not invent values, after which every clause is demanded of the copy",
    "adversarial values never lie through __class__, __repr__ / __str__ / __format__ or __reduce__ (the library "
    "formats rejected values into its messages; pickling them is python's business)",
]
EXHAUSTIVE = {"thorough": True}
EXPLANATION = (
    "every case is executed on real pyiron_workflow nodes / channels / macros / workflows and on the Lean model; after "
    "every operation (pickle round trips included) all channel values, ordered connection lists, running/failed flags "
    "and the log of arguments received by the wrapped functions are diffed"
)

POOL = list(range(1, 10)) + list(range(101, 106))
# adversarial values (nodes_c03.make / tag): objects whose duck-typed surface lies about them
ADV = (200, 201, 202, 203, 204, 205, 206, 210, 211, 212, 213, 214, 220, 221, 222, 223, 224, 225, 226, 227,
       230, 231, 232, 240, 241, 242, 243, 250, 251, 252, 253, 254, 260, 261, 262, 263)
# 250.. are mutable (a list / a dict); the pairs the harness, as the other holder of the object, can turn into one
# another in place
MUTATIONS = {(250, 251), (251, 250), (250, 254), (254, 250), (252, 253), (253, 252)}

# ----------------------------------------------------------------------------- static layout

# spec -> (inputs [(label, hint)], outputs [(label, hint)], child (label, spec) | None)
_I3 = (("x", int), ("y", str), ("z", None))
_U3 = (("x", None), ("y", None), ("z", None))
_F3 = (("x", float), ("y", list), ("z", None))
_G3 = (("x", list[int]), ("y", dict[str, int]), ("z", None))
_T3 = (("x", tuple[int, int]), ("y", typing.Literal[1, 2]), ("z", None))
_O3 = (("ox", None), ("oy", None), ("oz", None))
SPECS = {
    "SrcU": ((("a", None),), (("o", None),), None),
    "SrcT": ((("a", int),), (("o", int),), None),
    "SrcS": ((("a", str),), (("o", str),), None),
    "C3": (_I3, _O3, None),
    "C3T": (_I3, (("ox", int), ("oy", str), ("oz", int)), None),
    "M3": (_I3, _O3, ("c", "C3")),
    "MU": (_U3, _O3, ("c", "C3")),
    "MM": (_U3, _O3, ("m", "M3")),
    "CF": (_F3, _O3, None),
    "CG": (_G3, _O3, None),
    "CT": (_T3, _O3, None),
    "MT": (_U3, _O3, ("c", "CT")),
    "CGC": (_G3, _O3, None),
    "MG": (_U3, _O3, ("c", "CG")),
    "MGT": (_G3, _O3, ("c", "CG")),
    "C3C": (_I3, _O3, None),
    "SrcN": ((("a", None),), (("o", None),), None),
    # a composite with several children: kids (label, spec); inl: macro input idx -> (kid idx, kid input idx);
    # outl: (kid idx, kid output idx) -> macro output idx; wires: (kid, input idx) <- (kid, output idx) in the order
    # the connections are made; deps: kid idx -> kid idxs whose `ran` it waits for (kids are listed in run order)
    "MC": (_U3 + (("u", None),), _O3,
           {"kids": (("a", "SrcN"), ("b", "SrcN"), ("c", "C3")),
            "inl": ((0, (0, 0)), (1, (2, 1)), (2, (2, 2)), (3, (1, 0))),
            "outl": (((2, 0), 0), ((2, 1), 1), ((2, 2), 2)),
            "wires": (((2, 0), (0, 0)), ((2, 0), (1, 0))),
            "deps": {2: (0, 1)}}),
}
QUIET = {"SrcU", "SrcT", "SrcS", "SrcN"}  # node classes whose function does not write to the call log
CACHED = {"SrcU", "SrcT", "SrcS", "C3C", "CGC"}  # node classes with use_cache on (the library's default)


def layout(specs, full=False):
    """node table, channel table and initial value links (`full`: also the initial connections), computed without
    touching the library"""
    nodes, chans, links, wires = [], [], [], []

    def add(spec, path):
        ins, outs, child = SPECS[spec]
        nid = len(nodes)
        node = {"id": nid, "spec": spec, "path": path, "ins": [], "outs": [], "kids": [],
                "label": f"n{path[0]}" if len(path) == 1 else path[-1]}
        nodes.append(node)
        for lab, hint in ins:
            node["ins"].append(len(chans))
            chans.append({"id": len(chans), "node": nid, "panel": "in", "label": lab, "hint": hint})
        for lab, hint in outs:
            node["outs"].append(len(chans))
            chans.append({"id": len(chans), "node": nid, "panel": "out", "label": lab, "hint": hint})
        node["deps"] = {}
        if isinstance(child, dict):
            kid = [add(sp, path + (lab,)) for lab, sp in child["kids"]]
            node["kids"] = kid
            for mi, (k, ki) in child["inl"]:
                links.append((node["ins"][mi], nodes[kid[k]]["ins"][ki]))
            for (k, ko), mo in child["outl"]:
                links.append((nodes[kid[k]]["outs"][ko], node["outs"][mo]))
            for (k, ki), (k2, ko) in child["wires"]:
                wires.append((nodes[kid[k]]["ins"][ki], nodes[kid[k2]]["outs"][ko]))
            node["deps"] = {kid[k]: [kid[d] for d in ds] for k, ds in child["deps"].items()}
        elif child is not None:
            cid = add(child[1], path + (child[0],))
            node["kids"].append(cid)
            cn = nodes[cid]
            for a, b in zip(node["ins"], cn["ins"]):
                links.append((a, b))
            for a, b in zip(cn["outs"], node["outs"]):
                links.append((a, b))
        return nid

    for i, spec in enumerate(specs):
        add(spec, (i,))
    if full:
        return nodes, chans, links, wires
    return nodes, chans, links


def _proto(k):
    """the python object a value index stands for"""
    if k < 100:
        return k
    if k < 200:
        return f"s{k}"
    from . import nodes_c03 as N

    return N.make(k)


def _ref_admit(hint, v):
    """reference verdict `v satisfies the plain-class hint`, computed without the library: the documented courtesy
    `a pint quantity is judged by its magnitude` applies to REAL quantities only; then instance-of, decided on the
    type of the object and not on anything the object says about itself"""
    import pint

    import typing

    if pint.Quantity in type(v).__mro__:
        v = v.magnitude
    origin = typing.get_origin(hint)
    if origin is list:
        # every element, judged on its own type (the harness' values agree in all elements, so the library's
        # first-element sampling gives the same verdict: how deep valid_value looks is C04's subject)
        (et,) = typing.get_args(hint)
        return list in type(v).__mro__ and all(et in type(e).__mro__ and type(e) is not bool for e in list.__iter__(v))
    if origin is tuple:
        ets = typing.get_args(hint)
        return tuple in type(v).__mro__ and tuple.__len__(v) == len(ets) and all(
            et in type(e).__mro__ and type(e) is not bool for et, e in zip(ets, tuple.__iter__(v)))
    if origin is typing.Literal:
        # a literal admits the very values it lists: same type, same value (the pool's candidates are honest builtins)
        return any(type(v) is type(a) and v == a for a in typing.get_args(hint)) if type(v) in (int, str, bool, float) \
            else False
    if origin is dict:
        kt, vt = typing.get_args(hint)
        return dict in type(v).__mro__ and all(kt in type(a).__mro__ and vt in type(b).__mro__
                                               for a, b in dict.items(v))
    return hint in type(v).__mro__


@functools.lru_cache(maxsize=None)
def admit(hint, k):
    if hint is None or k == "ND":
        return True
    if not isinstance(k, int):
        return False  # "ND2" (a NotData instance that is not the marker), unrecognised objects
    return _ref_admit(hint, _proto(k))


def comps_of(nodes, chans, roots, with_wf):
    """the composites of the pickled object, innermost first, as the seven fields of the model's `Comp`; the lookup
    tables are the label resolution children[owner label].panel[label], computed from the labels alone"""
    out = []

    def table(kids, panel):
        """channel -> channel of a direct child with the same (owner label, label) on `panel`"""
        by = {}
        for kid in kids:
            for c in nodes[kid]["ins" if panel == "in" else "outs"]:
                by[(nodes[kid]["label"], chans[c]["label"])] = c
        t = []
        for c in chans:
            if c["panel"] == panel:
                hit = by.get((nodes[c["node"]]["label"], c["label"]))
                if hit is not None:
                    t.append((c["id"], hit))
        return t

    def comp(kids, own):
        ins = [c for kid in kids for c in nodes[kid]["ins"]]
        couts = [c for kid in kids for c in nodes[kid]["outs"]]
        rm = []
        if own is not None:
            mine = {chans[c]["label"]: c for c in own["outs"]}
            rm = [(c["id"], mine[c["label"]]) for c in chans if c["panel"] == "out" and c["label"] in mine]
        return {"I": ins, "RO": table(kids, "out"), "MI": [] if own is None else list(own["ins"]),
                "RI": table(kids, "in"), "KO": couts, "CO": [] if own is None else couts, "RM": rm}

    def visit(n):
        for kid in nodes[n]["kids"]:
            visit(kid)
        if nodes[n]["kids"]:
            out.append(comp(nodes[n]["kids"], nodes[n]))

    for r in roots:
        visit(r)
    if with_wf:
        out.append(comp(list(roots), None))
    return out


def scope_of(nodes, roots):
    sc = []

    def visit(n):
        sc.extend(nodes[n]["ins"] + nodes[n]["outs"])
        for kid in nodes[n]["kids"]:
            visit(kid)

    for r in roots:
        visit(r)
    return sorted(sc)


def tops_of(nodes):
    return [n["id"] for n in nodes if len(n["path"]) == 1]


def hint_leq(a, b):
    """`a` is as or more specific than `b` (plain classes; subscripted generics only compare equal to themselves)"""
    try:
        return issubclass(a, b)
    except TypeError:
        return a == b


def ch_of(nodes, n, label):
    spec = SPECS[nodes[n]["spec"]]
    for j, (lab, _h) in enumerate(spec[0]):
        if lab == label:
            return nodes[n]["ins"][j]
    for j, (lab, _h) in enumerate(spec[1]):
        if lab == label:
            return nodes[n]["outs"][j]
    raise KeyError(label)


# ----------------------------------------------------------------------------- generation


def _prod_case(k, perm, states, instrict, upkind, idx):
    """one point of the connection product; own value state / delivery path / connect sugar cycle with idx"""
    src = "SrcU" if upkind == "U" else "SrcT"
    specs = [src, src, src, src, "C3T" if idx % 7 == 3 else "C3"]
    nodes, _chans, _links = layout(specs)
    cn = 4
    x, y, z = nodes[cn]["ins"]
    outs = [nodes[j]["outs"][0] for j in range(4)]
    own = ("nd", "data", "bad")[idx % 3]
    path = ("set", "assign", "setinputs", "setpos", "runkw", "runpos")[(idx // 3) % 6]
    how = ("connect", "assign", "runkw")[(idx // 18) % 3]
    zset = (idx // 54) % 5 != 4
    ops = []
    if not instrict:
        ops.append(["strict", x, 0])
    if upkind == "Tn":
        for j in range(k):
            ops.append(["strict", outs[j], 0])
    v = {"data": 9, "bad": 105}.get(own)
    if v is not None:
        if path == "set":
            ops.append(["set", x, v])
        elif path == "assign":
            ops.append(["assign", x, v])
        elif path == "setinputs":
            ops.append(["setinputs", cn, [["x", v]], []])
        elif path == "setpos":
            ops.append(["setinputs", cn, [], [v]])
    ops.append(["set", y, 101])
    if zset:
        ops.append(["set", z, 5])
    for j in range(k):
        if states[j] == "data":
            ops.append(["set", outs[j], j + 1])
        elif states[j] == "bad":
            ops.append(["set", outs[j], 102 + j])
    kw, pos = [], []
    for n_, j in enumerate(perm):
        last = n_ == len(perm) - 1
        if how == "assign" or (how == "runkw" and not last):
            ops.append(["assign", x, f"@{outs[j]}"])
        elif how == "runkw" and last and not (v is not None and path in ("runkw", "runpos")):
            kw.append(["x", f"@{outs[j]}"])
        else:
            ops.append(["connect", x, outs[j]])
    if v is not None and path == "runkw":
        kw.append(["x", v])
    if v is not None and path == "runpos":
        pos.append(v)
    ops.append(["run", cn, kw, pos])
    return {"fam": "prod", "nodes": specs, "ops": ops,
            "dims": {"k": k, "perm": list(perm), "states": list(states), "instrict": instrict, "up": upkind,
                     "own": own, "path": path, "how": how}}


def _prod_points():
    pts = []
    for k in range(5):
        for perm in itertools.permutations(range(k)):
            for states in itertools.product(("data", "nd", "bad"), repeat=k):
                for instrict in (True, False):
                    for upkind in ("U", "Tn", "Ts"):
                        pts.append((k, perm, states, instrict, upkind))
    return pts


PATHS = ["set", "assign", "setinputs", "setpos", "runkw", "runpos", "link", "copysoft", "copyhard",
         "M3", "MU", "MM", "MUassign", "MMfetch", "M3fetch"]


def _path_case(own, path, instrict, sendstrict, upstate, idx):
    """own value delivered over `path`, optionally one connected upstream, then the consumer runs"""
    v = {"nd": None, "data": 7, "bad": 104}[own]
    ops = []
    if path in ("link",):
        specs = ["SrcU", "C3", "C3"]
        nodes, _c, _l = layout(specs)
        sender, cn = 1, 2
        sx = nodes[sender]["ins"][0]
    elif path in ("copysoft", "copyhard"):
        specs = ["SrcU", "C3", "C3"]
        nodes, _c, _l = layout(specs)
        sender, cn = 1, 2
        sx = nodes[sender]["ins"][0]
    elif path in ("M3", "MU", "MUassign", "M3fetch"):
        specs = ["SrcU", "SrcU", "MU" if path.startswith("MU") else "M3"]
        nodes, _c, _l = layout(specs)
        sender, cn = 2, 3
        sx = nodes[sender]["ins"][0]
    elif path in ("MM", "MMfetch"):
        specs = ["SrcU", "SrcU", "MM"]
        nodes, _c, _l = layout(specs)
        sender, cn = 2, 4
        sx = nodes[sender]["ins"][0]
    else:
        specs = ["SrcU", "C3"]
        nodes, _c, _l = layout(specs)
        sender, cn = None, 1
        sx = None
    x, y, z = nodes[cn]["ins"]
    up = nodes[0]["outs"][0]
    if not instrict:
        ops.append(["strict", x, 0])
    if sender is not None and not sendstrict:
        ops.append(["strict", sx, 0])
        if path in ("MM", "MMfetch") and idx % 2 == 0:
            ops.append(["strict", nodes[3]["ins"][0], 0])
    ops.append(["set", y, 101])
    ops.append(["set", z, 5])
    if upstate is not None:
        if upstate == "data":
            ops.append(["set", up, 1])
        elif upstate == "bad":
            ops.append(["set", up, 102])
        ops.append(["connect", x, up])
    kw, pos = [], []
    if path == "link":
        ops.append(["link", sx, x])
        if v is not None:
            ops.append(["set", sx, v])
    elif path in ("copysoft", "copyhard"):
        if v is not None:
            ops.append(["set", sx, v])
        ops.append(["set", nodes[sender]["ins"][1], 103])
        ops.append(["copyio", cn, sender, path == "copyhard"])
    elif path in ("M3", "MU", "MM"):
        if v is not None:
            ops.append(["set", sx, v])
    elif path == "MUassign":
        if v is not None:
            ops.append(["setinputs", sender, [["x", v]], []])
    elif path in ("MMfetch", "M3fetch"):
        u1 = nodes[1]["outs"][0]
        if v is not None:
            ops.append(["set", u1, v])
        ops.append(["connect", sx, u1])
        ops.append(["fetchall", sender])
    elif v is not None:
        if path == "set":
            ops.append(["set", x, v])
        elif path == "assign":
            ops.append(["assign", x, v])
        elif path == "setinputs":
            ops.append(["setinputs", cn, [["x", v]], []])
        elif path == "setpos":
            ops.append(["setinputs", cn, [], [v]])
        elif path == "runkw":
            kw.append(["x", v])
        elif path == "runpos":
            pos.append(v)
    ops.append(["run", cn, kw, pos])
    if idx % 3 == 0:
        # a second attempt after repairing the own value: the gate must open / stay shut accordingly
        ops.append(["strict", x, 0] if idx % 2 else ["set", x, 3])
        ops.append(["run", cn, [], []])
    return {"fam": "path", "nodes": specs, "ops": ops,
            "dims": {"own": own, "path": path, "instrict": instrict, "sendstrict": sendstrict, "up": upstate}}


def _path_points():
    pts = []
    for own in ("nd", "data", "bad"):
        for path in PATHS:
            for instrict in (True, False):
                for sendstrict in (True, False):
                    for upstate in (None, "data", "nd", "bad"):
                        pts.append((own, path, instrict, sendstrict, upstate))
    return pts


RAND_SPECS = ["SrcU", "SrcT", "SrcS", "C3", "C3T", "MU", "C3", "MM"]


def _rand_case(rng, length, bad=False, wf=False, serial=False, general=False):
    """`serial`: pickle round trips at any point of the history — of the whole graph when the nodes live in a
    workflow (`wf`), of single top-level nodes otherwise; `general`: also runs of the macros themselves (MU, MM and
    the three-child MC), a cached consumer, and runs shipped by value to an executor and completed later"""
    specs = list(RAND_SPECS) + (["MC", "C3C"] if general else [])
    nodes, chans, _links = layout(specs)
    ins = [c["id"] for c in chans if c["panel"] == "in"]
    outs = [c["id"] for c in chans if c["panel"] == "out"]
    src_outs = [nodes[j]["outs"][0] for j in range(3)]
    cons_ins = [c for n in nodes if n["spec"] in ("C3", "C3T", "MU", "MM", "M3") for c in n["ins"]]
    donor = 7  # the second free-standing C3 (node ids: 0,1,2 sources, 3 C3, 4 C3T, 5 MU, 6 MU.c, 7 C3, 8 MM, ...)
    assert nodes[donor]["spec"] == "C3" and nodes[donor]["path"] == (6,)
    no_conn = set(nodes[donor]["ins"] + nodes[donor]["outs"])
    runnable = [n["id"] for n in nodes if n["spec"] in ("C3", "C3T") and n["id"] != donor]
    macros = [n["id"] for n in nodes if n["spec"] in ("MU", "MM", "MC") and len(n["path"]) == 1]
    cachedn = [n["id"] for n in nodes if n["spec"] == "C3C"]
    if general:
        cons_ins = cons_ins + [c for n in nodes if n["spec"] in ("MC", "C3C") and len(n["path"]) == 1 for c in n["ins"]]
    ops = []

    def val():
        r = rng.random()
        if r < 0.1:
            return "ND"
        if serial and r < 0.3:
            return rng.choice(ADV)
        return rng.choice(POOL)

    def fit(lab):
        """a value that suits the hint of input `lab` of the consumers most of the time"""
        if serial and rng.random() < 0.75:
            return {"x": rng.choice([1, 2, 3, 210, 214, 230]), "y": rng.choice([101, 102, 211]),
                    "z": rng.choice([5, 6, 200, 225]), "u": rng.choice([4, 5, 103, 214])}[lab]
        return val()

    def kwargs(n):
        labs = [lab for lab, _h in SPECS[nodes[n]["spec"]][0]]
        kw, pos = [], []
        npos = rng.choice([0, 0, 0, 1, 2])
        for lab in labs[:npos]:
            pos.append(fit(lab))
        for lab in labs[npos:]:
            if rng.random() < (0.7 if serial else 0.35):
                if rng.random() < 0.25:
                    kw.append([lab, f"@{rng.choice(src_outs)}"])
                else:
                    kw.append([lab, fit(lab)])
        rng.shuffle(kw)
        return kw, pos

    for _ in range(length):
        r = rng.random()
        if general and rng.random() < 0.22:
            q = rng.random()
            if q < 0.4:
                n = rng.choice(macros)
                kw, pos = kwargs(n)
                ops.append(["run", n, kw, pos])
            elif q < 0.6:
                n = rng.choice(cachedn)
                labs = "xyz"
                kw = [[lab, rng.choice({"x": [1, 2], "y": [101, 102], "z": [5, 6, "ND"]}[lab])] for lab in labs
                      if rng.random() < 0.6]
                ops.append(["run", n, kw, []])
            elif q < 0.8:
                n = rng.choice(runnable + cachedn)
                kw, pos = kwargs(n) if n in runnable else ([["z", rng.choice([5, 6])]], [])
                ops.append(["runx", n, kw, pos, rng.choice(["pickle", "cloud"])])
            else:
                outl = [o[1] for o in ops if o[0] == "runx"]
                ops.append(["complete", rng.choice(outl[-2:]) if outl and rng.random() < 0.85
                            else rng.choice(runnable + cachedn)])
            continue
        if serial and rng.random() < 0.09:
            backend = rng.choice(["pickle", "pickle", "cloud"])
            if wf:
                ops.append(["rt", backend if rng.random() < 0.8 else "file"])
            else:
                ops.append(["rtnode", rng.choice([0, 1, 2, 3, 4, 5, 7, 8]), backend])
            continue
        if bad and r < 0.3:
            q = rng.random()
            if q < 0.25:
                ops.append(["connect", rng.choice(ins), rng.choice(ins)])
            elif q < 0.45:
                ops.append(["link", rng.choice(ins), rng.choice(outs)])
            elif q < 0.6:
                c = rng.choice(ins)
                ops.append(["link", c, c])
            elif q < 0.8:
                ops.append(["disconnect", rng.choice(ins + outs), rng.choice(ins + outs)])
            else:
                ops.append(["assign", rng.choice(outs), f"@{rng.choice(outs)}"])
        elif r < 0.2:
            c = rng.choice(src_outs if rng.random() < 0.6 else ins + outs)
            ops.append([rng.choice(["set", "set", "assign"]), c, val()])
        elif r < 0.38:
            a = rng.choice([c for c in cons_ins if c not in no_conn])
            b = rng.choice(src_outs if rng.random() < (0.95 if serial else 0.85) else [o for o in outs if o not in no_conn])
            ops.append([rng.choice(["connect", "connect", "assign"]), a, b if rng.random() < 0.5 else b])
            if ops[-1][0] == "assign":
                ops[-1][2] = f"@{b}"
        elif r < 0.46:
            a = rng.choice([c for c in cons_ins if c not in no_conn])
            ops.append(["disconnect", a, rng.choice(src_outs)])
        elif r < 0.6:
            n = rng.choice(runnable)
            kw, pos = kwargs(n)
            ops.append(["run", n, kw, pos])
        elif r < 0.67:
            n = rng.choice(runnable + [5, 8])
            kw, pos = kwargs(n)
            ops.append(["setinputs", n, kw, pos])
        elif r < 0.72:
            ops.append(["fetch", rng.choice(cons_ins)])
        elif r < 0.76:
            ops.append(["fetchall", rng.choice(runnable + [5, 8])])
        elif r < 0.82:
            c = rng.choice(ins + outs if rng.random() < 0.3 else cons_ins + src_outs)
            ops.append(["strict", c, 0 if rng.random() < 0.7 else 1])
        elif r < 0.88:
            a = rng.choice(cons_ins)
            if rng.random() < 0.2:
                ops.append(["link", a, None])
            else:
                ops.append(["link", a, rng.choice(cons_ins)])
        elif r < 0.93:
            dst = rng.choice([3, 4, 6, 0])
            ops.append(["copyio", dst, donor, rng.random() < 0.5])
        elif r < 0.97:
            n = rng.choice(runnable)
            ops.append(["flag", n, int(rng.random() < 0.4), int(rng.random() < 0.4)])
        else:
            c = rng.choice(nodes[donor]["ins"])
            ops.append(["set", c, val()])
    if serial:
        # a round trip of the graph fails when a macro's child is wired across the macro's border or a macro input has
        # lost its receiver (the serialisation property's findings): keep most of these histories inside what pickles
        top_in = {c for n in nodes if len(n["path"]) == 1 for c in n["ins"]}
        macro_in = {c for n in nodes if n["kids"] for c in n["ins"]}
        if rng.random() < 0.85:
            ops = [o for o in ops
                   if not (o[0] in ("connect", "assign", "disconnect") and o[1] not in top_in and o[0] != "assign")
                   and not (o[0] == "assign" and isinstance(o[2], str) and o[2].startswith("@") and o[1] not in top_in)
                   and not (o[0] == "link" and o[1] in macro_in)]
        case = {"fam": "randx" if general else "randrt", "nodes": specs, "ops": ops}
        if wf:
            case["wf"] = True
        return case
    return {"fam": "bad" if bad else "rand", "nodes": specs, "ops": ops}


# the round-trip family: connection product x own value x position of the round trip x backend
RT_POS = ["first", "mid", "last", "between", "twice", "macro"]


def _rt_case(k, perm, states, own, pos, backend, zset, idx):
    """a consumer inside a workflow; the graph goes through pickle at `pos` of the history; every clause (priority,
    keeps own value, gate on missing / ill-typed data, refused assignment) is then exercised on the copy"""
    cons = "CF" if idx % 5 == 4 else "C3"
    macro = pos == "macro"
    specs = ["SrcU", "SrcU", "SrcU", cons] + (["MU", "MM"] if macro else [])
    nodes, _chans, _links = layout(specs)
    cn = 3
    x, y, z = nodes[cn]["ins"]
    outs = [nodes[j]["outs"][0] for j in range(3)]
    good = {"C3": (9, 101, 5), "CF": (204, 206, 5)}[cons]
    badv = {"C3": 105, "CF": 7}[cons]
    upv = {"C3": (1, 2, 3), "CF": (204, 212, 240)}[cons]
    upbad = {"C3": (102, 220, 241), "CF": (3, 221, 232)}[cons]
    rt = ["rt", backend]
    setup = [["set", y, good[1]]]
    if zset:
        setup.append(["set", z, good[2]])
    if own == "data":
        setup.append(["set", x, good[0]])
    elif own == "bad":
        setup += [["strict", x, 0], ["set", x, badv]]
    for j in range(k):
        if states[j] == "data":
            setup.append(["set", outs[j], upv[j]])
        elif states[j] == "bad":
            setup.append(["set", outs[j], upbad[j]])
    wire = [["connect", x, outs[j]] for j in perm]
    ops = []
    if pos == "first":
        ops = [rt] + setup + wire + [["run", cn, [], []]]
    elif pos == "mid":
        ops = setup + [rt] + wire + [["run", cn, [], []]]
    elif pos == "last":
        ops = setup + wire + [rt, ["run", cn, [], []]]
    elif pos == "between":
        ops = setup + wire + [["run", cn, [], []], rt, ["run", cn, [], []]]
        if not zset:
            ops += [["set", z, good[2]], ["run", cn, [], []]]
    elif pos == "twice":
        ops = setup + wire + [rt, ["rt", "cloud" if backend != "cloud" else "file"], ["run", cn, [], []]]
    else:
        # macro forwarding across the round trip: MU -> c, MM -> m -> c
        mu, mm = 4, 6
        mux = nodes[mu]["ins"]
        mmx = nodes[mm]["ins"]
        cx = nodes[5]["ins"]
        ops = setup + wire + [["set", mux[0], 4], ["set", mux[1], 102], ["set", mmx[2], 8], ["set", cx[2], 6], rt,
                              ["set", mux[0], 104], ["set", mux[0], 5], ["set", mmx[0], 103], ["set", mmx[0], 6],
                              ["connect", mux[2], outs[0]], ["fetchall", mu], ["run", 5, [], []], ["run", cn, [], []],
                              rt, ["run", 5, [], []]]
    if own == "bad" and idx % 2:
        ops.append(["strict", x, 1])
        ops.append(["run", cn, [], []])
    return {"fam": "rt", "wf": True, "nodes": specs, "ops": ops,
            "dims": {"k": k, "perm": list(perm), "states": list(states), "own": own, "pos": pos, "backend": backend,
                     "zset": zset}}


def _rt_points():
    pts = []
    for k in range(4):
        for perm in itertools.permutations(range(k)):
            for states in itertools.product(("data", "nd", "bad"), repeat=k):
                for own in ("nd", "data", "bad"):
                    for pos in RT_POS:
                        for backend in ("pickle", "cloud", "file"):
                            for zset in (True, False):
                                pts.append((k, perm, states, own, pos, backend, zset))
    return pts


# the adversarial family: every pool value x every input of two consumers x delivery path x strictness
ADV_PATHS = ["set", "assign", "setinputs", "setpos", "runkw", "runpos", "fetch", "MU", "link", "copyio", "upstrict"]


def _adv_case(v, cons, which, path, strict, serial, idx):
    """the value `v` is delivered to input `which` (0 = x, 1 = y, 2 = z) of the consumer over `path`; the other inputs
    hold good values; then the consumer runs (store, gate and call are all judged by the reference verdict)"""
    good = {"C3": (9, 101, 5), "CF": (204, 206, 5)}[cons]
    if path == "MU":
        specs = ["SrcU", "MU"]
        nodes, _c, _l = layout(specs)
        cn, sender = 2, 1
    elif path in ("link", "copyio"):
        specs = ["SrcU", "C3", cons]
        nodes, _c, _l = layout(specs)
        cn, sender = 2, 1
    else:
        specs = ["SrcU", cons]
        nodes, _c, _l = layout(specs)
        cn, sender = 1, None
    ins = nodes[cn]["ins"]
    tgt = ins[which]
    lab = "xyz"[which]
    up = nodes[0]["outs"][0]
    ops = []
    if not strict:
        ops.append(["strict", tgt, 0])
    for j, c in enumerate(ins):
        if j != which:
            ops.append(["set", c, good[j]])
    kw, pos = [], []
    if path == "set":
        ops.append(["set", tgt, v])
    elif path == "assign":
        ops.append(["assign", tgt, v])
    elif path == "setinputs":
        ops.append(["setinputs", cn, [[lab, v]], []])
    elif path == "setpos":
        ops.append(["setinputs", cn, [], [good[j] for j in range(which)] + [v]])
    elif path == "runkw":
        kw.append([lab, v])
    elif path == "runpos":
        pos = [good[j] for j in range(which)] + [v]
    elif path in ("fetch", "upstrict"):
        if path == "upstrict":
            # the same value arrives first as a refused direct assignment, then over the connection
            ops.append(["set", tgt, v])
        ops.append(["set", up, v])
        ops.append(["connect", tgt, up])
    elif path == "MU":
        ops.append(["set", nodes[sender]["ins"][which], v])
    elif path == "link":
        sx = nodes[sender]["ins"][2]
        ops.append(["link", sx, tgt])
        ops.append(["set", sx, v])
    elif path == "copyio":
        ops.append(["strict", nodes[sender]["ins"][which], 0])
        ops.append(["set", nodes[sender]["ins"][which], v])
        ops.append(["copyio", cn, sender, idx % 2 == 0])
    if serial == "rt":
        ops.append(["rt", "cloud" if idx % 3 == 0 else "pickle"])
    elif serial == "rtnode":
        ops.append(["rtnode", cn if path != "MU" else sender, "cloud" if idx % 3 == 0 else "pickle"])
    ops.append(["run", cn, kw, pos])
    if idx % 4 == 0:
        ops.append(["strict", tgt, 1 - int(strict)])
        ops.append(["run", cn, [], []])
    case = {"fam": "adv", "nodes": specs, "ops": ops,
            "dims": {"adv": v, "cons": cons, "which": which, "path": path, "strict": strict, "serial": serial}}
    if serial == "rt":
        case["wf"] = True
    return case


# runs of composites, of a cached node, and runs shipped to an executor
MRUN_KIND = ["MU", "MM", "M3", "MC"]
MRUN_IN = ["ok", "nd", "badforchild", "childnd", "childbad", "fetchok", "fetchnd", "fetchbad", "kwbad", "kwnd"]


def _mrun_case(kind, how, wfmode, idx):
    """a macro is run itself: its own gate (every macro input holds data its hint accepts) comes first, then every
    child passes its own gate; `how` says what is wrong, if anything"""
    specs = ["SrcU", kind, "C3"]
    nodes, _c, _l = layout(specs)
    m = 1
    mins = nodes[m]["ins"]
    leaf = [n for n in nodes if n["path"][0] == 1 and n["spec"] == "C3"][0]
    lx, ly, lz = leaf["ins"]
    up = nodes[0]["outs"][0]
    ops = [["set", mins[1], 101], ["set", mins[2], 5]]
    if kind == "MC":
        ops.append(["set", mins[3], 2])
    kw = []
    if how in ("ok", "childnd", "childbad"):
        ops.append(["set", mins[0], 1])
    elif how == "badforchild":
        ops.append(["set", mins[0], 103])  # refused by the strict child down the chain (or by M3 itself)
        ops.append(["set", mins[0], 222])
    elif how in ("fetchok", "fetchnd", "fetchbad"):
        v = {"fetchok": 4, "fetchbad": 220}.get(how)
        if v is not None:
            ops.append(["set", up, v])
        if idx % 2:
            ops.append(["set", mins[0], 1])
        ops.append(["connect", mins[0], up])
    elif how == "kwbad":
        kw = [["x", 241]]
    elif how == "kwnd":
        ops.append(["set", mins[0], 1])
        kw = [["z", "ND"]]
    if how == "childnd":
        ops.append(["set", lz, "ND"])
    if how == "childbad":
        ops += [["strict", ly, 0], ["set", ly, 7]] + ([["strict", ly, 1]] if idx % 2 else [])
    if wfmode == "rt":
        ops.append(["rt", "cloud" if idx % 3 == 0 else "pickle"])
    elif wfmode == "rtnode":
        ops.append(["rtnode", m, "cloud" if idx % 3 == 0 else "pickle"])
    ops.append(["run", m, kw, []])
    ops.append(["run", m, [], []])
    # repair and run again: a composite that failed stays failed until reset by hand
    ops += [["flag", n["id"], 0, 0] for n in nodes if n["path"][0] == 1 and n["kids"]]
    ops += [["set", lz, 5], ["set", mins[0], 3], ["run", m, [["z", 6]], []]]
    case = {"fam": "mrun", "nodes": specs, "ops": ops, "dims": {"kind": kind, "how": how, "wfmode": wfmode}}
    if wfmode == "rt":
        case["wf"] = True
    return case


def _mrun_points():
    return [(k, h, w) for k in MRUN_KIND for h in MRUN_IN for w in (None, "rt", "rtnode")]


def _cache_case(seq, idx):
    """a consumer with the cache ON: the cache may answer for a run — but only for one the gate would admit"""
    specs = ["SrcU", "C3C"]
    nodes, _c, _l = layout(specs)
    n = 1
    x, y, z = nodes[n]["ins"]
    up = nodes[0]["outs"][0]
    ops = [["set", x, 1], ["set", y, 101], ["set", z, 5]]
    for j, step in enumerate(seq):
        if step == "run":
            ops.append(["run", n, [], []])
        elif step == "same":
            ops.append(["run", n, [["z", 5]], []])
        elif step == "other":
            ops.append(["run", n, [["z", 6 + j]], []])
        elif step == "nd":
            ops.append(["set", z, "ND"])
        elif step == "back":
            ops.append(["set", z, 5])
        elif step == "soft":
            ops += [["strict", x, 0], ["set", x, 102]]
        elif step == "hard":
            ops.append(["strict", x, 1])
        elif step == "badx":
            ops += [["strict", x, 0], ["set", x, 102], ["strict", x, 1]]
        elif step == "goodx":
            ops.append(["set", x, 1])
        elif step == "fail":
            ops.append(["flag", n, 0, 1])
        elif step == "lock":
            ops.append(["flag", n, 1, 0])
        elif step == "reset":
            ops.append(["flag", n, 0, 0])
        elif step == "up":
            ops += [["set", up, 1], ["connect", x, up]]
        elif step == "upnd":
            ops += [["set", up, "ND"]]
        elif step == "rtnode":
            ops.append(["rtnode", n, "pickle"])
        elif step == "runx":
            ops.append(["runx", n, [], [], "cloud" if idx % 2 else "pickle"])
        elif step == "complete":
            ops.append(["complete", n])
    return {"fam": "cache", "nodes": specs, "ops": ops, "dims": {"seq": list(seq)}}


CACHE_STEPS = ["run", "same", "other", "nd", "back", "badx", "goodx", "fail", "lock", "reset", "up", "upnd", "rtnode",
               "runx", "complete"]


def _cache_points():
    pts = []
    for a in CACHE_STEPS:
        for b in CACHE_STEPS:
            pts.append(("run", a, "run", b, "run", "reset", "back", "goodx", "run"))
            pts.append((a, "run", b, "same"))
    # a value cached while the hint was not strict; the hint is switched on; the cache must not answer
    for a in CACHE_STEPS:
        pts.append(("soft", "run", "hard", "run", a, "run"))
        pts.append(("soft", "run", a, "hard", "same"))
    return pts


EXEC_MID = ["none", "setlocked", "setother", "runagain", "connect", "fetch", "strictoff", "stricton", "rtnode",
            "upchange", "runx2", "flagreset"]


def _exec_case(cons, v, which, mid, mode, idx):
    """the run is shipped by value (callable, arguments and result through pickle); the gate is the submitter's, the
    arguments are those fetched at submission whatever happens while the job is out"""
    specs = ["SrcU", cons]
    nodes, _c, _l = layout(specs)
    n = 1
    ins = nodes[n]["ins"]
    up = nodes[0]["outs"][0]
    good = {"C3": (9, 101, 5), "CF": (204, 206, 5), "C3C": (9, 101, 5)}[cons]
    ops = [["set", c, good[j]] for j, c in enumerate(ins) if j != which]
    ops += [["set", up, v], ["connect", ins[which], up]]
    ops.append(["runx", n, [], [], mode])
    if mid == "setlocked":
        ops.append(["set", ins[which], good[which]])
    elif mid == "setother":
        ops.append(["set", ins[(which + 1) % 3], "ND"])
    elif mid == "runagain":
        ops.append(["run", n, [], []])
    elif mid == "connect":
        ops += [["disconnect", ins[which], up], ["connect", ins[2], up]]
    elif mid == "fetch":
        ops += [["set", up, good[which]], ["fetch", ins[which]]]
    elif mid == "strictoff":
        ops.append(["strict", ins[which], 0])
    elif mid == "stricton":
        ops += [["strict", ins[which], 0], ["strict", ins[which], 1]]
    elif mid == "rtnode":
        ops.append(["rtnode", n, "pickle"])
    elif mid == "upchange":
        ops.append(["set", up, "ND"])
    elif mid == "runx2":
        ops.append(["runx", n, [], [], mode])
    elif mid == "flagreset":
        ops.append(["flag", n, 0, 0])
    ops.append(["complete", n])
    ops.append(["run", n, [], []])
    ops.append(["complete", n])
    return {"fam": "exec", "nodes": specs, "ops": ops,
            "dims": {"cons": cons, "adv": v, "which": which, "mid": mid, "mode": mode}}


def _exec_points():
    pts = []
    for cons in ("C3", "CF", "C3C"):
        vals = (1, 102, "ND") if cons == "C3C" else (1, 101, 204, 206, "ND") + ADV
        for v in vals:
            for which in (0, 1, 2):
                for mid in EXEC_MID:
                    for mode in ("pickle", "cloud"):
                        pts.append((cons, v, which, mid, mode))
    return pts


# an upstream NODE that is busy (job out on an executor, or flagged) while the downstream fetches / runs
UP_BUSY = ["idle", "out-pickle", "out-cloud", "flagrun", "flagfail"]
UP_SINK = ["fetch", "run", "runx"]


def _uprun_case(ran, busy, perm, sink, idx):
    """two upstream consumers (their outputs feed x of the sink, connected in order `perm`), each of which has run
    before or not and is idle / re-submitted to an executor and not finished / flagged running or failed when the
    sink fetches or runs: which upstream the sink takes depends on connection order and data presence alone"""
    specs = ["C3", "C3", "C3C" if idx % 4 == 3 else "C3"]
    nodes, _c, _l = layout(specs)
    sn = 2
    x, y, z = nodes[sn]["ins"]
    ops = [["set", y, 101], ["set", z, 5]]
    if idx % 3 == 0:
        ops.append(["set", x, 9])
    for u in (0, 1):
        if ran[u]:
            ops.append(["run", u, [["x", u + 1], ["y", 101], ["z", 5]], []])
        else:
            ops.append(["setinputs", u, [["x", u + 1], ["y", 101], ["z", 5]], []])
    for u in perm:
        ops.append(["connect", x, nodes[u]["outs"][0]])
    for u in (0, 1):
        b = busy[u]
        if b.startswith("out"):
            ops.append(["runx", u, [["x", u + 3]], [], b[4:]])
        elif b == "flagrun":
            ops.append(["flag", u, 1, 0])
        elif b == "flagfail":
            ops.append(["flag", u, 0, 1])
    if sink == "fetch":
        ops += [["fetch", x], ["run", sn, [], []]]
    elif sink == "run":
        ops.append(["run", sn, [], []])
    else:
        ops += [["runx", sn, [], [], "pickle"], ["complete", 0], ["complete", sn]]
    ops += [["complete", 0], ["complete", 1], ["flag", 0, 0, 0], ["flag", 1, 0, 0], ["run", sn, [], []]]
    return {"fam": "uprun", "nodes": specs, "ops": ops,
            "dims": {"ran": list(ran), "busy": list(busy), "perm": list(perm), "sink": sink}}


def _uprun_points():
    pts = []
    for ran in itertools.product((True, False), repeat=2):
        for busy in itertools.product(UP_BUSY, repeat=2):
            for perm in ((0, 1), (1, 0)):
                for sink in UP_SINK:
                    pts.append((ran, busy, perm, sink))
    return pts


# mutable values delivered while valid and changed in place afterwards
MUT_PATH = ["set", "assign", "setinputs", "runkw", "runpos", "fetch", "MG", "MGT", "link", "copyio"]
MUT_WHEN = ["before", "after", "back", "grow", "twice", "softhint"]


def _mut_case(cons, which, path, when, idx):
    """the value (a list for x: list[int], a dict for y: dict[str, int]) reaches the input over `path` while it
    satisfies the hint; then its other holder changes it in place; then the node runs WITHOUT a new assignment: the
    gate has to judge what the input holds now"""
    good, bad = ((250, 251), (252, 253))[which]
    other = (252, 250)[which]  # a good value for the other hinted input
    lab = "xy"[which]
    if path in ("MG", "MGT"):
        specs = ["SrcU", path]
        nodes, _c, _l = layout(specs)
        top, cn = 1, 2
    elif path in ("link", "copyio"):
        specs = ["SrcU", "C3", cons]
        nodes, _c, _l = layout(specs)
        top, cn = 2, 2
    else:
        specs = ["SrcU", cons]
        nodes, _c, _l = layout(specs)
        top, cn = 1, 1
    tins = nodes[top]["ins"]
    cins = nodes[cn]["ins"]
    tgt = cins[which]
    up = nodes[0]["outs"][0]
    ops = [["set", tins[1 - which], other], ["set", tins[2], 5]]
    kw, pos = [], []
    if path in ("set", "MG", "MGT"):
        ops.append(["set", tins[which], good])
    elif path == "assign":
        ops.append(["assign", tgt, good])
    elif path == "setinputs":
        ops.append(["setinputs", cn, [[lab, good]], []])
    elif path == "runkw":
        kw = [[lab, good]]
    elif path == "runpos":
        pos = [good] if which == 0 else [254, good]
    elif path == "fetch":
        ops += [["set", up, good], ["connect", tgt, up], ["fetch", tgt], ["disconnect", tgt, up]]
    elif path == "link":
        sx = nodes[1]["ins"][2]
        ops += [["link", sx, tgt], ["set", sx, good]]
    elif path == "copyio":
        ops += [["strict", nodes[1]["ins"][which], 0], ["set", nodes[1]["ins"][which], good],
                ["set", nodes[1]["ins"][1 - which], "ND"], ["copyio", cn, 1, False]]
    first = ["run", top, kw, pos]
    again = ["run", top, [], []]
    if when == "before":
        ops += ([first] if (kw or pos) else []) + [["mutate", good, bad], again]
    elif when == "after":
        ops += [first, ["mutate", good, bad], again, ["run", cn, [], []]]
    elif when == "back":
        ops += [first, ["mutate", good, bad], again, ["mutate", bad, good], again]
    elif when == "grow":
        if which == 0:
            ops += [first, ["mutate", 250, 254], again, ["mutate", 254, 250], again]
        else:
            ops += [first, ["mutate", good, bad], ["set", tins[which], good], again]
    elif when == "twice":
        ops += [first, ["mutate", good, bad], again, again, ["flag", top, 0, 0], ["flag", cn, 0, 0], again]
    elif when == "softhint":
        ops += [["strict", tgt, 0], first, ["mutate", good, bad], again, ["strict", tgt, 1], again]
    if idx % 2:
        ops += [["fetch", tgt], again]
    # keep the mutate preconditions: an object is changed only from the content it has, into a content no other
    # pool object of the case has
    have, fixed = set(), []
    for o in ops:
        if o[0] == "mutate":
            if o[1] not in have or o[2] in have:
                continue
            have.discard(o[1])
            have.add(o[2])
        else:
            def ints(x):
                if isinstance(x, int) and not isinstance(x, bool):
                    yield x
                elif isinstance(x, (list, tuple)):
                    for y_ in x:
                        yield from ints(y_)
            for v in ints(o[2:] if o[0] in ("set", "assign") else o[2:]):
                if v >= 200:
                    have.add(v)
        fixed.append(o)
    return {"fam": "mut", "nodes": specs, "ops": fixed,
            "dims": {"cons": cons, "which": which, "path": path, "when": when}}


def _mut_points():
    return [(c, w, p, t) for c in ("CG", "CGC") for w in (0, 1) for p in MUT_PATH for t in MUT_WHEN]


# a consumer replaced by a fresh instance of its class (by instance, through the node, by class assignment), in a
# workflow and inside a macro: the replacement inherits the ORDER of the connections
REPL_HOW = ["inst", "with", "class"]
REPL_WHEN = ["before", "between", "twice", "afterrt"]


def _repl_case(k, perm, states, how, when, idx):
    cons = ("C3", "C3T", "C3C", "CF")[idx % 4]
    specs = ["SrcU", "SrcU", "SrcU", cons]
    nodes, _c, _l = layout(specs)
    cn = 3
    x, y, z = nodes[cn]["ins"]
    outs = [nodes[j]["outs"][0] for j in range(3)]
    good = {"CF": (204, 206, 5)}.get(cons, (9, 101, 5))
    upv = {"CF": (204, 212, 240)}.get(cons, (1, 2, 3))
    upbad = {"CF": (3, 221, 232)}.get(cons, (102, 220, 241))
    ops = [["set", y, good[1]], ["set", z, good[2]]]
    if idx % 3 == 0:
        ops.append(["set", x, good[0]])
    for j in range(k):
        if states[j] == "data":
            ops.append(["set", outs[j], upv[j]])
        elif states[j] == "bad":
            ops.append(["set", outs[j], upbad[j]])
    ops += [["connect", x, outs[j]] for j in perm]
    rp = ["replace", cn, how]
    run = ["run", cn, [], []]
    if idx % 5 == 1:
        ops.append(["flag", cn, 0, 1])  # the old node had failed: the fresh one has not
    if idx % 5 == 2:
        ops += [["strict", y, 0], ["set", y, 7 if cons != "CF" else 5]]  # a value the fresh, strict input will not take
    if when == "before":
        ops += [rp, run]
    elif when == "between":
        ops += [run, rp, run, ["set", outs[perm[-1]] if perm else z, upv[0] if perm else good[2]], run]
    elif when == "twice":
        ops += [rp, ["replace", cn, REPL_HOW[(REPL_HOW.index(how) + 1) % 3]], run]
    else:
        ops += [["rt", "pickle" if idx % 2 else "cloud"], rp, run, ["rt", "file"], run]
    return {"fam": "repl", "wf": True, "nodes": specs, "ops": ops,
            "dims": {"k": k, "perm": list(perm), "states": list(states), "how": how, "when": when}}


def _repl_macro_case(kind, how, when, sx, su, idx):
    """the child `c` of a macro is replaced (MC: c.x holds two connections made inside the macro; MU / M3: c is fed by
    value links only); then the macro and the child are run"""
    specs = ["SrcU", kind]
    nodes, _c, _l = layout(specs)
    m = 1
    mins = nodes[m]["ins"]
    leaf = [n for n in nodes if n["path"][0] == 1 and n["spec"] == "C3"][0]["id"]
    ops = [["set", mins[1], 101], ["set", mins[2], 5]]
    if sx:
        ops.append(["set", mins[0], 1])
    if kind == "MC" and su:
        ops.append(["set", mins[3], 2])
    rp = ["replace", leaf, how]
    run = ["run", m, [], []]
    if when == "before":
        ops += [rp, run, ["run", leaf, [], []]]
    elif when == "between":
        ops += [run, rp, run, ["run", m, [["x", 3]], []], ["run", leaf, [], []]]
    elif when == "twice":
        ops += [run, rp, ["replace", leaf, REPL_HOW[(REPL_HOW.index(how) + 1) % 3]], ["run", m, [["z", 6]], []]]
    else:
        ops += [run, ["rtnode", m, "pickle"], rp, run]
    return {"fam": "repl", "nodes": specs, "ops": ops, "dims": {"kind": kind, "how": how, "when": when}}


def _repl_points():
    pts = []
    for k in (2, 3):
        for perm in itertools.permutations(range(k)):
            for states in itertools.product(("data", "nd", "bad"), repeat=k):
                for how in REPL_HOW:
                    for when in REPL_WHEN:
                        pts.append(("wf", k, perm, states, how, when))
    for kind in ("MC", "MU", "M3"):
        for how in REPL_HOW:
            for when in REPL_WHEN:
                for sx in (True, False):
                    for su in ((True, False) if kind == "MC" else (True,)):
                        pts.append(("macro", kind, how, when, sx, su))
    return pts


# composite consumers with a dynamic body in the refused-run clause
FOR_WRONG = ["none", "ynd", "znd", "ybadsoft", "ybadhard", "ybadhard_kw", "upnd", "upbad", "upgood", "xnd", "xbad",
             "xbadsoft", "failed", "running", "kwznd", "kwybad", "xlonger"]


def _for_case(kind, wf, cache, wrong, first, idx):
    """`first`: the for-node already holds results from an earlier run; then something is wrong (or not) and it is
    run again; then it is repaired and run once more"""
    ops = [["set", "x", [1, 2]], ["set", "y", 101], ["set", "z", 5]]
    if first:
        ops.append(["run", []])
    kw = []
    w = wrong
    if w == "ynd":
        ops.append(["set", "y", "ND"])
    elif w == "znd":
        ops.append(["set", "z", "ND"])
    elif w == "ybadsoft":
        ops += [["strict", "y", 0], ["set", "y", 7]]
    elif w == "ybadhard":
        ops += [["strict", "y", 0], ["set", "y", 7], ["strict", "y", 1]]
    elif w == "ybadhard_kw":
        ops += [["strict", "y", 0], ["set", "y", 7], ["strict", "y", 1]]
        kw = [["z", 6]]
    elif w == "upnd":
        ops += [["set", "y", "ND"], ["connect", "y"]]
    elif w == "upbad":
        ops += [["upset", 3], ["connect", "y"]]
    elif w == "upgood":
        ops += [["upset", 102], ["connect", "y"]]
    elif w == "xnd":
        ops.append(["set", "x", "ND"])
    elif w == "xbad":
        ops += [["strict", "x", 0], ["set", "x", [101, 102]], ["strict", "x", 1]]
    elif w == "xbadsoft":
        ops += [["strict", "x", 0], ["set", "x", [101, 102]]]
    elif w == "failed":
        ops.append(["flag", 0, 1])
    elif w == "running":
        ops.append(["flag", 1, 0])
    elif w == "kwznd":
        kw = [["z", "ND"]]
    elif w == "kwybad":
        kw = [["y", 4]]
    elif w == "xlonger":
        ops.append(["set", "x", [1, 2, 3]])
    ops.append(["run", kw])
    ops.append(["run", []])
    ops += [["flag", 0, 0], ["disconnect", "y"], ["strict", "x", 1], ["strict", "y", 1]]
    ops += [["set", "x", [3] if idx % 2 else [1, 2]], ["set", "y", 102], ["set", "z", 5], ["run", []]]
    return {"fam": "for", "kind": kind, "wf": wf, "cache": cache, "ops": ops,
            "dims": {"wrong": wrong, "first": first}}


def _for_points():
    return [(kind, wf, cache, w, first) for kind in ("df", "list") for wf in (False, True) for cache in (False, True)
            for w in FOR_WRONG for first in (True, False)]


# several partners in ONE connect call
CM_HOW = ["all", "head-then-rest", "rest-then-last", "pairs", "with-dup", "with-refused", "from-output"]


def _cm_case(k, perm, states, how, idx):
    """x of the consumer is connected to k upstream outputs, some or all of them in ONE `connect(a, b, …)` call; the
    partner listed last in a call is the most recently connected one"""
    cons = "CF" if idx % 5 == 4 else "C3"
    specs = ["SrcU", "SrcU", "SrcU", "SrcU", "SrcS", cons]
    nodes, _c, _l = layout(specs)
    cn = 5
    x, y, z = nodes[cn]["ins"]
    outs = [nodes[j]["outs"][0] for j in range(4)]
    sout = nodes[4]["outs"][0]
    good = {"C3": (9, 101, 5), "CF": (204, 206, 5)}[cons]
    upv = {"C3": (1, 2, 3, 4), "CF": (204, 212, 240, 231)}[cons]
    upbad = {"C3": (102, 220, 241, 103), "CF": (3, 221, 232, 1)}[cons]
    ops = [["set", y, good[1]], ["set", z, good[2]]]
    if idx % 3 == 0:
        ops.append(["set", x, good[0]])
    for j in range(k):
        if states[j] == "data":
            ops.append(["set", outs[j], upv[j]])
        elif states[j] == "bad":
            ops.append(["set", outs[j], upbad[j]])
    seq = [outs[j] for j in perm]
    if how == "all":
        ops.append(["connectm", x, seq])
    elif how == "head-then-rest":
        ops += [["connect", x, seq[0]], ["connectm", x, seq[1:]]]
    elif how == "rest-then-last":
        ops += [["connectm", x, seq[:-1]], ["connect", x, seq[-1]]]
    elif how == "pairs":
        ops += [["connectm", x, seq[i:i + 2]] for i in range(0, len(seq), 2)]
    elif how == "with-dup":
        ops += [["connect", x, seq[-1]], ["connectm", x, seq + [seq[0]]]]
    elif how == "with-refused":
        # the str-hinted output is refused by a strict int / float input: the partners before it stay connected
        ops.append(["connectm", x, seq[:1] + [sout] + seq[1:]])
        ops.append(["connectm", x, seq[1:]])
    else:
        ops += [["connect", x, seq[0]], ["connectm", seq[-1], [x, nodes[cn]["ins"][2]]], ["connectm", x, seq[1:-1]]]
    ops.append(["run", cn, [], []])
    if idx % 2:
        ops += [["disconnect", x, seq[-1]], ["run", cn, [], []], ["connectm", x, [seq[-1], seq[0]]], ["run", cn, [], []]]
    return {"fam": "cm", "nodes": specs, "ops": ops,
            "dims": {"k": k, "perm": list(perm), "states": list(states), "how": how}}


def _cm_points():
    pts = []
    for k in (2, 3, 4):
        for perm in itertools.permutations(range(k)):
            for states in itertools.product(("data", "nd", "bad"), repeat=k):
                for how in CM_HOW:
                    pts.append((k, perm, states, how))
    return pts


# values that compare equal to a well-typed value but are of another type, delivered AFTER (or before) their twin
EQ_PAIRS = [(0, 260, 261), (1, 1, 203), (1, 1, 262), (1, 2, 263)]  # (input, valid value, equal ill-typed value)
EQ_PATH = ["set", "assign", "setinputs", "runkw", "fetch", "MT", "link"]


def _eqv_case(pair, p1, p2, same, order, idx):
    """two consumers with a subscripted / Literal hint; a valid value reaches one of them over `p1`, then a value
    that is == to it but ill-typed is delivered over `p2` to the same or the other node (or the other way round): what
    was validated earlier in the session — anywhere — must not matter"""
    which, good, bad = EQ_PAIRS[pair]
    specs = ["SrcU", "SrcU", "CT", "CT", "MT", "C3"]
    nodes, _c, _l = layout(specs)
    lab = "xy"[which]
    other = {0: 1, 1: 260}[which]  # a valid value for the other hinted input
    ops = []
    for n in (2, 3, 5 + 0):
        if nodes[n]["spec"] == "CT":
            ops += [["set", nodes[n]["ins"][1 - which], other], ["set", nodes[n]["ins"][2], 5]]
    mt = 4
    ops += [["set", nodes[mt]["ins"][1 - which], other], ["set", nodes[mt]["ins"][2], 5]]
    first, second = (good, bad) if order == "good-first" else (bad, good)

    def deliver(path, n, v, up):
        tgt = nodes[n]["ins"][which]
        if path == "set":
            return [["set", tgt, v], ["run", n, [], []]]
        if path == "assign":
            return [["assign", tgt, v], ["run", n, [], []]]
        if path == "setinputs":
            return [["setinputs", n, [[lab, v]], []], ["run", n, [], []]]
        if path == "runkw":
            return [["run", n, [[lab, v]], []]]
        if path == "fetch":
            return [["set", up, v], ["connect", tgt, up], ["run", n, [], []], ["disconnect", tgt, up]]
        if path == "MT":
            return [["set", nodes[mt]["ins"][which], v], ["run", mt, [], []]]
        sx = nodes[5]["ins"][2]
        return [["link", sx, tgt], ["set", sx, v], ["link", sx, None], ["run", n, [], []]]

    a, b = (2, 2) if same else (2, 3)
    ops += deliver(p1, a, first, nodes[0]["outs"][0])
    ops += deliver(p2, b, second, nodes[1]["outs"][0])
    if idx % 2:
        ops += deliver(p1, b, first, nodes[0]["outs"][0])
    return {"fam": "eqv", "nodes": specs, "ops": ops,
            "dims": {"pair": pair, "p1": p1, "p2": p2, "same": same, "order": order}}


def _eqv_points():
    return [(pr, p1, p2, same, order) for pr in range(len(EQ_PAIRS)) for p1 in EQ_PATH for p2 in EQ_PATH
            for same in (True, False) for order in ("good-first", "bad-first")]


# composites shipped by value with child inputs connected to outputs OUTSIDE them (oracle only)
def _cx_case(kind, which, perm, states, mid, mode, idx):
    specs = ["SrcU", "SrcU", kind]
    nodes, _c, _l = layout(specs)
    m, kid = 2, 3
    mins = nodes[m]["ins"]
    tgt = nodes[kid]["ins"][which]
    outs = [nodes[j]["outs"][0] for j in range(2)]
    vals = {0: (1, 2), 1: (102, 103), 2: (7, 8)}[which]
    ops = [["set", mins[0], 9], ["set", mins[1], 101], ["set", mins[2], 5]]
    for j in perm:
        if states[j] == "data":
            ops.append(["set", outs[j], vals[j]])
    ops += [["connect", tgt, outs[j]] for j in perm]
    ops.append(["runx", m, [], [], mode])
    if mid == "upchange":
        ops += [["set", outs[j], vals[1 - j]] for j in perm]
    elif mid == "upclear":
        ops += [["set", outs[j], "ND"] for j in perm]
    ops += [["complete", m], ["run", m, [], []]]
    return {"fam": "cx", "nodes": specs, "ops": ops,
            "dims": {"kind": kind, "which": which, "perm": list(perm), "states": list(states), "mid": mid, "mode": mode}}


def _cx_points():
    pts = []
    for kind in ("MU", "M3"):
        for which in (0, 1, 2):
            for perm in ((0,), (0, 1), (1, 0)):
                for states in itertools.product(("data", "nd"), repeat=2):
                    for mid in ("none", "upchange", "upclear"):
                        for mode in ("pickle", "cloud"):
                            pts.append((kind, which, perm, states, mid, mode))
    return pts


def _adv_points():
    pts = []
    for v in ADV:
        for cons in ("C3", "CF"):
            for which in (0, 1, 2):
                for path in ADV_PATHS:
                    if path == "MU" and cons != "C3":
                        continue
                    for strict in (True, False):
                        for serial in (None, "rt", "rtnode"):
                            pts.append((v, cons, which, path, strict, serial))
    return pts


def gen_cases(rng, tier):
    prod = _prod_points()
    path = _path_points()
    rtp = _rt_points()
    advp = _adv_points()
    mrp, cap, exp_ = _mrun_points(), _cache_points(), _exec_points()
    upp, mup = _uprun_points(), _mut_points()
    rpp = _repl_points()
    fop = _for_points()
    cmp_, eqp = _cm_points(), _eqv_points()
    cxp = _cx_points()
    if tier == "quick":
        ridx = sorted(rng.sample(range(len(rtp)), 280))
        aidx = sorted(rng.sample(range(len(advp)), 330))
        n_rrt = 110
        midx = range(len(mrp))
        cidx = sorted(set(rng.sample(range(len(cap)), 80)) | set(range(len(cap) - 30, len(cap), 3)))
        eidx = sorted(rng.sample(range(len(exp_)), 160))
        n_rx = 50
        uidx = sorted(rng.sample(range(len(upp)), 150))
        muidx = range(len(mup))
        rpidx = sorted(set(rng.sample(range(len(rpp)), 100)) | {i for i, pt in enumerate(rpp) if pt[0] == "macro" and i % 2})
        foidx = sorted(rng.sample(range(len(fop)), 84))
        cmidx = sorted(rng.sample(range(len(cmp_)), 140))
        eqidx = sorted(rng.sample(range(len(eqp)), 140))
        cxidx = sorted(rng.sample(range(len(cxp)), 90))
        small = [i for i, pt in enumerate(prod) if pt[0] <= 2]
        big = [i for i, pt in enumerate(prod) if pt[0] > 2]
        pidx = small + sorted(rng.sample(big, 900))
        qidx = sorted(rng.sample(range(len(path)), 260))
        n_rand, n_bad = 260, 60
    else:
        pidx = range(len(prod))
        qidx = range(len(path))
        n_rand, n_bad = 3000, 400
        ridx = range(len(rtp))
        aidx = range(len(advp))
        n_rrt = 1500
        midx, cidx, eidx = range(len(mrp)), range(len(cap)), range(len(exp_))
        n_rx = 2500
        uidx, muidx = range(len(upp)), range(len(mup))
        rpidx = range(len(rpp))
        foidx = range(len(fop))
        cmidx = sorted(rng.sample(range(len(cmp_)), 4000))
        eqidx = range(len(eqp))
        cxidx = range(len(cxp))
    off = rng.randrange(10_000)
    for i in pidx:
        yield _prod_case(*prod[i], idx=i + off)
    for i in qidx:
        yield _path_case(*path[i], idx=i + off)
    for _ in range(n_rand):
        yield _rand_case(rng, rng.randint(6, 28 if tier == "quick" else 45))
    for _ in range(n_bad):
        yield _rand_case(rng, rng.randint(4, 16), bad=True)
    for i in ridx:
        yield _rt_case(*rtp[i], idx=i + off)
    for i in aidx:
        yield _adv_case(*advp[i], idx=i + off)
    for j in range(n_rrt):
        yield _rand_case(rng, rng.randint(6, 28 if tier == "quick" else 40), wf=j % 3 != 2, serial=True)
    for i in midx:
        yield _mrun_case(*mrp[i], idx=i + off)
    for i in cidx:
        yield _cache_case(cap[i], idx=i + off)
    for i in eidx:
        yield _exec_case(*exp_[i], idx=i + off)
    for j in range(n_rx):
        yield _rand_case(rng, rng.randint(8, 30 if tier == "quick" else 42), wf=j % 4 == 0, serial=True, general=True)
    for i in uidx:
        yield _uprun_case(*upp[i], idx=i + off)
    for i in muidx:
        yield _mut_case(*mup[i], idx=i + off)
    for i in foidx:
        yield _for_case(*fop[i], idx=i + off)
    for i in cmidx:
        yield _cm_case(*cmp_[i], idx=i + off)
    for i in eqidx:
        yield _eqv_case(*eqp[i], idx=i + off)
    for i in cxidx:
        yield _cx_case(*cxp[i], idx=i + off)
    for i in rpidx:
        pt = rpp[i]
        yield (_repl_case if pt[0] == "wf" else _repl_macro_case)(*pt[1:], idx=i + off)


def corpus():
    # newest connection first; a later connection without data does not shadow an older one with data
    yield {"fam": "corpus", "nodes": ["SrcU", "SrcU", "SrcU", "C3"],
           "ops": [["set", 1, 1], ["set", 3, 2], ["connect", 6, 1], ["connect", 6, 3], ["connect", 6, 5],
                   ["set", 7, 101], ["set", 8, 5], ["run", 3, [], []],
                   ["disconnect", 6, 3], ["run", 3, [], []], ["connect", 6, 3], ["run", 3, [], []]]}
    # hint-violating upstream value: the fetch itself refuses; nothing called, not failed, outputs untouched
    yield {"fam": "corpus", "nodes": ["SrcU", "C3"],
           "ops": [["set", 1, 102], ["connect", 2, 1], ["set", 3, 101], ["set", 4, 5], ["run", 1, [], []],
                   ["strict", 2, 0], ["run", 1, [], []]]}
    # macro → child → grandchild chain: the innermost strict hint refuses for the whole chain
    yield {"fam": "corpus", "nodes": ["MM"],
           "ops": [["set", 0, 104], ["set", 0, 4], ["strict", 6, 0], ["set", 0, 104], ["strict", 12, 0], ["set", 0, 104],
                   ["run", 2, [["y", 101], ["z", 1]], []]]}
    # receiver cycle: RecursionError, nothing stored
    yield {"fam": "corpus", "nodes": ["C3", "C3"],
           "ops": [["link", 2, 8], ["link", 8, 2], ["set", 2, 1], ["link", 8, None], ["set", 2, 1]]}
    # locked input, failed node, result violating an output hint
    yield {"fam": "corpus", "nodes": ["SrcU", "C3T"],
           "ops": [["set", 1, 1], ["connect", 2, 1], ["set", 3, 101], ["set", 4, 102], ["flag", 1, 1, 0],
                   ["run", 1, [], []], ["run", 1, [["z", 2]], []], ["flag", 1, 0, 1], ["run", 1, [], []],
                   ["flag", 1, 0, 0], ["run", 1, [], []], ["run", 1, [], []]]}
    # through pickle: a never-set input stays missing (gate shut, ReadinessError), an input whose only upstream holds
    # no data keeps its own value, both on the copy (`no data` is the marker, by identity, before and after)
    yield {"fam": "corpus", "wf": True, "nodes": ["SrcU", "C3", "C3"],
           "ops": [["set", 3, 101], ["set", 4, 5], ["connect", 2, 1], ["set", 9, 101], ["set", 10, 5], ["set", 8, 9],
                   ["connect", 8, 1], ["rt", "pickle"], ["run", 1, [], []], ["run", 2, [], []], ["rt", "cloud"],
                   ["fetch", 2], ["run", 1, [], []], ["set", 1, 3], ["run", 1, [], []]]}
    # through pickle with two upstreams holding data: the most recently connected one must still win (KF-C03-1 =
    # KF-C07-1: the pinned tree restores the connections in stored order and `connect` prepends)
    yield {"fam": "corpus", "wf": True, "nodes": ["SrcU", "SrcU", "C3"],
           "ops": [["set", 1, 1], ["set", 3, 2], ["connect", 4, 1], ["connect", 4, 3], ["set", 5, 101], ["set", 6, 5],
                   ["rt", "pickle"], ["run", 2, [], []]]}
    # look-alikes of a quantity are judged as what they are, real quantities by their magnitude: store, fetch, call
    yield {"fam": "corpus", "nodes": ["SrcU", "C3", "CF"],
           "ops": [["set", 2, 220], ["set", 2, 230], ["set", 3, 222], ["set", 3, 101], ["set", 4, 227],
                   ["run", 1, [], []], ["set", 8, 221], ["set", 8, 230], ["set", 8, 231], ["set", 9, 223], ["set", 9, 213],
                   ["set", 1, 221], ["connect", 8, 1], ["run", 2, [["z", 225]], []], ["strict", 8, 0],
                   ["run", 2, [["z", 225]], []], ["rtnode", 2, "pickle"], ["run", 2, [], []]]}
    # a free-standing macro through pickle: the re-forged links push the macro's values into the child
    yield {"fam": "corpus", "nodes": ["MU", "MM"],
           "ops": [["set", 0, 4], ["set", 6, 7], ["set", 7, 101], ["set", 2, 5], ["rtnode", 0, "pickle"],
                   ["run", 1, [], []], ["set", 12, 3], ["set", 24, 9], ["rtnode", 2, "cloud"], ["link", 12, None],
                   ["rtnode", 2, "pickle"]]}
    # a macro run itself: its own gate first (u holds no data: refused, not one child function runs), then admitted
    # (c.x takes b.o, connected last); a value the child's strict hint rejects is refused on its way in; a child
    # emptied behind the macro's back is refused by its own gate (FailedChildError, nothing called)
    yield {"fam": "corpus", "nodes": ["MC", "MM"],
           "ops": [["set", 1, 101], ["set", 2, 5], ["set", 0, 1], ["run", 0, [], []], ["run", 0, [["u", 2]], []],
                   ["run", 0, [["u", 105]], []], ["flag", 0, 0, 0], ["run", 0, [["u", 3]], []],
                   ["run", 4, [["x", 1], ["y", 101], ["z", 3]], []], ["set", 17, 104], ["set", 31, "ND"],
                   ["run", 4, [], []], ["run", 4, [["z", 4]], []]]}
    # the cache answers only for a run the gate would admit; a job out on an executor keeps the arguments it was
    # admitted with, its inputs are locked meanwhile, and it completes on a pickled copy
    yield {"fam": "corpus", "nodes": ["SrcU", "C3C"],
           "ops": [["run", 1, [["x", 1], ["y", 101], ["z", 5]], []], ["run", 1, [], []], ["run", 1, [["z", "ND"]], []],
                   ["run", 1, [["z", 5]], []], ["flag", 1, 0, 1], ["run", 1, [], []], ["flag", 1, 0, 0],
                   ["runx", 1, [["z", 9]], [], "pickle"], ["set", 3, 6], ["run", 1, [], []], ["set", 0, 7], ["complete", 1],
                   ["run", 1, [], []], ["runx", 1, [["x", 104]], [], "cloud"], ["complete", 1]]}
    # a composite whose child is still out on an executor: only that child is run again, its refusal surfaces as it is
    yield {"fam": "corpus", "wf": True, "nodes": ["SrcU", "MC"],
           "ops": [["set", 3, 101], ["set", 4, 5], ["set", 2, 1], ["set", 5, 2], ["run", 1, [], []],
                   ["runx", 4, [], [], "cloud"], ["run", 1, [], []], ["complete", 4], ["flag", 1, 0, 0],
                   ["run", 1, [], []], ["rt", "file"],
                   ["run", 1, [["u", 3]], []]]}
    # `running` reset by hand while a job is out, then a second submission: two jobs, completed oldest first, each on
    # the arguments it was admitted with
    yield {"fam": "corpus", "nodes": ["SrcU", "C3"],
           "ops": [["runx", 1, [["x", 214], ["y", 101], ["z", 5]], [], "cloud"], ["flag", 1, 0, 0],
                   ["runx", 1, [["x", 4]], [], "pickle"], ["complete", 1], ["complete", 1], ["complete", 1]]}
    # copy_io with hard failure reverts
    yield {"fam": "corpus", "nodes": ["C3", "C3"],
           "ops": [["strict", 6, 0], ["set", 6, 104], ["set", 7, 101], ["set", 8, 1], ["set", 1, 102],
                   ["copyio", 0, 1, False], ["set", 1, 103], ["set", 2, 2], ["copyio", 0, 1, True]]}


# ----------------------------------------------------------------------------- implementation side


def _canon(v):
    """canonical form of a channel value / argument; `no data` is recognised the way the library defines it — by
    identity with the public marker NOT_DATA — and nothing here calls a method the value could override"""
    from pyiron_workflow.channels import NOT_DATA

    from . import nodes_c03 as N

    if v is NOT_DATA:
        return "ND"
    t = type(v)
    if t is type(NOT_DATA):
        return "ND2"  # an instance of the marker's class that is not the marker
    if t is int:
        return str(v)
    if t is str and v.startswith("s") and v[1:].isdigit():
        return v[1:]
    k = N.key_of(v)
    if k is not None:
        return str(k)
    return f"?{N.tag(v)}"


def _classify(e):
    from pyiron_workflow.channels import ChannelConnectionError
    from pyiron_workflow.io import ValueCopyError
    from pyiron_workflow.mixin.run import ReadinessError

    from pyiron_workflow.nodes.composite import FailedChildError

    if isinstance(e, ReadinessError):
        return "Readiness"
    if isinstance(e, FailedChildError):
        return "FailedChild"
    if isinstance(e, ValueCopyError):
        return "ValueCopy"
    if isinstance(e, ChannelConnectionError):
        return "Conn"
    if isinstance(e, RecursionError):
        return "Recursion"
    if isinstance(e, RuntimeError):
        return "Runtime"
    if isinstance(e, TypeError):
        return "Type"
    if isinstance(e, ValueError):
        return "Value"
    return f"Other({type(e).__name__})"


def _line(res, st):
    vals = " ".join(f"{c}={v}" for c, v in enumerate(st["vals"]))
    conns = " ".join(f"{c}=[{','.join(map(str, l))}]" for c, l in enumerate(st["conns"]))
    flags = " ".join(f"{n}={r}{f}" for n, (r, f) in enumerate(st["flags"]))
    calls = ";".join(f"{n}({','.join(a)})" for n, a in st["calls"])
    return f"{res} | V {vals} | C {conns} | F {flags} | K {calls}"


_VARIANT = None


def _variant():
    """which `__getstate__` / `__setstate__` the library under test has (the five switches of the model's Cfg), probed
    once per worker on tiny objects: does a restored input keep the order of its connections, is a re-forged input /
    output value link pushed through the receiver's setter, is a connection across a macro's border stored, must every
    macro input have a receiver.  This only selects the model variant to compare with; the oracle does not know it."""
    global _VARIANT
    if _VARIANT is not None:
        return _VARIANT
    import pickle

    from pyiron_workflow import Workflow

    from . import nodes_c03 as N

    rev, push, pusho, own, allin = 1, 0, 0, 1, 0
    try:
        wf = Workflow("probe", autoload=None)
        a, b, c = N.SrcU(label="a"), N.SrcU(label="b"), N.C3(label="c")
        for n in (a, b, c):
            wf.add_child(n)
        c.inputs.z.connect(a.outputs.o)
        c.inputs.z.connect(b.outputs.o)
        w2 = pickle.loads(pickle.dumps(wf))
        rev = int([p.owner.label for p in w2.children["c"].inputs.z.connections] == ["b", "a"])
    except Exception:  # noqa: BLE001
        pass
    try:
        m = N.MU(label="m")
        m.inputs.z.value = 5
        m.children["c"].inputs.z.value = 7
        m2 = pickle.loads(pickle.dumps(m))
        push = int(_canon(m2.children["c"].inputs.z.value) == "5")
    except Exception:  # noqa: BLE001
        pass
    try:
        m = N.MU(label="m")
        m.children["c"].outputs.oz.value = 7
        m.outputs.oz.value = 5
        m2 = pickle.loads(pickle.dumps(m))
        pusho = int(_canon(m2.outputs.oz.value) == "7")
    except Exception:  # noqa: BLE001
        pass
    try:
        m, a = N.MU(label="m"), N.SrcU(label="a")
        m.children["c"].inputs.z.connect(a.outputs.o)
        try:
            pickle.loads(pickle.dumps(m))
            own = 1
        except KeyError:
            own = 0
    except Exception:  # noqa: BLE001
        pass
    try:
        m = N.MU(label="m")
        m.inputs.z.value_receiver = None
        try:
            pickle.loads(pickle.dumps(m))
            allin = 0
        except AttributeError:
            allin = 1
    except Exception:  # noqa: BLE001
        pass
    _VARIANT = (rev, push, pusho, own, allin)
    return _VARIANT


def run_impl(case):
    if case.get("fam") == "for":
        return _run_for(case)
    import pickle

    from . import nodes_c03 as N

    N.reset()
    variant = _variant()
    nodes, chans, links, wires = layout(case["nodes"], full=True)
    tops = [getattr(N, spec)(label=f"n{i}") for i, spec in enumerate(case["nodes"])]
    from .execsim import CtlExecutor, Scheduler, _run_job

    sched = Scheduler([])
    wf = None
    if case.get("wf"):
        from pyiron_workflow import Workflow

        wf = Workflow("w", autoload=None)
        for t in tops:
            wf.add_child(t)
    world = {}

    def resolve():
        nobj = []
        for n in nodes:
            o = tops[n["path"][0]]
            for lab in n["path"][1:]:
                o = o.children[lab]
            nobj.append(o)
        cobj = []
        for c in chans:
            o = nobj[c["node"]]
            cobj.append((o.inputs if c["panel"] == "in" else o.outputs)[c["label"]])
        world["nobj"], world["cobj"] = nobj, cobj
        world["index"] = {id(ch): i for i, ch in enumerate(cobj)}
        world["bylabel"] = {o.full_label: n["id"] for n, o in zip(nodes, nobj)}

    resolve()
    nobj, cobj, index = world["nobj"], world["cobj"], world["index"]
    for n, o in zip(nodes, nobj):
        spec = SPECS[n["spec"]]
        assert o.label == n["label"], f"layout drift (label of {n})"
        assert o.inputs.labels == [lab for lab, _h in spec[0]], f"layout drift (inputs of {n})"
        assert o.outputs.labels == [lab for lab, _h in spec[1]], f"layout drift (outputs of {n})"
    # the value links the layout predicts are the ones the library made
    seen_links = sorted((i, index.get(id(ch.value_receiver), -1)) for i, ch in enumerate(cobj)
                        if ch.value_receiver is not None)
    assert seen_links == sorted(links), f"value links drift: {seen_links} vs {links}"
    for c, ch in zip(chans, cobj):
        assert ch.type_hint == c["hint"], f"hint drift on {c}"
    # ... and so are the connections made inside macros, in the predicted order, and the cache switches
    want_conns = [[] for _ in chans]
    for a, b in wires:
        want_conns[a].insert(0, b)
        want_conns[b].insert(0, a)
    seen_conns = [[index.get(id(p), -1) for p in ch.connections] for ch in cobj]
    assert seen_conns == want_conns, f"initial connections drift: {seen_conns} vs {want_conns}"
    for n, o in zip(nodes, nobj):
        assert bool(o.use_cache) == (n["spec"] in CACHED), f"use_cache drift on {n}"
    calls = []
    pool = {}

    def pyval(k):
        from pyiron_workflow.channels import NOT_DATA

        if k == "ND":
            return NOT_DATA
        if k < 100:
            return k
        if k < 200:
            return f"s{k}"
        if k not in pool:
            pool[k] = N.make(k)
        return pool[k]

    def snap():
        cobj, nobj, index = world["cobj"], world["nobj"], world["index"]
        return {
            "vals": [_canon(ch.value) for ch in cobj],
            "conns": [[index.get(id(p), -1) for p in ch.connections] for ch in cobj],
            "flags": [(int(bool(n.running)), int(bool(n.failed))) for n in nobj],
            "strict": [int(bool(ch.strict_hints)) for ch in cobj],
            "recv": [None if ch.value_receiver is None else index.get(id(ch.value_receiver), -1) for ch in cobj],
            "calls": list(calls),
        }

    def arg(a):
        if isinstance(a, str) and a.startswith("@"):
            return world["cobj"][int(a[1:])]
        return pyval(a)

    def dumps(obj, backend):
        if backend == "cloud":
            import cloudpickle

            return cloudpickle.dumps(obj)
        return pickle.dumps(obj)

    states = [{"op": None, "res": "init", **snap()}]
    for op in case["ops"]:
        nobj, cobj = world["nobj"], world["cobj"]
        n0 = len(N.CALLS)
        who = -1
        res = "ok"
        try:
            kind = op[0]
            if kind == "set":
                cobj[op[1]].value = pyval(op[2])
            elif kind == "assign":
                c = chans[op[1]]
                o = nobj[c["node"]]
                setattr(o.inputs if c["panel"] == "in" else o.outputs, c["label"], arg(op[2]))
            elif kind == "setinputs":
                nobj[op[1]].set_input_values(*[arg(a) for a in op[3]], **{k: arg(a) for k, a in op[2]})
            elif kind == "fetch":
                cobj[op[1]].fetch()
            elif kind == "fetchall":
                nobj[op[1]].inputs.fetch()
            elif kind == "link":
                cobj[op[1]].value_receiver = None if op[2] is None else cobj[op[2]]
            elif kind == "connect":
                cobj[op[1]].connect(cobj[op[2]])
            elif kind == "connectm":
                cobj[op[1]].connect(*[cobj[b] for b in op[2]])
            elif kind == "disconnect":
                cobj[op[1]].disconnect(cobj[op[2]])
            elif kind == "copyio":
                nobj[op[1]].copy_io(nobj[op[2]], connections_fail_hard=False, values_fail_hard=bool(op[3]))
            elif kind == "run":
                who = op[1]
                nobj[op[1]].run(*[arg(a) for a in op[3]], **{k: arg(a) for k, a in op[2]})
            elif kind == "runx":
                # run on an executor that ships the job by value (callable, arguments and result through pickle);
                # the job stays outstanding until `complete`
                who = op[1]
                node = nobj[op[1]]
                node.executor = CtlExecutor(sched, {"pickle": "ctl-pickle", "cloud": "ctl-cloudpickle"}[op[4]])
                try:
                    out = node.run(*[arg(a) for a in op[3]], **{k: arg(a) for k, a in op[2]})
                finally:
                    node.executor = None
                if any(j[0] is node for j in sched.jobs):
                    res = "submitted"
                del out
            elif kind == "complete":
                who = op[1]
                node = nobj[op[1]]
                job = next((j for j in sched.jobs if j[0] is node), None)
                if job is not None:
                    sched.jobs.remove(job)
                    _run_job(job)  # the done-callback (`_finish_run`) runs here; what it raises is swallowed by the future
                    res = "completed"
                    if nodes[op[1]]["kids"]:
                        resolve()  # a composite merged back from its copy holds the returned children
            elif kind == "replace":
                # node op[1] (a function node that is the child of a workflow or of a macro) is replaced by a fresh
                # instance of its class: by instance through the parent / through the node, or by class assignment
                n_ = nodes[op[1]]
                old = nobj[op[1]]
                parent = old.parent
                assert parent is not None and not n_["kids"], "replace needs a function node with a parent"
                cls = getattr(N, n_["spec"])
                try:
                    if op[2] == "inst":
                        parent.replace_child(old, cls(label="fresh"))
                    elif op[2] == "with":
                        old.replace_with(cls(label="fresh"))
                    else:
                        setattr(parent, old.label, cls)
                except AssertionError:
                    raise
                except Exception:  # noqa: BLE001
                    res = "Replace"
                else:
                    gone = {id(ch) for ch in list(old.inputs) + list(old.outputs)}
                    for ch in cobj:
                        if ch.value_receiver is not None and id(ch.value_receiver) in gone:
                            ch.value_receiver = None  # a foreign receiver that pointed at the replaced node
                    sched.jobs[:] = [j for j in sched.jobs if j[0] is not old]
                    if wf is not None:
                        tops = [wf.children[f"n{i}"] for i in range(len(tops))]
                    resolve()
            elif kind == "mutate":
                # the harness is the other holder of the pool object: it changes it in place; no channel is told
                assert (op[1], op[2]) in MUTATIONS and op[1] in pool and op[2] not in pool, f"mutate precondition {op}"
                obj = pool.pop(op[1])
                N.mutate(obj, op[2])
                pool[op[2]] = obj
            elif kind == "strict":
                cobj[op[1]].strict_hints = bool(op[2])
            elif kind == "flag":
                nobj[op[1]].running = bool(op[2])
                nobj[op[1]].failed = bool(op[3])
            elif kind == "rt":
                # the whole graph through pickle; the history goes on with the copy
                assert wf is not None, "rt needs a workflow case"
                try:
                    if op[1] == "file":
                        # the public way: save() to a file, load() into a fresh Workflow of the same label
                        from pyiron_workflow import Workflow

                        wf.save()
                        try:
                            new = Workflow("w", autoload=None)
                            new.load()
                        finally:
                            wf.delete_storage()
                    else:
                        new = pickle.loads(dumps(wf, op[1]))
                except AssertionError:
                    raise
                except Exception:  # noqa: BLE001
                    res = "Serial"
                else:
                    wf = new
                    tops = [wf.children[f"n{i}"] for i in range(len(tops))]
                    sched.jobs.clear()  # the futures did not travel
                    resolve()
            elif kind == "rtnode":
                # one free-standing top-level node through pickle; the copy takes the place of the original, which
                # is retired (cut off from its partners, no foreign receiver keeps pointing at it)
                assert wf is None and len(nodes[op[1]]["path"]) == 1, "rtnode needs a free-standing top-level node"
                t = nodes[op[1]]["path"][0]
                try:
                    new = pickle.loads(dumps(tops[t], op[2]))
                except AssertionError:
                    raise
                except Exception:  # noqa: BLE001
                    res = "Serial"
                else:
                    old = [cobj[c] for c in scope_of(nodes, [op[1]])]
                    oldids = {id(ch) for ch in old}
                    for ch in old:
                        ch.disconnect_all()
                    for ch in cobj:
                        if ch.value_receiver is not None and id(ch.value_receiver) in oldids:
                            ch.value_receiver = None
                    gone = {id(nobj[m["id"]]) for m in nodes if m["path"][0] == t}
                    sched.jobs[:] = [j for j in sched.jobs if id(j[0]) not in gone]
                    tops[t] = new
                    resolve()
            else:
                raise AssertionError(f"unknown op {op}")
        except AssertionError:
            raise
        except Exception as e:  # noqa: BLE001
            res = _classify(e)
        new = N.CALLS[n0:]
        for a, lab in zip(new, N.WHO[n0:]):
            calls.append((world["bylabel"].get(lab, -1), [_canon(v) for v in a]))
        assert len(N.WHO) == len(N.CALLS), "call log and callee log out of step"
        if kind == "run" and new:
            res = "invoked" if res == "ok" else f"invoked+{res}"
        if kind == "runx" and new:
            res = f"invoked-early+{res}"  # the function must not run before the job completes
        states.append({"op": op, "res": res, "ncalls": len(new), **snap()})
    obs = [_line(s["res"], s) for s in states[1:]]
    stats = {}
    for s in states[1:]:
        stats[f"op:{s['op'][0]}"] = stats.get(f"op:{s['op'][0]}", 0) + 1
        stats[f"res:{s['op'][0]}:{s['res']}"] = stats.get(f"res:{s['op'][0]}:{s['res']}", 0) + 1
    stats[f"fam:{case.get('fam')}"] = 1
    d = case.get("dims") or {}
    if "k" in d:
        stats[f"conns:{d['k']}"] = 1
    if "path" in d:
        stats[f"path:{d['path']}"] = 1
    if "adv" in d:
        stats[f"adv:{d['adv']}"] = 1
    return {"obs": obs, "states": states, "stats": stats, "variant": list(variant)}


# ----------------------------------------------------------------------------- for-nodes (oracle only)


def _fcanon(v):
    """canonical form of a for-node input / output value: pool values as usual, lists element-wise, a dataframe by its
    records"""
    if type(v) is list:
        return "L[" + ",".join(_fcanon(e) for e in v) + "]"
    c = _canon(v)
    if not c.startswith("?"):
        return c
    if type(v).__name__ == "DataFrame":
        return "DF[" + ";".join(",".join(f"{k}={_fcanon(x)}" for k, x in rec.items()) for rec in v.to_dict("records")) + "]"
    return c


def _run_for(case):
    """a For node over the consumer C3 (x looped, y and z broadcast), optionally inside a workflow, with an upstream
    source that can be connected to a broadcast input; observed after every op: inputs, outputs, flags, the calls of
    the body functions and the identity of the children (the sub-graph)"""
    from pyiron_workflow import Workflow, for_node
    from pyiron_workflow.channels import NOT_DATA

    from . import nodes_c03 as N

    N.reset()
    f = for_node(N.C3, iter_on=("x",), output_as_dataframe=case["kind"] == "df", use_cache=bool(case.get("cache")),
                 label="f")
    up = N.SrcU(label="u")
    if case.get("wf"):
        wf = Workflow("w", autoload=None)
        wf.add_child(up)
        wf.add_child(f)
    seen = {}

    def pv(k):
        if k == "ND":
            return NOT_DATA
        if isinstance(k, list):
            return [pv(e) for e in k]
        return k if k < 100 else f"s{k}"

    def snap():
        kids = []
        for ch in f.children.values():
            kids.append(seen.setdefault(id(ch), len(seen)))
        return {"ins": {c.label: _fcanon(c.value) for c in f.inputs},
                "strict": {c.label: int(bool(c.strict_hints)) for c in f.inputs},
                "conn": {c.label: int(c.connected) for c in f.inputs},
                "up": _fcanon(up.outputs.o.value),
                "outs": {c.label: _fcanon(c.value) for c in f.outputs},
                "flags": (int(bool(f.running)), int(bool(f.failed))), "kids": kids}

    keep = []  # children stay referenced so that ids are not re-used
    states = [{"op": None, "res": "init", "calls": [], **snap()}]
    for op in case["ops"]:
        n0 = len(N.CALLS)
        res = "ok"
        keep.extend(f.children.values())
        try:
            k = op[0]
            if k == "set":
                f.inputs[op[1]].value = pv(op[2])
            elif k == "strict":
                f.inputs[op[1]].strict_hints = bool(op[2])
            elif k == "upset":
                up.outputs.o.value = pv(op[1])
            elif k == "connect":
                f.inputs[op[1]].connect(up.outputs.o)
            elif k == "disconnect":
                f.inputs[op[1]].disconnect(up.outputs.o)
            elif k == "flag":
                f.running, f.failed = bool(op[1]), bool(op[2])
            elif k == "run":
                f.run(**{lab: pv(v) for lab, v in op[1]})
            else:
                raise AssertionError(f"unknown op {op}")
        except AssertionError:
            raise
        except Exception as e:  # noqa: BLE001
            res = _classify(e)
        calls = [[_canon(v) for v in a] for a in N.CALLS[n0:]]
        states.append({"op": op, "res": res, "calls": calls, **snap()})
    obs = [f"{s_['res']} | {json.dumps({k_: s_[k_] for k_ in ('ins', 'outs', 'flags', 'calls')}, sort_keys=True)}"
           for s_ in states[1:]]
    stats = {"fam:for": 1}
    for s_ in states[1:]:
        key = f"for:{s_['op'][0]}:{s_['res']}"
        stats[key] = stats.get(key, 0) + 1
    return {"obs": obs, "states": states, "stats": stats, "variant": list(_variant())}


def _for_admit(lab, v):
    """reference verdict for the for-node's own inputs (x: list[int], y: str, z: anything) on canonical values"""
    if lab == "z":
        return True
    if lab == "y":
        return v.isdigit() and 100 < int(v) < 200
    return v.startswith("L[") and all(e.isdigit() and int(e) < 100 for e in v[2:-1].split(",") if e)


def _oracle_for(case, r):
    """the refused-run clause and the gate for a composite consumer with a dynamic body: a run that is refused — by a
    keyword, by the fetch, or at the gate — calls no body function, leaves every output, `failed` AND the sub-graph
    (the children objects) untouched, and a refusal at the gate is a ReadinessError; an admitted run calls the body
    only on elements / broadcast values the body's strict hints accept"""
    fails = []
    states = r["states"]
    for k in range(1, len(states)):
        pre, post = states[k - 1], states[k]
        op, res = post["op"], post["res"]
        if op[0] != "run":
            continue
        ev = dict(pre["ins"])
        err = None
        for lab, v in op[1]:
            cv = "ND" if v == "ND" else ("L[" + ",".join(str(e) if e < 100 else str(e) for e in v) + "]"
                                         if isinstance(v, list) else str(v))
            if pre["flags"][0]:
                err = "Runtime"
                break
            if pre["strict"][lab] and cv != "ND" and not _for_admit(lab, cv):
                err = "Type"
                break
            ev[lab] = cv
        if err is None:
            for lab in ("x", "y", "z"):
                if pre["conn"][lab] and pre["up"] != "ND":
                    if pre["flags"][0]:
                        err = "Runtime"
                        break
                    if pre["strict"][lab] and not _for_admit(lab, pre["up"]):
                        err = "Type"
                        break
                    ev[lab] = pre["up"]
        gate = None
        if err is None:
            ready = all(ev[lab] != "ND" and (not pre["strict"][lab] or _for_admit(lab, ev[lab])) for lab in "xyz")
            if pre["flags"][0] or pre["flags"][1] or not ready:
                gate = "Readiness"
        sig = {"kind": case["kind"], "held_results": any(v != "ND" for v in pre["outs"].values())}
        if err is not None or gate is not None:
            if res in ("ok", "invoked") or post["calls"]:
                fails.append(_f("gate-open", k, op, f"for-node ran ({res}, calls {post['calls']}) although "
                                                    f"{gate or err} refuses", **sig))
            else:
                if gate and res != "Readiness":
                    fails.append(_f("refusal-kind", k, op, f"expected a ReadinessError, got {res}", **sig))
                if post["outs"] != pre["outs"]:
                    fails.append(_f("refused-not-clean", k, op, f"outputs changed during a refused run: "
                                                                f"{pre['outs']} -> {post['outs']}", **sig))
                if post["flags"][1] != pre["flags"][1]:
                    fails.append(_f("refused-not-clean", k, op, "`failed` changed during a refused run", **sig))
                if post["kids"] != pre["kids"]:
                    fails.append(_f("refused-not-clean", k, op, "the sub-graph was rebuilt during a refused run", **sig))
        else:
            xs = [e for e in ev["x"][2:-1].split(",") if e]
            body_ok = all(e.isdigit() and int(e) < 100 for e in xs) and _for_admit("y", ev["y"])
            want = sorted([e, ev["y"], ev["z"]] for e in xs)
            got = sorted(post["calls"])
            for a in post["calls"]:
                if not (a[0].isdigit() and int(a[0]) < 100 and _for_admit("y", a[1]) and a[2] != "ND"):
                    fails.append(_f("called-on-bad", k, op, f"body function called with {a}", **sig))
            if body_ok:
                hit = case.get("cache") and res == "ok" and not post["calls"] and post["outs"] == pre["outs"]
                if not hit and (res not in ("ok", "invoked") or got != want):
                    fails.append(_f("gate-shut", k, op, f"every input ready, yet the run ended with {res} and calls "
                                                        f"{got} (expected {want})", **sig))
            elif res in ("ok", "invoked") and len(got) == len(want):
                fails.append(_f("gate-open", k, op, f"a body ran on an element its hint rejects: {got}", **sig))
        if fails:
            break
    return fails


def _oracle_cx(case, r):
    """a composite shipped BY VALUE to an executor: its copy cannot reach outputs outside it, so what its children
    would fetch from there is decided when the job is submitted — by the same rule as any fetch: the most recently
    connected outside partner that holds data, else the child keeps its own value; the child's function then runs (on
    the copy) with exactly that, or is not called at all if its gate refuses"""
    nodes, chans, _links = layout(case["nodes"])
    states = r["states"]
    fails, stamps, exp = [], {}, {}
    for k in range(1, len(states)):
        pre, post = states[k - 1], states[k]
        op, res = post["op"], post["res"]
        pv = [_val(x) for x in pre["vals"]]
        new_calls = [(c[0], list(c[1])) for c in post["calls"][len(pre["calls"]):]]
        if op[0] == "runx" and nodes[op[1]]["kids"]:
            kid = nodes[nodes[op[1]]["kids"][0]]
            want = []
            for i in kid["ins"]:
                w = _winner(stamps, pv, i, pre["conns"][i])
                want.append(pv[w] if w is not None else pv[i])
            ok = all(v != "ND" and (not pre["strict"][i] or admit(chans[i]["hint"], v)) for i, v in zip(kid["ins"], want))
            if res == "submitted":
                exp[op[1]] = (kid["id"], [str(v) for v in want], ok)
            if new_calls:
                fails.append(_f("gate-open", k, op, f"a function ran at submission: {new_calls}"))
        if op[0] == "complete" and op[1] in exp:
            kid_id, want, ok = exp.pop(op[1])
            if ok and new_calls != [(kid_id, want)]:
                fails.append(_f("fetch-priority", k, op, f"the child's function received {new_calls}; the most recent "
                                                       f"outside partners holding data at submission give {want}",
                                shipped=True))
            if not ok and new_calls:
                fails.append(_f("gate-open", k, op, f"child called with {new_calls} although its gate refuses {want}",
                                shipped=True))
        for c in range(len(chans)):
            before, after = set(pre["conns"][c]), set(post["conns"][c])
            for o in after - before:
                stamps.setdefault((c, o), (k, 0))
            for o in before - after:
                if op[0] != "complete":
                    stamps.pop((c, o), None)
        if fails:
            break
    return fails


def nontrivial(case, r):
    if case.get("fam") == "cx":
        return any(s_["res"] == "completed" for s_ in r.get("states", [])[1:])
    if case.get("fam") == "for":
        return any(s_["res"] in ("ok", "Readiness") for s_ in r.get("states", [])[1:] if s_["op"][0] == "run")
    for s in r.get("states", [])[1:]:
        k = s["op"][0]
        if k in ("run", "runx", "complete") and s["res"] in ("invoked", "Readiness", "invoked+Type", "submitted",
                                                           "completed", "FailedChild", "invoked+FailedChild"):
            return True
        if k in ("set", "assign", "setinputs", "fetch", "link", "copyio", "rt", "rtnode") and s["res"] == "ok":
            return True
    return False


# ----------------------------------------------------------------------------- model side


def _marg(a):
    return a if isinstance(a, str) else str(a)


def _kwlines(nodes, n, kw, pos):
    labs = [lab for lab, _h in SPECS[nodes[n]["spec"]][0]]
    items = [(ch_of(nodes, n, lab), a) for lab, a in kw]
    items += [(ch_of(nodes, n, lab), a) for lab, a in zip(labs, pos)]
    return " ".join(f"{c}={_marg(a)}" for c, a in items)


def _csv(xs):
    return ",".join(map(str, xs))


def _rtline(nodes, chans, roots, with_wf):
    groups = []
    for c in comps_of(nodes, chans, roots, with_wf):
        groups.append(f"| I={_csv(c['I'])} RO={_csv(f'{a}:{b}' for a, b in c['RO'])} MI={_csv(c['MI'])} "
                      f"RI={_csv(f'{a}:{b}' for a, b in c['RI'])} KO={_csv(c['KO'])} CO={_csv(c['CO'])} "
                      f"RM={_csv(f'{a}:{b}' for a, b in c['RM'])}")
    return f"rt {' '.join(map(str, scope_of(nodes, roots)))} {' '.join(groups)}".rstrip()


def corr_view(case, impl):
    """for-node cases and composites shipped to an executor are judged by the oracle alone (the dynamic body / the
    merge-back of the returned copy are not in the Lean model)"""
    return None if case.get("fam") in ("for", "cx") else impl["obs"]


def model_input(case, impl=None):
    if case.get("fam") in ("for", "cx"):
        return []
    nodes, chans, links, wires = layout(case["nodes"], full=True)
    lines = []
    lines.append("cfg " + " ".join(map(str, (impl or {}).get("variant") or (1, 0, 0, 1, 0))))
    for c in chans:
        lines.append(f"chan {c['id']} {'di' if c['panel'] == 'in' else 'do'} {c['node']} "
                     f"{0 if c['hint'] is None else 1} 1")
    for n in nodes:
        lines.append(f"ins {n['id']} " + " ".join(map(str, n["ins"])))
        lines.append(f"outs {n['id']} " + " ".join(map(str, n["outs"])))
    used = set()

    def walk(x):
        if isinstance(x, int):
            used.add(x)
        elif isinstance(x, (list, tuple)):
            for y in x:
                walk(y)

    walk(case["ops"])
    for c in chans:
        if c["hint"] is not None:
            for k in POOL + list(ADV):
                if k in used and not admit(c["hint"], k):  # only values that occur in the case matter
                    lines.append(f"reject {c['id']} {k}")
    for a in chans:
        for b in chans:
            if a["hint"] is not None and b["hint"] is not None and not hint_leq(a["hint"], b["hint"]):
                lines.append(f"hintbad {a['id']} {b['id']}")
    for a, b in links:
        lines.append(f"recv {a} {b}")
    for a, b in wires:
        lines.append(f"wire {a} {b}")
    quiet = [n["id"] for n in nodes if n["spec"] in QUIET]
    if quiet:
        lines.append("quiet " + " ".join(map(str, quiet)))
    for n in nodes:
        if n["spec"] in CACHED:
            lines.append(f"cache {n['id']} 1")
        if n["kids"]:
            lines.append(f"kids {n['id']} " + " ".join(map(str, n["kids"])))
            for k, ds in n["deps"].items():
                lines.append(f"deps {k} " + " ".join(map(str, ds)))
    for op in case["ops"]:
        k = op[0]
        if k in ("set", "assign"):
            lines.append(f"{k} {op[1]} {_marg(op[2])}")
        elif k == "setinputs":
            lines.append(f"setinputs {_kwlines(nodes, op[1], op[2], op[3])}".rstrip())
        elif k == "fetch":
            lines.append(f"fetch {op[1]}")
        elif k == "fetchall":
            lines.append(f"fetchall {op[1]}")
        elif k == "link":
            lines.append(f"link {op[1]} {'-' if op[2] is None else op[2]}")
        elif k in ("connect", "disconnect"):
            lines.append(f"{k} {op[1]} {op[2]}")
        elif k == "connectm":
            lines.append(f"connectm {op[1]} " + " ".join(map(str, op[2])))
        elif k == "copyio":
            dst, src = nodes[op[1]], nodes[op[2]]
            parts = []
            for pi in (0, 1):
                mine = {lab: c for (lab, _h), c in zip(SPECS[dst["spec"]][pi], dst["ins" if pi == 0 else "outs"])}
                ps = []
                for (lab, _h), c in zip(SPECS[src["spec"]][pi], src["ins" if pi == 0 else "outs"]):
                    m = mine.get(lab)
                    ps.append(f"{'-' if m is None else m}:{c}")
                parts.append(" ".join(ps))
            lines.append(f"copyvalues {'hard' if op[3] else 'soft'} {parts[0]} / {parts[1]}")
        elif k == "run":
            lines.append(f"run {op[1]} {_kwlines(nodes, op[1], op[2], op[3])}".rstrip())
        elif k == "runx" and op[4] in ("pickle", "cloud"):
            lines.append(f"submit {op[1]} {_kwlines(nodes, op[1], op[2], op[3])}".rstrip())
        elif k == "complete":
            lines.append(f"complete {op[1]}")
        elif k == "replace" and op[2] in ("inst", "with", "class") and 0 <= op[1] < len(nodes) \
                and not nodes[op[1]]["kids"] and (case.get("wf") or len(nodes[op[1]]["path"]) > 1):
            par = [m for m in nodes if op[1] in m["kids"]]
            pi = par[0]["ins"] if par else []
            po = par[0]["outs"] if par else []
            lines.append(f"replace {op[1]} P={_csv(pi)} Q={_csv(po)}")
        elif k == "mutate" and (op[1], op[2]) in MUTATIONS:
            lines.append(f"mutate {op[1]} {op[2]}")
        elif k == "strict":
            lines.append(f"strict {op[1]} {op[2]}")
        elif k == "flag":
            lines.append(f"flag {op[1]} {op[2]} {op[3]}")
        elif k == "rt" and case.get("wf") and op[1] in ("pickle", "cloud", "file"):
            lines.append(_rtline(nodes, chans, tops_of(nodes), True))
        elif k == "rtnode" and not case.get("wf") and op[1] in tops_of(nodes) and op[2] in ("pickle", "cloud"):
            lines.append(_rtline(nodes, chans, [op[1]], False))
        else:
            lines.append("unknown " + " ".join(map(str, op)))
    return lines


# ----------------------------------------------------------------------------- oracle (independent of the model)


def _val(s):
    return "ND" if s == "ND" else (int(s) if s.lstrip("-").isdigit() else s)


def _spec_set(ctx, vals, c, v, depth=0):
    """the setter as the property describes it: validate against the hint where strict, forward to the value
    receiver through the same setter, then store; returns an error name or None"""
    chans, strict, recv, running = ctx
    if depth > 30:
        return "Recursion"
    ch = chans[c]
    if ch["panel"] == "in" and running[ch["node"]]:
        return "Runtime"
    if strict[c] and v != "ND" and not admit(ch["hint"], v):
        return "Type"
    r = recv[c]
    if r is not None:
        e = _spec_set(ctx, vals, r, v, depth + 1)
        if e:
            return e
    vals[c] = v
    return None


def _winner(stamps, vals, i, partners):
    """the most recently (effectively) connected partner of input i that holds data"""
    best = None
    for o in partners:
        if vals[o] != "ND":
            t = stamps.get((i, o), (-1, -1))
            if best is None or t > best[0]:
                best = (t, o)
    return None if best is None else best[1]


def _items(nodes, op):
    """(channel, argument) pairs of a run / setinputs op in the order the property's reading delivers them:
    explicit keywords first, then positional values bound to the leading labels"""
    n = op[1]
    labs = [lab for lab, _h in SPECS[nodes[n]["spec"]][0]]
    items = [(ch_of(nodes, n, lab), a) for lab, a in op[2]]
    items += [(ch_of(nodes, n, lab), a) for lab, a in zip(labs, op[3])]
    return items


def _deliver(chans, ctx, pre, stamps, k, items, ev, partners):
    """deliver the items one after the other (values through the specified setter, channels by connecting);
    returns (error name | None, stamps including the connections made here)"""
    st2 = dict(stamps)
    for pos, (c, a) in enumerate(items):
        if isinstance(a, str) and a.startswith("@"):
            o = int(a[1:])
            if o in partners.setdefault(c, list(pre["conns"][c])):
                continue
            hi, ho = chans[c]["hint"], chans[o]["hint"]
            if chans[o]["panel"] != "out":
                return "Type", st2
            if hi is not None and ho is not None and pre["strict"][c] and not hint_leq(ho, hi):
                return "Conn", st2
            partners[c].append(o)
            st2[(c, o)] = (k, pos)
        else:
            err = _spec_set(ctx, ev, c, a)
            if err:
                return err, st2
    return None, st2


def _f(clause, k, op, detail, **extra):
    sig = {"clause": clause, "trigger": op[0]}
    sig.update(extra)
    return {"clause": clause, "detail": f"after op #{k} {op}: {detail}", "signature": sig}


def _judge(nodes, chans, out_ch, k, pre, post, stamps, pend=None):
    """the clauses of the statement for one operation, given the oracle's time stamps of the present connections;
    `pend` = node -> arguments of the jobs that are out on an executor"""
    fails = []
    pend = pend or {}
    op, res = post["op"], post["res"]
    pv = [_val(x) for x in pre["vals"]]
    qv = [_val(x) for x in post["vals"]]
    ctx = (chans, pre["strict"], pre["recv"], [f[0] for f in pre["flags"]])
    kind = op[0]
    if kind == "fetch":
        i = op[1]
        if chans[i]["panel"] == "in":
            w = _winner(stamps, pv, i, pre["conns"][i])
            ev = list(pv)
            err = _spec_set(ctx, ev, i, pv[w]) if w is not None else None
            if err is None and res == "ok" and qv != ev:
                fails.append(_f("fetch-priority", k, op, f"values {qv} expected {ev}"))
            if (err is None) != (res == "ok"):
                fails.append(_f("fetch-priority", k, op, f"outcome {res} expected {err or 'ok'}"))
    if kind == "fetchall":
        # every input of the panel, each taking its most recent upstream holding data
        ev = list(pv)
        err = None
        for i in nodes[op[1]]["ins"]:
            w = _winner(stamps, ev, i, pre["conns"][i])
            if w is not None:
                err = _spec_set(ctx, ev, i, ev[w])
                if err:
                    break
        if err is None and res == "ok" and qv != ev:
            fails.append(_f("fetch-priority", k, op, f"values {qv} expected {ev}"))
        if (err is None) != (res == "ok"):
            fails.append(_f("fetch-priority", k, op, f"outcome {res} expected {err or 'ok'}"))
    if kind == "setinputs":
        # keyword / positional delivery without a run: typed stores through the same setter
        ev = list(pv)
        err, _st2 = _deliver(chans, ctx, pre, stamps, k, _items(nodes, op), ev, {})
        if err is None and res == "ok" and qv != ev:
            fails.append(_f("assignment-effect", k, op, f"values {qv} expected {ev}"))
        if (err is None) != (res == "ok"):
            fails.append(_f("assignment-effect", k, op, f"outcome {res} expected {err or 'ok'}"))
    new_calls = post["calls"][len(pre["calls"]):]
    # ---- no function is ever called on missing or ill-typed data, whoever the callee is (the node, a child of a
    # ---- composite, a copy of the node on an executor); hints as strict as they are when the function is called
    # ---- (for a job on an executor: when it was admitted)
    if not (kind == "complete" and pend.get(op[1])):
        for callee, args in new_calls:
            cins = nodes[callee]["ins"] if 0 <= callee < len(nodes) else None
            if cins is None or len(args) != len(cins) or any(
                    _val(a) == "ND" or (pre["strict"][i] and not admit(chans[i]["hint"], _val(a)))
                    for i, a in zip(cins, args)):
                fails.append(_f("called-on-bad", k, op, f"function of node {callee} called with {args}"))
    if kind == "complete":
        n = op[1]
        if pend.get(n):
            if [(c[0], list(c[1])) for c in new_calls] != [(n, pend[n][0])]:
                fails.append(_f("executor-args", k, op, f"the job was admitted with {pend[n][0]}, the function "
                                                      f"received {new_calls}"))
        elif new_calls:
            fails.append(_f("gate-open", k, op, f"no job was out, yet {new_calls}"))
    if kind in ("run", "runx"):
        n = op[1]
        node = nodes[n]
        comp = bool(node["kids"])
        cached = node["spec"] in CACHED
        ev = list(pv)
        partners = {i: list(pre["conns"][i]) for i in node["ins"]}
        err, st2 = _deliver(chans, ctx, pre, stamps, k, _items(nodes, op), ev, partners)
        if err is None:
            for i in node["ins"]:
                w = _winner(st2, ev, i, partners[i])
                if w is not None:
                    err = _spec_set(ctx, ev, i, ev[w])
                    if err:
                        break
        gate = None
        if err is None:
            running, failed = pre["flags"][n]
            ready = all(ev[i] != "ND" and (not pre["strict"][i] or admit(chans[i]["hint"], ev[i]))
                        for i in node["ins"])
            if running or failed or not ready:
                gate = "Readiness"
        if err is None and gate is None:
            want = [str(ev[i]) for i in node["ins"]]
            if kind == "runx":
                # admitted: the job goes out, nothing is called yet (a cached node may answer from its cache)
                if new_calls or not (res == "submitted" or (cached and res == "ok")):
                    fails.append(_f("gate-shut", k, op, f"every input ready, yet the submission ended with {res} "
                                                        f"and calls {new_calls}"))
            elif comp:
                # a composite that is admitted runs its children, each through its own gate (clause called-on-bad);
                # a child's refusal or failure surfaces as FailedChildError
                def below(m):
                    return [m] + [d for kid in nodes[m]["kids"] for d in below(kid)]

                resumed = any(pre["flags"][d][0] for d in below(n)[1:])
                # (a composite with a child still `running` re-runs exactly those children, outside any `try`: the
                # child's own refusal surfaces as it is)
                if res not in ("ok", "invoked", "FailedChild", "invoked+FailedChild") and not resumed:
                    fails.append(_f("gate-shut", k, op, f"every input ready, yet the run ended with {res}"))
            elif cached and res == "ok" and not new_calls and [pv[c] for c in out_ch] == [qv[c] for c in out_ch]:
                pass  # answered from the cache: allowed by the statement's `only if`, and only for a ready node
            elif not res.startswith("invoked"):
                fails.append(_f("gate-shut", k, op, f"every input ready, yet the run ended with {res}"))
            elif [(c[0], list(c[1])) for c in new_calls] != [(n, want)]:
                fails.append(_f("fetch-priority", k, op,
                                f"function received {new_calls}, the most recent upstreams holding data give {want}",
                                conns=max(len(partners[i]) for i in node["ins"])))
        else:
            if res.startswith("invoked") or new_calls:
                fails.append(_f("gate-open", k, op,
                                f"function invoked ({new_calls}) although {'the gate' if gate else err} refuses"))
            elif res == "ok":
                fails.append(_f("gate-open", k, op, "run returned normally although it had to be refused"))
            else:
                if gate and res != "Readiness":
                    fails.append(_f("refusal-kind", k, op, f"expected a ReadinessError, got {res}"))
                if [pv[c] for c in out_ch] != [qv[c] for c in out_ch]:
                    fails.append(_f("refused-not-clean", k, op, "an output changed during a refused run"))
                if [f[1] for f in pre["flags"]] != [f[1] for f in post["flags"]]:
                    fails.append(_f("refused-not-clean", k, op, "`failed` changed during a refused run"))
    if kind in ("set", "assign") and not (isinstance(op[2], str) and op[2].startswith("@")):
        ev = list(pv)
        err = _spec_set(ctx, ev, op[1], op[2])
        if res != "ok" and qv != pv:
            fails.append(_f("assignment-effect", k, op, f"raised {res} but values changed {pv} -> {qv}"))
        if res == "ok" and err is None and qv != ev:
            fails.append(_f("assignment-effect", k, op, f"values {qv} expected {ev}"))
        if (err is None) != (res == "ok"):
            fails.append(_f("assignment-effect", k, op, f"outcome {res} expected {err or 'ok'}"))
    if kind in ("rt", "rtnode") and res == "ok":
        # a round trip is not an assignment: it invents no value.  Every channel holds what it held, or what a
        # channel forwarding to it held (re-forging a value link delivers the sender's value); in particular the
        # marker `no data` comes back as the marker, judged the way the library judges it — by identity
        senders = {}
        for a_, r_ in enumerate(pre["recv"]):
            if r_ is not None and r_ >= 0:
                senders.setdefault(r_, []).append(a_)
        for c in range(len(chans)):
            ok_vals, todo, seen = {pv[c]}, [c], {c}
            while todo:
                x = todo.pop()
                for a_ in senders.get(x, []):
                    if a_ not in seen:
                        seen.add(a_)
                        ok_vals.add(pv[a_])
                        todo.append(a_)
            if qv[c] not in ok_vals:
                fails.append(_f("roundtrip-invents-value", k, op,
                                f"channel {c} ({chans[c]['label']}) held {pv[c]} and holds {qv[c]} after the round trip",
                                was="ND" if pv[c] == "ND" else "data", now="ND" if qv[c] == "ND" else str(qv[c])[:3]))
                break
    return fails


def oracle(case, r):
    if "states" not in r:
        return []
    if case.get("fam") == "for":
        return _oracle_for(case, r)
    if case.get("fam") == "cx":
        return _oracle_cx(case, r)
    nodes, chans, _links = layout(case["nodes"])
    states = r["states"]
    fails = []
    stamps = {}  # (input, output) -> (op index, position within the op)
    # the same stamps as a tree whose round trip reverses the priority of restored connections would leave them
    # (finding KF-C07-1 of the serialisation property); only used to label a failure as explained by that defect
    alt = {}
    excused = {}  # channel -> value that was present when strict hints were switched on
    pend = {}  # node -> the arguments its outstanding executor job was admitted with
    out_ch = [c["id"] for c in chans if c["panel"] == "out"]
    for k in range(1, len(states)):
        pre, post = states[k - 1], states[k]
        op, res = post["op"], post["res"]
        qv = [_val(x) for x in post["vals"]]
        kind = op[0]

        # ---- expectations that need the stamps as they were before this op
        now = _judge(nodes, chans, out_ch, k, pre, post, stamps, pend)
        explained = False
        if now and alt != stamps and not _judge(nodes, chans, out_ch, k, pre, post, alt, pend):
            explained = True
            for f in now:
                f["signature"]["explained_by"] = "roundtrip-reverses-priority"
        fails.extend(now)

        # ---- jobs out on executors: admitted with the values the inputs hold right after the submission
        if kind == "runx" and res == "submitted":
            pend.setdefault(op[1], []).append([str(_val(post["vals"][i])) for i in nodes[op[1]]["ins"]])
        if kind == "complete" and pend.get(op[1]):
            pend[op[1]].pop(0)  # the oldest job of the node finishes
        if kind == "replace" and res == "ok":
            # a fresh node: no job of the old one concerns it, and what it holds went through its own setters
            pend.pop(op[1], None)
            for c in nodes[op[1]]["ins"] + nodes[op[1]]["outs"]:
                excused.pop(c, None)
        if kind == "rt" and res == "ok":
            pend.clear()
        if kind == "rtnode" and res == "ok":
            for m in nodes:
                if m["path"][0] == nodes[op[1]]["path"][0]:
                    pend.pop(m["id"], None)

        # ---- keep the oracle's own time stamps: partners by set difference, never by list position
        order = {}
        if kind in ("run", "runx", "setinputs"):
            for pos, (c, a) in enumerate(_items(nodes, op)):
                if isinstance(a, str) and a.startswith("@"):
                    order[(c, int(a[1:]))] = pos
        if kind == "connectm":
            # one call, several partners: they are connected in the order of the call, the last one most recently
            for pos, b in enumerate(op[2]):
                order.setdefault((op[1], b), pos)  # a partner listed twice is connected where it is listed first
                order.setdefault((b, op[1]), pos)
        for c in range(len(chans)):
            before, after = set(pre["conns"][c]), set(post["conns"][c])
            for o in after - before:
                stamps[(c, o)] = alt[(c, o)] = (k, order.get((c, o), 0))
            for o in before - after:
                stamps.pop((c, o), None)
                alt.pop((c, o), None)
        if kind == "rt" and res == "ok":
            for c, ch in enumerate(chans):
                if ch["panel"] == "in":
                    ps = sorted((o for o in post["conns"][c] if (c, o) in alt), key=lambda o: alt[(c, o)], reverse=True)
                    for j, o in enumerate(ps):
                        alt[(c, o)] = (k, j)

        # ---- no strictly hinted channel holds a value its hint rejects — by an ASSIGNMENT: a mutable value changed
        # ---- in place by its other holder was not assigned (the gate has to notice it, clause gate-open)
        if kind == "mutate" and res == "ok":
            pv_ = [_val(x) for x in pre["vals"]]
            for c, ch in enumerate(chans):
                if pv_[c] == op[1] and qv[c] == op[2] and not admit(ch["hint"], qv[c]):
                    excused[c] = qv[c]
            for n_, jobs in pend.items():
                pend[n_] = [[str(op[2]) if a == str(op[1]) else a for a in job] for job in jobs]
        if kind == "strict" and op[2] == 1:
            c = op[1]
            if qv[c] != "ND" and not admit(chans[c]["hint"], qv[c]) and not pre["strict"][c]:
                excused[c] = qv[c]
        for c, ch in enumerate(chans):
            if c in excused and qv[c] != excused[c]:
                del excused[c]
            if post["strict"][c] and ch["hint"] is not None and qv[c] != "ND" \
                    and not (isinstance(qv[c], str) and qv[c].startswith("?")) \
                    and not admit(ch["hint"], qv[c]) and c not in excused:
                fails.append(_f("bad-store", k, op, f"strict channel {c} ({ch['label']}: {getattr(ch['hint'], '__name__', ch['hint'])}) holds {qv[c]}"))
                explained = False
        if fails and not explained:
            break
    return fails


def shrink_candidates(case):
    ops = case["ops"]
    for i in range(len(ops)):
        yield {**case, "ops": ops[:i] + ops[i + 1:]}
