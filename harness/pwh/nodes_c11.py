"""
Importable pieces for C11: a hand-written macro whose sub-graph is built from a level
description handed over in `SPEC_QUEUE` (so that the same macro class can hold any generated
DAG of term / If nodes and, possibly, one nested macro), and the common level builder.

A level description (JSON-serialisable):
  {"nodes": [{"gid": 3, "kind": "term", "fid": 2} | {"gid": 4, "kind": "if", "truth": true}
             | {"gid": 5, "kind": "macro", "inner": <level description>}, ...]   # insertion order
   "edges": [[dst_gid, slot, src_gid], ...]      # data connections in creation order
   "xin":   [[gid, slot], ...]                   # (macro levels) inputs fed by the macro input x
   "out":   gid}                                 # (macro levels) the leaf whose output is returned
"""

from __future__ import annotations

from pyiron_workflow import as_macro_node

from . import nodes

SPEC_QUEUE: list = []
BUILT: dict = {}  # gid -> live node


def out_channel(node):
    outs = list(node.outputs)
    return outs[0]


def build_level(owner, spec, x=None):
    from pyiron_workflow.nodes.standard import If

    made = {}
    for nd in spec["nodes"]:
        gid, label = nd["gid"], f"n{nd['gid']}"
        if nd["kind"] == "term":
            n = nodes.term_node(nd["fid"], label=label)
        elif nd["kind"] == "if":
            n = If(label=label)
            n.inputs.condition = bool(nd["truth"])
        elif nd["kind"] == "macro":
            SPEC_QUEUE.insert(0, nd["inner"])
            n = Mac(label=label)
        else:
            raise ValueError(nd["kind"])
        if owner is not None:
            owner.add_child(n)
        made[gid] = n
        BUILT[gid] = n
    for dst, slot, src in spec["edges"]:
        made[dst].inputs[slot].connect(out_channel(made[src]))
    if x is not None:
        for gid, slot in spec.get("xin", []):
            made[gid].inputs[slot].connect(x.outputs.user_input)
    return made


@as_macro_node("o", validate_output_labels=False)
def Mac(self, x="d"):
    spec = SPEC_QUEUE.pop(0)
    made = build_level(self, spec, x)
    return made[spec["out"]]
