"""
Importable node classes used by the harness on the REAL implementation.

Term nodes F0..F31: three untyped inputs a, b, c (default "d"), one output `o`;
the wrapped function returns the free term (f_i, a, b, c), logs its call and raises
iff the fail table says so. Equality of outputs with "the same functions composed in
plain python" is then syntactic equality of terms.
"""

from __future__ import annotations

import threading

from pyiron_workflow import as_function_node

CALL_LOG: list = []  # (index, a, b, c)
FAIL: dict[int, set] = {}  # index -> set of attempt numbers (1-based) that raise; {0} = always
ATTEMPTS: dict[int, int] = {}
EPOCH = [0]  # run number of a re-run case: terms computed in run k > 0 are tagged f{i}@k (detects stale inputs)
_LOCK = threading.Lock()
N_TERM = 32


class Boom(RuntimeError):
    """the injected failure"""


def reset():
    CALL_LOG.clear()
    FAIL.clear()
    ATTEMPTS.clear()
    EPOCH[0] = 0


def _record(i, a, b, c):
    with _LOCK:
        CALL_LOG.append((i, a, b, c))
        ATTEMPTS[i] = ATTEMPTS.get(i, 0) + 1
        n = ATTEMPTS[i]
    f = FAIL.get(i)
    if f and (0 in f or n in f):
        raise Boom(f"f{i}")


def _mk(i):
    def fn(a="d", b="d", c="d"):
        _record(i, a, b, c)
        return (f"f{i}" if not EPOCH[0] else f"f{i}@{EPOCH[0]}", a, b, c)

    fn.__name__ = f"F{i}"
    fn.__qualname__ = f"F{i}"
    fn.__module__ = __name__
    return as_function_node("o", validate_output_labels=False)(fn)


for _i in range(N_TERM):
    globals()[f"F{_i}"] = _mk(_i)


def term_node(i, **kw):
    return globals()[f"F{i}"](**kw)


# ---- macro wrappers M0..M31: a macro whose body is exactly the term node F_i, arguments passed through.
# To the outside it computes the same term as F_i, so a flat model of the enclosing graph applies unchanged,
# while the implementation goes through the macro machinery (interface nodes, value links, a nested run loop).


def _mk_macro(i):
    from pyiron_workflow import as_macro_node

    def M(self, a="d", b="d", c="d"):
        self.inner = term_node(i, a=a, b=b, c=c)
        return self.inner.outputs.o

    M.__name__ = f"M{i}"
    M.__qualname__ = f"M{i}"
    M.__module__ = __name__
    return as_macro_node("o", validate_output_labels=False)(M)


for _i in range(N_TERM):
    globals()[f"M{_i}"] = _mk_macro(_i)


def macro_node(i, **kw):
    return globals()[f"M{i}"](**kw)


def ref_term(i, a="d", b="d", c="d"):
    return (f"f{i}", a, b, c)


# ---- typed nodes for connection / data properties ---------------------------------


@as_function_node("oi", "os", "ou", validate_output_labels=False)
def Typed(i: int = 0, s: str = "x", u=None, b: bool = True):
    oi: int = i
    os_: str = s
    ou = u
    return oi, os_, ou


def _typed_out(i: int = 0, s: str = "x", u=None, b: bool = True) -> tuple[int, str, None]:
    return i, s, u


@as_function_node("oi", "os", "ob", validate_output_labels=False)
def TypedOut(i: int = 0, s: str = "x", u=None, b: bool = True) -> tuple[int, str, bool]:
    return i, s, b


# ---- a MACRO as the hosting composite: the whole random graph is built by a graph creator with three arguments
# ua, ub, uc; a slot of a child takes a sibling's output or one of the arguments. An argument used by two or more
# connections keeps its interface node (a real child of the macro, executed like any other); an argument used once is
# value-linked straight to the consuming input; the macro's outputs are the outputs of the children in `outs`.

_HOST_COUNTER = [0]
HOST_ARGS = ("ua", "ub", "uc")


def host_macro(case, label="w", **kw):
    from pyiron_workflow import as_macro_node

    order, slots, argslots, outs = case["order"], case["slots"], case["argslots"], case["outs"]
    macro = set(case.get("macro", []))
    made: dict = {}

    def creator(self, ua="d", ub="d", uc="d"):
        ui = [ua, ub, uc]
        ns = {}
        for i in order:
            n = macro_node(i, label=f"n{i}") if i in macro else term_node(i, label=f"n{i}")
            self.add_child(n)
            ns[i] = n
        for i in order:
            for s, slot in enumerate("abc"):
                k = argslots[str(i)][s]
                if k is not None:
                    ns[i].inputs[slot].connect(ui[k].channel)
                for j in slots[str(i)][s]:  # connection creation order; the newest ends up first
                    ns[i].inputs[slot].connect(ns[j].outputs.o)
        made.update(ns)
        return tuple(ns[i].outputs.o for i in outs)

    _HOST_COUNTER[0] += 1
    creator.__name__ = creator.__qualname__ = f"H{_HOST_COUNTER[0]}"
    creator.__module__ = __name__
    cls = as_macro_node(*[f"o{i}" for i in outs], validate_output_labels=False)(creator)
    globals()[creator.__name__] = cls  # what the decorator form does: the name denotes the class (needed to unpickle)
    m = cls(label=label, **kw)
    return m, made
