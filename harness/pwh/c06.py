"""C06 — a failing node is contained, reported, and leaves consistent statuses."""

from __future__ import annotations

from . import c01

PROP = "C06"
PROP_FILE = "PwVerif/Props/C06.lean"
DRIVER = "Driver/C01.lean"
THEOREMS = [
    "C06_no_downstream",
    "C06_outputs_kept",
    "C06_failed_marked",
    "C06_nobody_running_exited",
    "C06_reported_repaired",
    "C06_reported_partial",
    "C06_exec_failure_unreported_witness",
    "C06_abort_leaves_running_witness",
]
RULE = (
    "random DAGs (2..N term nodes) x every kind of fault position (starting node, inner node, two at once) x "
    "local/executor (ctl, ctl-cloudpickle) x random completion schedules x optional successful pre-run (so that "
    "'outputs keep their previous values' is not vacuous) ; plus parentless single nodes run with "
    "raise_run_exceptions=False and a listener on the `failed` signal. Non-trivial = a fault was actually hit"
)
TRUSTED = c01.TRUSTED + [
    "suppression (raise_run_exceptions=False) is checked by the oracle on the implementation only; the Lean model "
    "covers the raising path of composites",
]
ASSUMPTIONS = c01.ASSUMPTIONS

STATS_VARIANT = c01.STATS_VARIANT


def gen_cases(rng, tier):
    n_cases = 220 if tier == "quick" else 2500
    max_n = 6 if tier == "quick" else 10
    for _ in range(n_cases):
        n = rng.randint(2, max_n)
        order, slots = c01.gen_dag(rng, n, 0.55)
        ex = [i for i in range(n) if rng.random() < 0.4]
        k = 1 if rng.random() < 0.75 else 2
        fails = sorted(rng.sample(range(n), min(k, n)))
        yield {"kind": "dag", "n": n, "order": order, "slots": slots, "exec": ex, "fails": fails,
               "mode": rng.choice(["ctl", "ctl", "ctl-cloudpickle"]),
               "choices": [rng.randint(0, 4) for _ in range(4 * n)], "prerun": rng.random() < 0.4}
    for _ in range(20 if tier == "quick" else 100):
        yield {"kind": "single", "suppress": rng.random() < 0.7, "prerun": rng.random() < 0.7,
               "listener": True}


def corpus():
    # the two machine-checked witnesses of Props/C06.lean, on the real code
    yield {"kind": "dag", "n": 2, "order": [0, 1], "slots": {"0": [[], [], []], "1": [[0], [], []]}, "exec": [1],
           "fails": [1], "mode": "ctl", "choices": [], "prerun": False}
    yield {"kind": "dag", "n": 2, "order": [0, 1], "slots": {"0": [[], [], []], "1": [[], [], []]}, "exec": [0],
           "fails": [1], "mode": "ctl", "choices": [], "prerun": False, "force_starters": [0, 1]}
    yield {"kind": "single", "suppress": True, "prerun": True, "listener": True}
    yield {"kind": "dag", "n": 3, "order": [0, 1, 2], "slots": {"0": [[], [], []], "1": [[0], [], []], "2": [[1], [], []]},
           "exec": [], "fails": [1], "mode": "ctl", "choices": [], "prerun": True}


def _single(case):
    """parentless node, optional good pre-run, then a failing run (raised or suppressed)"""
    from . import nodes
    from .execsim import term_str

    nodes.reset()
    n = nodes.F0(label="n0")
    listener = nodes.F1(label="n1")
    after = nodes.F2(label="n2")
    listener.use_cache = False
    after.use_cache = False
    n.signals.output.failed >> listener.signals.input.run
    n >> after  # ran → after
    before = None
    if case["prerun"]:
        n.run(a="x")
        before = term_str(n.outputs.o.value)
        nodes.CALL_LOG.clear()
    nodes.FAIL[0] = {0}
    exc = None
    ret = "n/a"
    try:
        ret = n.run(a="y", raise_run_exceptions=not case["suppress"])
    except BaseException as e:  # noqa: BLE001
        exc = e
    return {
        "kind": "single",
        "raised": None if exc is None else type(exc).__name__,
        "ret": None if ret is None else term_str(ret),
        "before": before,
        "out": term_str(n.outputs.o.value),
        "flags": (bool(n.running), bool(n.failed)),
        "listener_calls": sum(1 for c in nodes.CALL_LOG if c[0] == 1),
        "after_calls": sum(1 for c in nodes.CALL_LOG if c[0] == 2),
    }


def _run_twice(case):
    """same as c01._run_once, but with a fault-free first run on the same objects"""
    import pyiron_workflow.nodes.composite as comp

    from . import nodes
    from .execsim import CtlExecutor, Instrument, Scheduler, Stuck, term_str

    nodes.reset()
    wf, ns = c01.build(case)
    wf.run()
    before = {i: term_str(ns[i].outputs.o.value) for i in ns}
    nodes.CALL_LOG.clear()
    # new input value on every root slot so that nothing is served from cache
    for i in ns:
        for slot, ups in zip("abc", case["slots"][str(i)]):
            if not ups:
                ns[i].inputs[slot].value = "e"
    for i in case["fails"]:
        nodes.FAIL[i] = {0}
    sched = Scheduler(list(case["choices"]), ident=lambda owner: owner.label[1:])
    exe = CtlExecutor(sched, case.get("mode", "ctl"))
    for i in case["exec"]:
        ns[i].executor = exe
    outcome, exc = "ok", None
    with Instrument(sched):
        try:
            wf.run()
        except Stuck as e:
            outcome = f"stuck:{e}"
        except BaseException as e:  # noqa: BLE001
            outcome = f"raised:{type(e).__name__}"
            exc = e
    lab = lambda l: int(l[1:])  # noqa: E731
    r = {
        "outcome": outcome, "exc_chain": _chain(exc), "before": before, "wiring": {}, "trace": sched.trace,
        "exec_log": [lab(l) for l in wf.provenance_by_execution],
        "done_log": [lab(l) for l in wf.provenance_by_completion],
        "events": [(k, lab(l)) for (k, l, p) in sched.log if p == "w"],
        "flags": {i: (bool(ns[i].running), bool(ns[i].failed)) for i in ns},
        "outs": {i: term_str(ns[i].outputs.o.value) for i in ns},
        "calls": [c[0] for c in nodes.CALL_LOG],
        "wf_running": bool(wf.running), "wf_failed": bool(wf.failed), "late_jobs": len(sched.jobs),
        "ret": None, "open_outputs": {},
    }
    return r, sched.options_seen


def _chain(exc):
    out = []
    seen = 0
    while exc is not None and seen < 10:
        out.append(type(exc).__name__)
        exc = exc.__cause__ or exc.__context__
        seen += 1
    return out


def _run_dag(case):
    import pyiron_workflow.nodes.composite as comp  # noqa: F401

    if case.get("prerun"):
        r, _ = _run_twice(case)
        return r
    # c01._run_once does not keep the exception object: wrap to capture the chain
    from . import nodes  # noqa: F401

    r, _ = _run_once_with_chain(case)
    return r


def _run_once_with_chain(case):
    import pyiron_workflow.workflow as wfmod

    captured = {}
    orig = wfmod.Workflow.run

    def run(self, *a, **k):
        try:
            return orig(self, *a, **k)
        except BaseException as e:  # noqa: BLE001
            captured["exc"] = e
            raise

    wfmod.Workflow.run = run
    try:
        r, seen = c01._run_once(case, list(case["choices"]))
    finally:
        wfmod.Workflow.run = orig
    r["exc_chain"] = _chain(captured.get("exc"))
    r["before"] = None
    return r, seen


def run_impl(case):
    if case["kind"] == "single":
        r = _single(case)
        return {"obs": [str(sorted(r.items()))], "r": r, "runs": [r],
                "stats": {"single": 1, f"suppress:{case['suppress']}": 1}}
    if case.get("force_starters"):
        # hash-seed independent version of the "failing starting node" scenario: hand-wired flow
        r = _forced(case)
    else:
        r = _run_dag(case)
    hit = [i for i in case["fails"] if i in r["calls"] or r["flags"][i][0]]
    stats = {"dag": 1, "fault_hit": 1 if hit else 0, f"outcome:{r['outcome']}": 1,
             "fault_on_exec": sum(1 for i in hit if i in case["exec"]), "prerun": int(bool(case.get("prerun")))}
    return {"obs": c01.obs_lines(case, r) if not case.get("prerun") and not case.get("force_starters") else [],
            "r": r, "runs": [r], "stats": stats}


def _forced(case):
    """workflow with automate_execution=False and explicit starting nodes in the given order"""
    from pyiron_workflow import Workflow

    from . import nodes
    from .execsim import CtlExecutor, Instrument, Scheduler, Stuck, term_str

    nodes.reset()
    wf = Workflow("w", autoload=None, automate_execution=False)
    ns = {}
    for i in case["order"]:
        ns[i] = nodes.term_node(i, label=f"n{i}")
        wf.add_child(ns[i])
    wf.starting_nodes = [ns[i] for i in case["force_starters"]]
    for i in case["fails"]:
        nodes.FAIL[i] = {0}
    sched = Scheduler([], ident=lambda owner: owner.label[1:])
    exe = CtlExecutor(sched, "ctl")
    for i in case["exec"]:
        ns[i].executor = exe
    outcome, exc = "ok", None
    with Instrument(sched):
        try:
            wf.run()
        except Stuck as e:
            outcome = f"stuck:{e}"
        except BaseException as e:  # noqa: BLE001
            outcome = f"raised:{type(e).__name__}"
            exc = e
    lab = lambda l: int(l[1:])  # noqa: E731
    return {
        "outcome": outcome, "exc_chain": _chain(exc), "before": None, "wiring": {}, "trace": sched.trace,
        "exec_log": [lab(l) for l in wf.provenance_by_execution],
        "done_log": [lab(l) for l in wf.provenance_by_completion], "events": [],
        "flags": {i: (bool(ns[i].running), bool(ns[i].failed)) for i in ns},
        "outs": {i: term_str(ns[i].outputs.o.value) for i in ns},
        "calls": [c[0] for c in nodes.CALL_LOG], "wf_running": bool(wf.running), "wf_failed": bool(wf.failed),
        "late_jobs": len(sched.jobs), "ret": None, "open_outputs": {},
    }


def nontrivial(case, impl):
    return case["kind"] == "single" or impl["stats"].get("fault_hit", 0) > 0


def model_input(case, impl):
    if case["kind"] != "dag" or case.get("prerun") or case.get("force_starters"):
        return ["n 0", "run"]
    return c01._model_input_one(case, impl["r"])


def diff(case, impl, model):
    if case["kind"] != "dag" or case.get("prerun") or case.get("force_starters"):
        return None
    return c01._diff_one(case, impl["obs"], model)


def _downstream(case, roots):
    out = set()
    changed = True
    while changed:
        changed = False
        for i in range(case["n"]):
            if i in out or i in roots:
                continue
            ups = {j for sl in case["slots"][str(i)] for j in sl}
            if ups & (out | set(roots)):
                out.add(i)
                changed = True
    return out


def oracle(case, impl):
    r = impl["r"]
    fails = []
    if case["kind"] == "single":
        sup = case["suppress"]
        s = lambda c: {"clause": c, "kind": "single", "suppress": sup}  # noqa: E731
        if not sup and r["raised"] != "Boom":
            fails.append({"clause": "error-not-raised", "detail": str(r), "signature": s("raise")})
        if sup and r["raised"] is not None:
            fails.append({"clause": "error-raised-despite-suppression", "detail": str(r), "signature": s("suppress")})
        if r["flags"] != (False, True):
            fails.append({"clause": "flags", "detail": str(r), "signature": s("flags")})
        expect = r["before"] if r["before"] is not None else "ND"
        if r["out"] != expect:
            fails.append({"clause": "outputs-not-kept", "detail": f"{r['out']} vs previous {expect}",
                          "signature": s("outputs-kept")})
        if r["listener_calls"] != 1:
            fails.append({"clause": "failed-signal-not-exactly-once", "detail": f"listener ran {r['listener_calls']} times",
                          "signature": s("failed-once")})
        if r["after_calls"] != 0:
            fails.append({"clause": "completion-announced-after-failure", "detail": str(r), "signature": s("no-ran")})
        return fails

    hit = [i for i in case["fails"] if i in r["calls"]]
    on_exec = any(i in case["exec"] for i in hit)
    starter = bool(case.get("force_starters")) or any(
        not any(case["slots"][str(i)]) for i in hit)
    s = lambda c: {"clause": c, "kind": "dag", "failing_on_exec": on_exec, "failing_starter": starter}  # noqa: E731
    if not hit:
        return fails
    if r["outcome"].startswith("stuck"):
        return [{"clause": "run-does-not-terminate", "detail": r["outcome"], "signature": s("terminate")}]
    # (a) the error reaches the caller, carrying the original exception
    if not r["outcome"].startswith("raised:"):
        fails.append({"clause": "error-does-not-reach-caller", "detail": f"run returned normally; failing nodes {hit}",
                      "signature": s("reaches-caller")})
    elif len(hit) == 1 and "Boom" not in r["exc_chain"]:
        fails.append({"clause": "original-exception-lost", "detail": str(r["exc_chain"]), "signature": s("cause")})
    # (b) statuses
    for i in hit:
        run, failed = r["flags"][i]
        if run or not failed:
            fails.append({"clause": "failing-node-flags", "detail": f"node {i}: running={run} failed={failed}",
                          "signature": s("node-flags")})
    if r["wf_running"] or not r["wf_failed"]:
        fails.append({"clause": "composite-flags", "detail": f"workflow running={r['wf_running']} failed={r['wf_failed']}",
                      "signature": s("composite-flags")})
    if any(run for run, _f in r["flags"].values()) or r["late_jobs"]:
        fails.append({"clause": "node-left-running", "detail": f"{r['flags']} late_jobs={r['late_jobs']}",
                      "signature": s("left-running")})
    # (c) outputs kept
    for i in hit:
        expect = r["before"][i] if r.get("before") else "ND"
        if r["outs"][i] != expect:
            fails.append({"clause": "outputs-not-kept", "detail": f"node {i}: {r['outs'][i]} vs previous {expect}",
                          "signature": s("outputs-kept")})
    # (d) nothing downstream of a failed node executes
    for i in _downstream(case, hit):
        if i in r["calls"]:
            fails.append({"clause": "downstream-of-failure-executed", "detail": f"node {i}; calls {r['calls']}",
                          "signature": s("no-downstream")})
    return fails


def shrink_candidates(case):
    if case["kind"] != "dag":
        return
    for c in c01.shrink_candidates(case):
        if all(f < c["n"] for f in c["fails"]):
            yield c
    if case.get("prerun"):
        yield {**case, "prerun": False}
    if len(case["fails"]) > 1:
        for f in case["fails"]:
            yield {**case, "fails": [x for x in case["fails"] if x != f]}
