"""C06 — a failing node is contained, reported, and leaves consistent statuses."""

from __future__ import annotations

from . import c01

PROP = "C06"
PROP_FILE = "PwVerif/Props/C06.lean"
DRIVER = "Driver/C06.lean"
THEOREMS = [
    "C06_no_downstream",
    "C06_outputs_kept",
    "C06_failed_marked",
    "C06_nobody_running_exited",
    "C06_reported_repaired",
    "C06_reported_partial",
    "C06_exec_failure_unreported_witness",
    "C06_abort_leaves_running_witness",
    "C06_nest_no_downstream",
    "C06_nest_reported",
    "C06_nest_nobody_running",
    "C06_nest_failed_exactly",
    "C06_nest_outputs_kept",
    "C06_nest_cause",
    "C06_nest_class_independent",
    "C06_nest_progress",
    "C06_nest_flat",
    "C06_collect_keeps_original",
    "C06_collect_pinned_witness",
    "C06_if_failed_announces_failure_only",
    "C06_if_pinned_witness",
    "C06_callback_handles_what_local_handles",
    "C06_callback_pinned_witness",
    "C06_nest_terminates",
    "C06_fine_no_downstream",
    "C06_fine_outputs_kept",
    "C06_fine_failed_marked",
    "C06_fine_reported",
    "C06_fine_parked_blocks_exit",
    "C06_fine_nobody_running",
    "C06_flow_failed_emits_failed_only",
    "C06_flow_contained",
    "C06_flow_no_downstream",
    "C06_flow_original_kept",
    "C06_flow_one_error_per_child",
    "C06_flow_raises_iff",
    "C06_flow_cause",
    "C06_flow_pinned_witness",
    "C06_kinds_proposed",
    "C06_kinds_head_partial",
    "C06_kinds_head_witness",
    "C06_kinds_vanish_witness",
    "C06_nest_rerun",
    "C06_nest_rerun_no_downstream",
    "C06_nest_rerun_pinned_witness",
    "C06_suppress_bookkeeping",
    "C06_suppress_result",
    "C06_suppress_nest",
    "C06_suppress_pinned_witness",
    "C06_flowx_discipline",
    "C06_flowx_ended",
    "C06_flowx_raises",
    "C06_nestfine_refines",
    "C06_nestfine_no_downstream",
    "C06_nestfine_nobody_running",
    "C06_flow_hit_not_blamed",
    "C06_flow_direct_hit_witness",
    "C06_pull_contained",
    "C06_recovery_failure_keeps_original",
    "C06_recovery_failure_pinned_witness",
    "C06_push_propagates",
    "C06_push_swallow_witness",
    "C06_trigger_reset_before_callback",
    "C06_trigger_callback_first_witness",
]
RULE = (
    "(dag) random DAGs (2..N term nodes) x every kind of fault position (starting node, inner node, two at once) x "
    "local/executor (ctl, ctl-cloudpickle) x random completion schedules x optional successful pre-run; (single) "
    "parentless nodes run with raise_run_exceptions=False and a listener on `failed`; (nest) random trees of "
    "composites, nesting depth 0..3: a child is a term node or a macro with its own random DAG, macros as starting "
    "and as signal-started children, run locally or on the executor, an independent sibling on the executor at every "
    "level, 1..3 failing leaves at any depth, each raising a class drawn from a family of 32 Exception classes "
    "(LookupError/IndexError/KeyError and subclasses, StopIteration, ReadinessError and look-alikes, FailedChildError "
    "raised by a leaf, concurrent.futures errors, ...), random and laziest schedules (the sibling completes after the "
    "failure has come up), optional successful pre-run; a sweep class x depth x starting/signal-started x "
    "local/executor on a fixed chain; re-run HISTORIES of such trees (failed flags cleared, another fault set, other "
    "executors, another schedule, 1-2 further runs; all-of joins left/right -> combine at depth 0..3 with the failing "
    "side alternating over 4 runs), every run of a history judged by every clause and co-simulated; (flow) hand-wired flows: run signals wired by hand, nodes triggered several "
    "times, `If` nodes with branches, a failing `If` (those without executor children co-simulated on C02's machine); "
    "(base) the same trees with KeyboardInterrupt; (fine) DAGs with failing executor children, the done-callbacks on "
    "their own threads stepped in two halves, random and DFS schedules of the halves; (ktab) Boom / KeyboardInterrupt / "
    "SystemExit / GeneratorExit / custom BaseException x every placement of executors on the path from the raising "
    "node up x depth 0..3, an in-flight sibling completing last at every level. "
    "Non-trivial = a fault was actually hit"
)
TRUSTED = c01.TRUSTED + [
    "suppression (raise_run_exceptions=False) is checked by the oracle on the implementation only; the Lean model "
    "covers the raising path of composites",
    "nested model (Model/ExecNest.lean): from its parent's point of view a macro child is a child that is out until "
    "its own loop has ended, whether it runs locally (the parent's thread is inside it) or on an executor; the driver "
    "replays the real call stack with the recorded completions; values are compared as ND/previous/new only (value "
    "flow through macro IO is C09's subject), the cause chain as FailedChildError* + identity of the raised object",
    "hand-wired flows: Model/FlowFail.lean wraps C02's Signal.runNode with the transcribed except clause of the "
    "composite (_collect_child_error); the harness observes the real calls of that method through a class-level "
    "wrapper that calls the original; flows WITH executor children are checked by the oracle only",
    "kinds of raised objects: ExecNest.propagate is a function of the path (kind, local/executor at every level), not "
    "part of the interleaving machine; the controllable executor stores non-Exceptions in the future and lets a "
    "done-callback's escaping BaseException end the job silently, as a real pool's worker thread does",
]
ASSUMPTIONS = c01.ASSUMPTIONS
CASE_TIMEOUT = 150

STATS_VARIANT = c01.STATS_VARIANT


def N_EXC():
    from . import nodes_c06 as N

    return N.EXCEPTIONS + ["KeyboardInterrupt"]


KI_WITNESS = {"kind": "nest", "base": True,
              "prog": {"n": 3, "order": [0, 1, 2], "slots": {"0": [[], [], []], "1": [[0], [], []], "2": [[1], [], []]},
                       "kids": {}, "gid": {"0": 0, "1": 1, "2": 2}, "ret": 2},
              "fails": {"1": "KeyboardInterrupt"}, "exec": ["1"], "mode": "ctl", "choices": [], "prerun": False}


def gen_cases(rng, tier):
    n_cases = 220 if tier == "quick" else 2500
    max_n = 6 if tier == "quick" else 10
    for _ in range(n_cases):
        n = rng.randint(2, max_n)
        order, slots = c01.gen_dag(rng, n, 0.55)
        ex = [i for i in range(n) if rng.random() < 0.4]
        k = 1 if rng.random() < 0.75 else 2
        fails = sorted(rng.sample(range(n), min(k, n)))
        yield {"kind": "dag", "n": n, "order": order, "slots": slots, "exec": ex, "fails": fails,
               "mode": rng.choice(["ctl", "ctl", "ctl-cloudpickle"]),
               "choices": [rng.randint(0, 4) for _ in range(4 * n)], "prerun": rng.random() < 0.4}
    for _ in range(20 if tier == "quick" else 100):
        yield {"kind": "single", "suppress": rng.random() < 0.7, "prerun": rng.random() < 0.7,
               "listener": True}
    # the fine interleaving with faults: a failing executor child's callback parked between its two calls
    for _ in range(40 if tier == "quick" else 500):
        n = rng.randint(2, 5 if tier == "quick" else 7)
        order, slots = c01.gen_dag(rng, n, 0.6)
        ex = [i for i in range(n) if rng.random() < 0.6] or [rng.randrange(n)]
        # prefer failing nodes that are on the executor
        fl = sorted(set(rng.sample(ex, 1) + ([rng.randrange(n)] if rng.random() < 0.3 else [])))
        yield {"kind": "dag", "n": n, "order": order, "slots": slots, "exec": ex, "fails": fl, "mode": "ctl",
               "fine": True, "choices": [rng.randint(0, 5) for _ in range(6 * n)], "prerun": False}
    for _ in range(4 if tier == "quick" else 40):
        n = rng.randint(2, 3 if tier == "quick" else 4)
        order, slots = c01.gen_dag(rng, n, 0.7)
        yield {"kind": "dag", "n": n, "order": order, "slots": slots, "exec": list(range(n)),
               "fails": [rng.randrange(n)], "mode": "ctl", "fine": True, "choices": [], "prerun": False,
               "dfs": 40 if tier == "quick" else 300}
    for key in N_EXC():
        yield {"kind": "single", "suppress": rng.random() < 0.6, "prerun": rng.random() < 0.6, "listener": True,
               "exc": key}
    # nested macros (depth 0..3) x exception classes, faults at every depth, executor siblings at every level
    from . import nodes_c06 as N

    quick = tier == "quick"
    for depth, count in ((0, 50 if quick else 600), (1, 110 if quick else 1600), (2, 100 if quick else 1600),
                         (3, 50 if quick else 900)):
        for _ in range(count):
            yield gen_nest_case(rng, depth, N.EXCEPTIONS, n_max=4 if depth < 3 else 3)
    # every exception class at a starting / signal-started position, locally and on the executor, depth 0..2
    sweep = list(class_sweep(N.EXCEPTIONS, (0, 1, 2), ("start", "mid"), (False, True)))
    if quick:
        # all classes signal-started and local (where the loop's own exception handling is in the way) at depth 0/1,
        # a seeded sample of the rest
        must = [c for c in sweep if not c["exec"] or c["exec"] == ["3"]]
        must = [c for c in must if len(next(iter(c["fails"]))) <= 3 and next(iter(c["fails"])).endswith("1")]
        rest = [c for c in sweep if c not in must]
        sweep = must + rng.sample(rest, 40)
    yield from sweep
    yield from join_histories((0, 1, 2) if quick else (0, 1, 2, 3), quick)
    # the fine interleaving inside nested composites
    for depth, count in ((1, 20 if quick else 250), (2, 16 if quick else 250), (3, 0 if quick else 100)):
        for _ in range(count):
            yield gen_nfine_case(rng, depth, N.EXCEPTIONS)
    # every completion order at every schedule point (stateless DFS), small trees
    for _ in range(6 if quick else 150):
        c = gen_nest_case(rng, rng.choice([1, 1, 2]), N.EXCEPTIONS, n_max=3)
        yield {**c, "choices": [], "prerun": False, "dfs": 25 if quick else 100}
    # hand-wired flows: nodes triggered more than once, `If` branches (oracle only)
    for _ in range(120 if quick else 2500):
        yield gen_flow_case(rng, N.EXCEPTIONS)
    # parentless nodes wired by hand: pushes from a head, pulls from a tail
    for _ in range(70 if quick else 1200):
        yield gen_pchain_case(rng, N.EXCEPTIONS)
    # ... with an all-of join, over several rounds (failed flags cleared in between)
    for _ in range(60 if quick else 800):
        yield gen_pjoin_case(rng, N.EXCEPTIONS)
    # failures during pulls of a child inside a workflow
    for _ in range(70 if quick else 1200):
        yield gen_pull_case(rng, N.EXCEPTIONS)
    # real executors: ThreadPoolExecutor and the library's own CloudpickleProcessPoolExecutor (a real, spawned process)
    rx_classes = ["Boom", "MyKeyError", "IndexError", "ValueError", "CustomError", "StopIteration", "NotReadyError",
                  "MyLookupError", "ZeroDivisionError", "FailedChildError"]
    for ex, wheres, count in (("thread", ("child", "in-macro", "macro"), 4 if quick else 30),
                              ("cloudproc", ("child", "in-macro"), 3 if quick else 24)):
        for _ in range(count):
            yield {"kind": "rx", "executor": ex, "where": rng.choice(wheres), "exc": rng.choice(rx_classes),
                   "prerun": rng.random() < 0.5}
    # kinds of raised objects x local/executor at every level of the path x depth: the whole table
    import itertools

    for depth in ((0, 1, 2) if quick else (0, 1, 2, 3)):
        for execs in itertools.product([False, True], repeat=depth + 1):
            for key in ("Boom", "KeyboardInterrupt", "SystemExit", "GeneratorExit", "Abort"):
                yield {"kind": "ktab", "exc": key, "depth": depth, "execs": list(execs)}
    # the one non-Exception class the library's own exception path names: KeyboardInterrupt (oracle only)
    for depth, count in ((0, 10 if quick else 60), (1, 14 if quick else 80), (2, 10 if quick else 60)):
        for _ in range(count):
            yield gen_nest_case(rng, depth, ["KeyboardInterrupt"], base=True)


def corpus():
    # the two machine-checked witnesses of Props/C06.lean, on the real code
    yield {"kind": "dag", "n": 2, "order": [0, 1], "slots": {"0": [[], [], []], "1": [[0], [], []]}, "exec": [1],
           "fails": [1], "mode": "ctl", "choices": [], "prerun": False}
    yield {"kind": "dag", "n": 2, "order": [0, 1], "slots": {"0": [[], [], []], "1": [[], [], []]}, "exec": [0],
           "fails": [1], "mode": "ctl", "choices": [], "prerun": False, "force_starters": [0, 1]}
    yield {"kind": "single", "suppress": True, "prerun": True, "listener": True}
    yield {"kind": "dag", "n": 3, "order": [0, 1, 2], "slots": {"0": [[], [], []], "1": [[0], [], []], "2": [[1], [], []]},
           "exec": [], "fails": [1], "mode": "ctl", "choices": [], "prerun": True}
    # nested: the three-level run of Props/C06.lean (slow sibling in flight, macros not starting, leaf raises KeyError)
    inner = {"n": 3, "order": [0, 1, 2], "slots": {"0": ["a", [], []], "1": [[0], [], []], "2": [[1], [], []]},
             "kids": {}, "gid": {"0": 3, "1": 4, "2": 5}, "ret": 2}
    mid = {"n": 3, "order": [0, 1, 2], "slots": {"0": [[], [], []], "1": [[0], [], []], "2": [[1], [], []]},
           "kids": {"1": inner}, "gid": {"0": 2, "2": 6}, "ret": 2}
    top = {"n": 4, "order": [0, 1, 2, 3], "slots": {"0": [[], [], []], "1": [[], [], []], "2": [[1], [], []],
                                                     "3": [[2], [], []]},
           "kids": {"2": mid}, "gid": {"0": 0, "1": 1, "3": 7}, "ret": 3}
    yield {"kind": "nest", "prog": top, "fails": {"2.1.1": "KeyError"}, "exec": ["0"], "mode": "ctl", "choices": [],
           "prerun": False}
    yield {"kind": "nest", "prog": top, "fails": {"2.1.1": "IndexError"}, "exec": ["0", "2.1"], "mode": "ctl",
           "choices": [], "prerun": True}
    # fine interleaving: a -> b, a on the executor and raising; its callback parked between its two calls
    yield {"kind": "dag", "n": 2, "order": [0, 1], "slots": {"0": [[], [], []], "1": [[0], [], []]}, "exec": [0],
           "fails": [0], "mode": "ctl", "fine": True, "choices": [0, 0, 0, 0], "prerun": False}
    # KeyboardInterrupt raised by a function that runs on an executor (a -> b -> c, b out)
    yield KI_WITNESS
    # an unstorable value in the graph: the recovery save of the failed root fails
    yield {"kind": "nest", "lock": "0",
           "prog": {"n": 2, "order": [0, 1], "slots": {"0": [[], [], []], "1": [[0], [], []]}, "kids": {},
                    "gid": {"0": 0, "1": 1}, "ret": 1},
           "fails": {"1": "ValueError"}, "exec": [], "mode": "ctl", "choices": [], "prerun": False}
    # parentless `load >> scale >> report`, `scale` raises: pushed from the head, pulled from the tail
    yield {"kind": "pchain", "n": 3, "order": [0, 1, 2], "slots": {"0": [[], [], []], "1": [[0], [], []], "2": [[1], [], []]},
           "op": "push", "at": 0, "fails": {"1": "ValueError"}, "prerun": True}
    yield {"kind": "pchain", "n": 3, "order": [0, 1, 2], "slots": {"0": [[], [], []], "1": [[0], [], []], "2": [[1], [], []]},
           "op": "pull", "at": 2, "fails": {"1": "ValueError"}, "prerun": True}
    # all-of join of parentless nodes: round 1 the join raises, round 2 a head raises
    yield {"kind": "pjoin", "heads": 2, "rounds": [{"fails": {"2": "ValueError"}}, {"fails": {"0": "KeyError"}}]}
    # sys.exit() in a node function, locally and on the executor
    yield {"kind": "ktab", "exc": "SystemExit", "depth": 0, "execs": [False]}
    yield {"kind": "ktab", "exc": "SystemExit", "depth": 1, "execs": [True, False]}
    # hand-wired flows: a failed `If` after an earlier True; a node triggered again after its function raised
    yield {"kind": "flow", "n": 2, "order": [0, 1], "edges": [[0, 1, "true"]], "starters": [0], "ifs": {"0": True},
           "fails": {"0": "ValueError"}, "exec": [], "choices": [], "prerun": True}
    yield {"kind": "flow", "n": 3, "order": [0, 1, 2], "edges": [[0, 2, "ran"], [1, 2, "ran"]], "starters": [0, 1],
           "ifs": {}, "fails": {"2": "ValueError"}, "exec": [], "choices": [], "prerun": False}


def _single(case):
    """parentless node, optional good pre-run, then a failing run (raised or suppressed)"""
    from . import nodes
    from .execsim import term_str

    if case.get("exc"):
        return _single_class(case)
    nodes.reset()
    n = nodes.F0(label="n0")
    listener = nodes.F1(label="n1")
    after = nodes.F2(label="n2")
    listener.use_cache = False
    after.use_cache = False
    n.signals.output.failed >> listener.signals.input.run
    n >> after  # ran → after
    before = None
    if case["prerun"]:
        n.run(a="x")
        before = term_str(n.outputs.o.value)
        nodes.CALL_LOG.clear()
    nodes.FAIL[0] = {0}
    exc = None
    ret = "n/a"
    try:
        ret = n.run(a="y", raise_run_exceptions=not case["suppress"])
    except BaseException as e:  # noqa: BLE001
        exc = e
    return {
        "kind": "single",
        "raised": None if exc is None else type(exc).__name__,
        "ret": None if ret is None else term_str(ret),
        "before": before,
        "out": term_str(n.outputs.o.value),
        "flags": (bool(n.running), bool(n.failed)),
        "listener_calls": sum(1 for c in nodes.CALL_LOG if c[0] == 1),
        "after_calls": sum(1 for c in nodes.CALL_LOG if c[0] == 2),
    }


def _single_class(case):
    """as `_single`, the failing function raising the class the case names (nodes_c06)"""
    from . import nodes_c06 as N
    from .execsim import term_str

    N.reset()
    n, listener, after = N.G0(label="n0"), N.G1(label="n1"), N.G2(label="n2")
    for x in (n, listener, after):
        x.use_cache = False
    n.signals.output.failed >> listener.signals.input.run
    n >> after
    before = None
    if case["prerun"]:
        n.run(a="x")
        before = term_str(n.outputs.o.value)
        N.CALL_LOG.clear()
        N.EPOCH[0] = 1
    N.EXC[0] = case["exc"]
    exc, ret = None, "n/a"
    try:
        ret = n.run(a="y", raise_run_exceptions=not case["suppress"])
    except BaseException as e:  # noqa: BLE001
        exc = e
    return {
        "kind": "single",
        "raised": None if exc is None else ("Boom" if exc is N.RAISED.get(0) else f"other:{type(exc).__name__}"),
        "ret": None if ret is None else term_str(ret),
        "before": before,
        "out": term_str(n.outputs.o.value),
        "flags": (bool(n.running), bool(n.failed)),
        "listener_calls": N.CALL_LOG.count(1),
        "after_calls": N.CALL_LOG.count(2),
    }


def _run_twice(case):
    """same as c01._run_once, but with a fault-free first run on the same objects"""
    import pyiron_workflow.nodes.composite as comp

    from . import nodes
    from .execsim import CtlExecutor, Instrument, Scheduler, Stuck, term_str

    nodes.reset()
    wf, ns = c01.build(case)
    wf.run()
    before = {i: term_str(ns[i].outputs.o.value) for i in ns}
    nodes.CALL_LOG.clear()
    # new input value on every root slot so that nothing is served from cache
    for i in ns:
        for slot, ups in zip("abc", case["slots"][str(i)]):
            if not ups:
                ns[i].inputs[slot].value = "e"
    for i in case["fails"]:
        nodes.FAIL[i] = {0}
    sched = Scheduler(list(case["choices"]), ident=lambda owner: owner.label[1:])
    exe = CtlExecutor(sched, case.get("mode", "ctl"))
    for i in case["exec"]:
        ns[i].executor = exe
    outcome, exc = "ok", None
    with Instrument(sched):
        try:
            wf.run()
        except Stuck as e:
            outcome = f"stuck:{e}"
        except BaseException as e:  # noqa: BLE001
            outcome = f"raised:{type(e).__name__}"
            exc = e
    lab = lambda l: int(l[1:])  # noqa: E731
    r = {
        "outcome": outcome, "exc_chain": _chain(exc), "before": before, "wiring": {}, "trace": sched.trace,
        "exec_log": [lab(l) for l in wf.provenance_by_execution],
        "done_log": [lab(l) for l in wf.provenance_by_completion],
        "events": [(k, lab(l)) for (k, l, p) in sched.log if p == "w"],
        "flags": {i: (bool(ns[i].running), bool(ns[i].failed)) for i in ns},
        "outs": {i: term_str(ns[i].outputs.o.value) for i in ns},
        "calls": [c[0] for c in nodes.CALL_LOG],
        "wf_running": bool(wf.running), "wf_failed": bool(wf.failed), "late_jobs": len(sched.jobs),
        "ret": None, "open_outputs": {},
    }
    return r, sched.options_seen


def _chain(exc):
    out = []
    seen = 0
    while exc is not None and seen < 10:
        out.append(type(exc).__name__)
        exc = exc.__cause__  # the CAUSE chain: what was raised `from` what (an implicit __context__ is not a cause)
        seen += 1
    return out


def _run_dag(case):
    import pyiron_workflow.nodes.composite as comp  # noqa: F401

    if case.get("prerun"):
        r, _ = _run_twice(case)
        return r
    # c01._run_once does not keep the exception object: wrap to capture the chain
    from . import nodes  # noqa: F401

    r, _ = _run_once_with_chain(case)
    return r


def _run_once_with_chain(case):
    import pyiron_workflow.workflow as wfmod

    captured = {}
    orig = wfmod.Workflow.run

    def run(self, *a, **k):
        try:
            return orig(self, *a, **k)
        except BaseException as e:  # noqa: BLE001
            captured["exc"] = e
            raise

    wfmod.Workflow.run = run
    try:
        r, seen = c01._run_once(case, list(case["choices"]))
    finally:
        wfmod.Workflow.run = orig
    r["exc_chain"] = _chain(captured.get("exc"))
    r["before"] = None
    return r, seen


def run_impl(case):
    if case["kind"] == "pjoin":
        r = _run_pjoin(case)
        return {"obs": [str(r)], "r": r, "runs": [r],
                "stats": {"pjoin": 1, "pjoin_rounds": len(case["rounds"]),
                          "fault_hit": int(any(p["raisers"] for ro in r["rounds"] for p in ro["pushes"]))}}
    if case["kind"] == "pchain":
        r = _run_pchain(case)
        hit = [i for i in case["fails"] if int(i) in r["calls"]]
        return {"obs": _pchain_obs(case, r), "r": r, "runs": [r],
                "stats": {"pchain": 1, f"pchain_{case['op']}": 1, "fault_hit": int(bool(hit)),
                          "pchain_raiser_not_invoked": int(bool(hit) and str(case["at"]) not in hit),
                          f"outcome:{r['outcome'].split(':')[0]}": 1}}
    if case["kind"] == "pull":
        r = _run_pull(case)
        return {"obs": [str(sorted((k, str(v)) for k, v in r.items()))], "r": r, "runs": [r],
                "stats": {"pull": 1, "fault_hit": int(any(r["calls"][i] for i in case["fails"])),
                          "pull_refused": int(r["refused"]), f"outcome:{r['outcome']}": 1,
                          "pull_cosimulated": int(bool(r["chain"] is not None and not r["refused"]))}}
    if case["kind"] == "rx":
        r = _run_rx(case)
        return {"obs": [str(sorted(r.items()))], "r": r, "runs": [r],
                "stats": {"rx": 1, "fault_hit": 1, f"rx_executor:{case['executor']}": 1, f"rx_where:{case['where']}": 1}}
    if case["kind"] == "ktab":
        r = _run_ktab(case)
        return {"obs": _ktab_obs(r, "H"), "r": r, "runs": [r],
                "stats": {"ktab": 1, "fault_hit": 1, f"ktab_kind:{_kind_of(case['exc'])}": 1,
                          f"ktab_depth:{case['depth']}": 1, f"ktab_caller:{r['ktab']['caller'].split(':')[0]}": 1,
                          "ktab_recovery_file": int(r["recovery_file"])}}
    if case["kind"] == "flow":
        r = _run_flow(case)
        stats = {"flow": 1, "fault_hit": 1 if r["raised"] else 0, f"outcome:{r['outcome']}": 1,
                 "flow_if_failed": sum(1 for h in r["raised"] if h in case["ifs"]),
                 "flow_with_executor": int(bool(case["exec"])), "flow_refusals": sum(1 for c in r["collected"] if "refused" in c),
                 "flow_runs_of_some_node>1": int(any(r["exec_log"].count(i) > 1 for i in set(r["exec_log"])))}
        return {"obs": [str(sorted((k, str(v)) for k, v in r.items()))], "r": r, "runs": [r], "stats": stats}
    if case["kind"] == "nest":
        runs = None
        if case.get("dfs"):
            from .execsim import explore

            def once(ch):
                rr = _run_nest({**case, "choices": ch})
                return rr, rr["options_seen"]

            runs = [res for _prefix, res in explore(once, limit=case["dfs"])]
            r = runs[0]
        else:
            r = _run_nest(case)
        hit = [l for l in case["fails"] if r["calls"][l] > 0]
        depth = max((l.count(".") for l in hit), default=0)
        stats = {"nest": 1, "fault_hit": 1 if hit else 0, f"outcome:{r['outcome']}": 1,
                 f"nest_depth_of_fault:{depth}": 1 if hit else 0, f"nest_depth:{_depth(case['prog'])}": 1,
                 "fault_on_exec": sum(1 for l in hit if l in case["exec"]),
                 "macro_on_exec": sum(1 for l in case["exec"] if l not in r["calls"]),
                 "late_completions": len(r["trace"]), "prerun": int(bool(case.get("prerun"))),
                 "several_faults": int(len(hit) > 1), "history_runs": len(r.get("more", ())),
                 "suppressed": int(bool(case.get("suppress"))), "outer_macro": int(case.get("outer") == "macro"),
                 "nested_fine": int(bool(case.get("nfine"))), "unstorable_graph": int(bool(case.get("lock"))),
                 "cache_hits_in_reruns": sum(len(x["hits"]) for x in r.get("more", ())),
                 "nested_fine_halves_below_top": sum(1 for t in r["trace"] if case.get("nfine") and "." in t.split(":")[-1]),
                 **{f"exc:{case['fails'][l]}": 1 for l in hit},
                 **({"nest_dfs_cases": 1, "nest_dfs_schedules": len(runs)} if runs else {})}
        return {"obs": _nest_obs(case, r), "r": r, "runs": runs or [r], "stats": stats}
    if case["kind"] == "single":
        r = _single(case)
        return {"obs": [str(sorted(r.items()))], "r": r, "runs": [r],
                "stats": {"single": 1, f"suppress:{case['suppress']}": 1}}
    if case.get("fine"):
        if case.get("dfs"):
            from .execsim import explore

            runs = [res for _p, res in explore(lambda ch: _run_fine(case, ch), limit=case["dfs"])]
        else:
            runs = [_run_fine(case, list(case["choices"]))[0]]
        r = runs[0]
        hit = [i for i in case["fails"] if i in r["calls"]]
        return {"obs": _fine_obs(case, r), "r": r, "runs": runs,
                "stats": {"fine_fault_cases": 1, "fault_hit": 1 if hit else 0, "fine_schedules": len(runs),
                          "fine_failing_callback_parked": sum(x["parked_failing"] for x in runs),
                          f"outcome:{r['outcome']}": 1}}
    if case.get("force_starters"):
        # hash-seed independent version of the "failing starting node" scenario: hand-wired flow
        r = _forced(case)
    else:
        r = _run_dag(case)
    hit = [i for i in case["fails"] if i in r["calls"] or r["flags"][i][0]]
    stats = {"dag": 1, "fault_hit": 1 if hit else 0, f"outcome:{r['outcome']}": 1,
             "fault_on_exec": sum(1 for i in hit if i in case["exec"]), "prerun": int(bool(case.get("prerun")))}
    return {"obs": c01.obs_lines(case, r) if not case.get("prerun") and not case.get("force_starters") else [],
            "r": r, "runs": [r], "stats": stats}


def _forced(case):
    """workflow with automate_execution=False and explicit starting nodes in the given order"""
    from pyiron_workflow import Workflow

    from . import nodes
    from .execsim import CtlExecutor, Instrument, Scheduler, Stuck, term_str

    nodes.reset()
    wf = Workflow("w", autoload=None, automate_execution=False)
    ns = {}
    for i in case["order"]:
        ns[i] = nodes.term_node(i, label=f"n{i}")
        wf.add_child(ns[i])
    wf.starting_nodes = [ns[i] for i in case["force_starters"]]
    for i in case["fails"]:
        nodes.FAIL[i] = {0}
    sched = Scheduler([], ident=lambda owner: owner.label[1:])
    exe = CtlExecutor(sched, "ctl")
    for i in case["exec"]:
        ns[i].executor = exe
    outcome, exc = "ok", None
    with Instrument(sched):
        try:
            wf.run()
        except Stuck as e:
            outcome = f"stuck:{e}"
        except BaseException as e:  # noqa: BLE001
            outcome = f"raised:{type(e).__name__}"
            exc = e
    lab = lambda l: int(l[1:])  # noqa: E731
    return {
        "outcome": outcome, "exc_chain": _chain(exc), "before": None, "wiring": {}, "trace": sched.trace,
        "exec_log": [lab(l) for l in wf.provenance_by_execution],
        "done_log": [lab(l) for l in wf.provenance_by_completion], "events": [],
        "flags": {i: (bool(ns[i].running), bool(ns[i].failed)) for i in ns},
        "outs": {i: term_str(ns[i].outputs.o.value) for i in ns},
        "calls": [c[0] for c in nodes.CALL_LOG], "wf_running": bool(wf.running), "wf_failed": bool(wf.failed),
        "late_jobs": len(sched.jobs), "ret": None, "open_outputs": {},
    }


def nontrivial(case, impl):
    return case["kind"] == "single" or impl["stats"].get("fault_hit", 0) > 0


def model_input(case, impl):
    if "r" not in impl or case.get("base") or case["kind"] in ("rx", "pjoin"):  # harness error / outside the model
        return ["n 0", "run"]
    if case["kind"] == "pchain":
        return _pchain_model_input(case, impl["r"])
    if case["kind"] == "pull":
        r = impl["r"]
        return _pull_model_input(case, r) if (r["chain"] is not None and not r["refused"]) else ["n 0", "run"]
    if case["kind"] == "ktab":
        return [f"ktab {_kind_of(case['exc'])} " + " ".join("1" if e else "0" for e in case["execs"] + [False])]
    if case["kind"] == "flow":
        # local flows on Signal.compositeRun, flows with executor children on FlowExec.xrun
        return _flow_model_input(case, impl["r"])
    if case["kind"] == "nest":
        lines = []
        for k, r in enumerate(impl["runs"]):
            if k:
                lines.append("reset")
            lines.extend(_nest_model_input(case, r))
            for step, rk in zip(case.get("history", ()), r.get("more", ())):
                for p, pr in _walk(case["prog"]):
                    n = pr["n"]
                    lines.append(f"sel {_pstr(p)}")
                    lines.append("exec " + " ".join(str(i) for i in range(n) if _pstr(p + (i,)) in step["exec"]))
                    lines.append("fails " + " ".join(str(i) for i in range(n) if _pstr(p + (i,)) in step["fails"]))
                    lines.append("hits " + " ".join(str(i) for i in range(n) if _pstr(p + (i,)) in rk["hits"]))
                lines.append("nsched " + " ".join(rk["trace"]))
                lines.append("nrerun")
                lines.append(_ncycle(case))
        return lines
    if case["kind"] != "dag" or case.get("prerun") or case.get("force_starters"):
        return ["n 0", "run"]
    if case.get("fine"):
        lines = []
        for k, r in enumerate(impl["runs"]):
            if k:
                lines.append("reset")
            lines.extend(c01._model_input_one(case, r))
        return lines
    return c01._model_input_one(case, impl["r"])


def diff(case, impl, model):
    if case["kind"] == "pjoin":
        return None  # oracle only (the Lean content is `pushA`: theorem + witness)
    if case["kind"] == "pchain":
        mine = _pchain_obs(case, impl["r"])
        if mine == list(model):
            return None
        k = next((k for k, (a, b) in enumerate(zip(mine, model)) if a != b), min(len(mine), len(model)))
        return {"index": k, "impl": mine[k] if k < len(mine) else None, "model": model[k] if k < len(model) else None}
    if case["kind"] == "pull":
        r = impl["r"]
        if r["chain"] is None or r["refused"]:
            return None
        mine = _pull_obs(case, r)
        theirs = [l for l in model if l.split(" ")[1] in ("exec", "failed", "seen")]
        if mine == theirs:
            return None
        k = next((k for k, (a, b) in enumerate(zip(mine, theirs)) if a != b), min(len(mine), len(theirs)))
        return {"index": k, "impl": mine[k] if k < len(mine) else None, "model": theirs[k] if k < len(theirs) else None,
                "chain": r["chain"]}
    if case["kind"] == "rx":
        return None  # real pools: the schedule is the operating system's; judged by the oracle
    if case["kind"] == "ktab":
        # the tree must behave as the model's `head` configuration or as the `proposed` one
        best = None
        for tag in ("H", "P"):
            mine = _ktab_obs(impl["r"], tag)
            theirs = [l for l in model if l.startswith(f"K {tag} ")]
            if mine == theirs:
                STATS_VARIANT["K" + tag] = STATS_VARIANT.get("K" + tag, 0) + 1
                return None
            k = next((k for k, (a, b) in enumerate(zip(mine, theirs)) if a != b), 0)
            if best is None:
                best = {"index": k, "impl": mine[k] if k < len(mine) else None,
                        "model": theirs[k] if k < len(theirs) else None, "variant": tag}
        return best
    if case["kind"] == "flow":
        mine = _flow_obs(case, impl["r"])
        if mine == list(model):
            return None
        k = next((k for k, (a, b) in enumerate(zip(mine, model)) if a != b), min(len(mine), len(model)))
        return {"index": k, "impl": mine[k] if k < len(mine) else None, "model": model[k] if k < len(model) else None}
    if case["kind"] == "nest" and case.get("base"):
        return None  # interrupts are outside the model (they are not collected, they propagate as they are)
    if case["kind"] == "nest":
        chunks = [[]]
        for l in model:
            if l == "reset":
                chunks.append([])
            else:
                chunks[-1].append(l)
        if len(chunks) != len(impl["runs"]):
            return {"index": -1, "impl": f"{len(impl['runs'])} runs", "model": f"{len(chunks)} chunks"}
        for r, ch in zip(impl["runs"], chunks):
            mine = _nest_obs(case, r)
            for k, rk in enumerate(r.get("more", ())):
                mine = mine + ["rerun"] + _nest_obs(case, rk)[1:]
            if case.get("lock"):
                # the tree behaves as the unguarded (`O`) or as the guarded (`Og`) recovery save
                plain = [l for l in ch if not l.startswith("Og ")]
                guarded = [l.replace("Og ", "O ", 1) if l.startswith("Og ") else l for l in ch if not l.startswith("O ")]
                if mine == plain or mine == guarded:
                    STATS_VARIANT["Og" if mine == guarded else "O"] = STATS_VARIANT.get("Og" if mine == guarded else "O", 0) + 1
                    continue
                ch = plain
            if mine == ch:
                continue
            for k, (a, b) in enumerate(zip(mine, ch)):
                if a != b:
                    return {"index": k, "impl": a, "model": b, "trace": r["trace"]}
            return {"index": min(len(mine), len(ch)), "impl": f"<{len(mine)} lines>", "model": f"<{len(ch)} lines>",
                    "trace": r["trace"]}
        return None
    if case["kind"] != "dag" or case.get("prerun") or case.get("force_starters"):
        return None
    if case.get("fine"):
        chunks = [[]]
        for l in model:
            if l == "reset":
                chunks.append([])
            else:
                chunks[-1].append(l)
        if len(chunks) != len(impl["runs"]):
            return {"index": -1, "impl": f"{len(impl['runs'])} runs", "model": f"{len(chunks)} chunks"}
        for r, ch in zip(impl["runs"], chunks):
            mine = _fine_obs(case, r)
            if mine != ch:
                k = next((k for k, (a, b) in enumerate(zip(mine, ch)) if a != b), min(len(mine), len(ch)))
                return {"index": k, "impl": mine[k] if k < len(mine) else None, "model": ch[k] if k < len(ch) else None,
                        "trace": r["trace"]}
        return None
    return c01._diff_one(case, impl["obs"], model)


def _downstream(case, roots):
    out = set()
    changed = True
    while changed:
        changed = False
        for i in range(case["n"]):
            if i in out or i in roots:
                continue
            ups = {j for sl in case["slots"][str(i)] for j in sl}
            if ups & (out | set(roots)):
                out.add(i)
                changed = True
    return out


def oracle(case, impl):
    r = impl["r"]
    fails = []
    if case["kind"] == "nest":
        for rr in impl["runs"]:
            f = _nest_oracle(case, rr)
            if f:
                return f
            # every later run of the history is judged by the same clauses, with ITS fault set
            for k, (step, rk) in enumerate(zip(case.get("history", ()), rr.get("more", ()))):
                f = _nest_oracle({**case, "fails": step["fails"], "exec": step["exec"]}, rk)
                if f:
                    return [{**x, "detail": f"run {k + 2} of the history: " + x["detail"],
                             "signature": {**x["signature"], "rerun": True}} for x in f]
            if len(rr.get("more", ())) < len(case.get("history", ())):
                return [{"clause": "rerun-not-possible", "detail": "the last run left something running",
                         "signature": {"clause": "rerun-not-possible", "kind": "nest"}}]
        return []
    if case["kind"] == "flow":
        return _flow_oracle(case, r)
    if case["kind"] == "ktab":
        return _ktab_oracle(case, r)
    if case["kind"] == "rx":
        return _rx_oracle(case, r)
    if case["kind"] == "pull":
        return _pull_oracle(case, r)
    if case["kind"] == "pchain":
        return _pchain_oracle(case, r)
    if case["kind"] == "pjoin":
        return _pjoin_oracle(case, r)
    if case["kind"] == "single":
        sup = case["suppress"]
        s = lambda c: {"clause": c, "kind": "single", "suppress": sup}  # noqa: E731
        if not sup and r["raised"] != "Boom":
            fails.append({"clause": "error-not-raised", "detail": str(r), "signature": s("raise")})
        if sup and r["raised"] is not None:
            fails.append({"clause": "error-raised-despite-suppression", "detail": str(r), "signature": s("suppress")})
        if r["flags"] != (False, True):
            fails.append({"clause": "flags", "detail": str(r), "signature": s("flags")})
        expect = r["before"] if r["before"] is not None else "ND"
        if r["out"] != expect:
            fails.append({"clause": "outputs-not-kept", "detail": f"{r['out']} vs previous {expect}",
                          "signature": s("outputs-kept")})
        if r["listener_calls"] != 1:
            fails.append({"clause": "failed-signal-not-exactly-once", "detail": f"listener ran {r['listener_calls']} times",
                          "signature": s("failed-once")})
        if r["after_calls"] != 0:
            fails.append({"clause": "completion-announced-after-failure", "detail": str(r), "signature": s("no-ran")})
        return fails

    if case.get("fine") and not impl.get("_one"):
        for rr in impl["runs"]:
            f = oracle(case, {"r": rr, "runs": [rr], "_one": True})
            if f:
                return f
        return []
    hit = [i for i in case["fails"] if i in r["calls"]]
    on_exec = any(i in case["exec"] for i in hit)
    starter = bool(case.get("force_starters")) or any(
        not any(case["slots"][str(i)]) for i in hit)
    s = lambda c: {"clause": c, "kind": "dag", "failing_on_exec": on_exec, "failing_starter": starter}  # noqa: E731
    if not hit:
        return fails
    if r["outcome"].startswith("stuck"):
        return [{"clause": "run-does-not-terminate", "detail": r["outcome"], "signature": s("terminate")}]
    # (a) the error reaches the caller, carrying the original exception
    if not r["outcome"].startswith("raised:"):
        fails.append({"clause": "error-does-not-reach-caller", "detail": f"run returned normally; failing nodes {hit}",
                      "signature": s("reaches-caller")})
    elif len(hit) == 1 and "Boom" not in r["exc_chain"]:
        fails.append({"clause": "original-exception-lost", "detail": str(r["exc_chain"]), "signature": s("cause")})
    # (b) statuses
    for i in hit:
        run, failed = r["flags"][i]
        if run or not failed:
            fails.append({"clause": "failing-node-flags", "detail": f"node {i}: running={run} failed={failed}",
                          "signature": s("node-flags")})
    if r["wf_running"] or not r["wf_failed"]:
        fails.append({"clause": "composite-flags", "detail": f"workflow running={r['wf_running']} failed={r['wf_failed']}",
                      "signature": s("composite-flags")})
    if any(run for run, _f in r["flags"].values()) or r["late_jobs"]:
        fails.append({"clause": "node-left-running", "detail": f"{r['flags']} late_jobs={r['late_jobs']}",
                      "signature": s("left-running")})
    if r.get("fine") and (r["parked"] or r["unstarted_jobs"] or r["running_children"] or r["late"]):
        fails.append({"clause": "node-left-running",
                      "detail": f"callbacks half-way={r['parked']} jobs={r['unstarted_jobs']} "
                                f"running_children={r['running_children']} signals fired after the run={r['late']}",
                      "signature": {**s("left-running"), "fine": True}})
    # (c) outputs kept
    for i in hit:
        expect = r["before"][i] if r.get("before") else "ND"
        if r["outs"][i] != expect:
            fails.append({"clause": "outputs-not-kept", "detail": f"node {i}: {r['outs'][i]} vs previous {expect}",
                          "signature": s("outputs-kept")})
    # (d) nothing downstream of a failed node executes
    for i in _downstream(case, hit):
        if i in r["calls"]:
            fails.append({"clause": "downstream-of-failure-executed", "detail": f"node {i}; calls {r['calls']}",
                          "signature": s("no-downstream")})
    return fails


def shrink_candidates(case):
    if case["kind"] == "nest":
        yield from _nest_shrink(case)
        return
    if case["kind"] == "flow":
        yield from _flow_shrink(case)
        return
    if case["kind"] != "dag":
        return
    for c in c01.shrink_candidates(case):
        if all(f < c["n"] for f in c["fails"]):
            yield c
    if case.get("prerun"):
        yield {**case, "prerun": False}
    if len(case["fails"]) > 1:
        for f in case["fails"]:
            yield {**case, "fails": [x for x in case["fails"] if x != f]}


# =====================================================================================================
# nested macros x exception classes (kind "nest")
# =====================================================================================================
#
# case = {"kind": "nest", "prog": prog, "fails": {"<leaf path>": "<key of nodes_c06.FAMILY>"},
#         "exec": ["<path of a leaf or macro handed to the controllable executor>"], "mode": "ctl"|"ctl-cloudpickle",
#         "choices": [...], "prerun": bool}
# prog  = {"n", "order", "slots": {"i": [slot, slot, slot]}, "kids": {"i": prog}, "gid": {"i": term index}, "ret": i}
# paths are child indices from the workflow down, "2.1.0"; the workflow itself is "r".


def _walk(prog, path=()):
    """(path, prog) of every composite, outermost first, children in index order"""
    yield path, prog
    for i in sorted(int(k) for k in prog["kids"]):
        yield from _walk(prog["kids"][str(i)], path + (i,))


def _pstr(path):
    return ".".join(map(str, path)) if path else "r"


def _ppath(s):
    return () if s == "r" else tuple(int(x) for x in s.split("."))


def _leaves(prog, path=()):
    for i in range(prog["n"]):
        if str(i) in prog["kids"]:
            yield from _leaves(prog["kids"][str(i)], path + (i,))
        else:
            yield path + (i,)


def _sib_ups(prog, i):
    return [j for sl in prog["slots"][str(i)] if not isinstance(sl, str) for j in sl]


def _gen_prog(rng, depth, budget, n_max, p_macro, is_macro):
    """a composite body; `budget` = [leaves still available]"""
    n = rng.randint(2, n_max)
    order, slots = c01.gen_dag(rng, n, rng.choice([0.35, 0.6]))
    lonely = None
    if rng.random() < 0.5:
        # an independent child (no upstream, nobody downstream): the sibling that can be in flight on the executor
        # at any moment of the others' run
        lonely = n
        n += 1
        order.insert(rng.randrange(len(order) + 1), lonely)
        slots[str(lonely)] = [[], [], []]
    kids, gid = {}, {}
    # which children are macros: bias towards children WITH upstream (signal-started) but allow starters
    for i in range(n):
        if depth > 0 and budget[0] > 6 and rng.random() < p_macro:
            kids[str(i)] = _gen_prog(rng, depth - 1, budget, max(2, n_max - 1), p_macro * 0.8, True)
    for i in range(n):
        if str(i) not in kids:
            gid[str(i)] = None
            budget[0] -= 1
    if is_macro:
        # link each of the macro's inputs to at most one free slot
        free = [(i, k) for i in range(n) for k in range(3) if not slots[str(i)][k]]
        rng.shuffle(free)
        for name, (i, k) in zip("abc", free[: rng.randint(0, 3)]):
            slots[str(i)][k] = name
    used = {j for i in range(n) for j in _sib_ups({"slots": slots}, i)}
    sinks = [i for i in range(n) if i not in used]
    return {"n": n, "order": order, "slots": slots, "kids": kids, "gid": gid, "ret": rng.choice(sinks),
            **({"lonely": lonely} if lonely is not None else {})}


def _number(prog):
    k = 0
    for _path, p in _walk(prog):
        for i in range(p["n"]):
            if str(i) not in p["kids"]:
                p["gid"][str(i)] = k
                k += 1
    return k


def _depth(prog):
    return 1 + max((_depth(k) for k in prog["kids"].values()), default=-1)


def gen_nest_case(rng, depth, classes, n_max=4, base=False):
    from . import nodes_c06 as N

    while True:
        budget = [40]
        prog = _gen_prog(rng, depth, budget, n_max, 0.45, False)
        if _number(prog) <= N.N_TERM and (depth == 0 or prog["kids"]):
            break
    leaves = [_pstr(p) for p in _leaves(prog)]
    comps = [_pstr(p) for p, _ in _walk(prog) if p]
    # failing leaves: prefer deep ones, sometimes two or three
    k = rng.choice([1, 1, 1, 1, 2, 2, 3])
    deep = sorted(leaves, key=lambda s: -s.count("."))
    pool = deep[: max(2, len(deep) // 2)] if rng.random() < 0.6 else leaves
    fl = rng.sample(pool, min(k, len(pool)))
    fails = {l: rng.choice(classes) for l in fl}
    lonely = {_pstr(p + (pr["lonely"],)) for p, pr in _walk(prog) if "lonely" in pr}
    ex = [l for l in leaves if rng.random() < (0.8 if l in lonely else 0.3)] + [
        c for c in comps if rng.random() < (0.5 if c in lonely else 0.2)]
    # 0 = "nobody completes at this emission"; an empty list = the laziest schedule: a job completes only when
    # some loop has nothing else to do
    lazy = rng.random() < 0.4
    # a re-run HISTORY: the same tree run again (failed flags cleared) with another fault set, other executors,
    # another schedule — once or twice
    history = []
    if not base and rng.random() < 0.4:
        for _ in range(rng.choice([1, 1, 2])):
            fl2 = rng.sample(leaves, min(rng.choice([0, 1, 1, 1, 2]), len(leaves)))
            history.append({"fails": {l: rng.choice(classes) for l in fl2},
                            "exec": sorted([l for l in leaves if rng.random() < (0.6 if l in lonely else 0.25)] +
                                           [c for c in comps if rng.random() < 0.2]),
                            "choices": [] if rng.random() < 0.4 else [rng.choice([0, 0, 0, 1, 2, 3]) for _ in range(60)]})
    hist = {"history": history} if history else {}
    if history and rng.random() < 0.45:
        # caching ON: nodes that completed before answer from their cache; a node that is to fail gets an input edited
        hist["cache"] = True
        for st_ in history:
            st_["edit"] = sorted(st_["fails"])
    if not base and rng.random() < 0.3:
        hist["suppress"] = True
    free = [_pstr(p + (i,)) for p, pr in _walk(prog) for i in range(pr["n"]) if str(i) not in pr["kids"]
            and any(isinstance(sl, list) and not sl for sl in pr["slots"][str(i)])]
    if not base and not history and free and rng.random() < 0.12:
        hist["lock"] = rng.choice(free)  # an unstorable value in a free input somewhere in the graph
    if not base and rng.random() < 0.3:
        hist["outer"] = "macro"
    return {"kind": "nest", **hist, "prog": prog, "fails": fails, "exec": sorted(ex),
            "mode": "ctl" if hist.get("lock") else rng.choice(["ctl", "ctl", "ctl-cloudpickle"]),
            "choices": [] if lazy else [rng.choice([0, 0, 0, 1, 2, 3]) for _ in range(60)],
            # (with caching on, the history itself is the re-run: no separate pre-run)
            "prerun": rng.random() < 0.3 and not hist.get("cache"), **({"base": True} if base else {})}


def _chain_prog(depth, pos):
    """a fixed small shape: chain a -> X -> z at every level, X = the next level (or the failing leaf);
    pos: 'start' (the failing leaf is a starting node of the innermost composite) | 'mid' (signal-started)"""
    def level(d):
        if d == 0:
            if pos == "start":
                return {"n": 2, "order": [0, 1], "slots": {"0": [[], [], []], "1": [[0], [], []]}, "kids": {},
                        "gid": {"0": None, "1": None}, "ret": 1}
            return {"n": 3, "order": [0, 1, 2], "slots": {"0": [[], [], []], "1": [[0], [], []], "2": [[1], [], []]},
                    "kids": {}, "gid": {"0": None, "1": None, "2": None}, "ret": 2}
        return {"n": 4, "order": [0, 1, 2, 3],
                "slots": {"0": [[], [], []], "1": [[0], [], []], "2": [[1], [], []], "3": [[], [], []]},
                "kids": {"1": level(d - 1)}, "gid": {"0": None, "2": None, "3": None}, "ret": 2}
    prog = level(depth)
    _number(prog)
    return prog


def class_sweep(classes, depths, positions, where):
    """every class x depth x position of the failing leaf x (local | on the executor), a sibling in flight"""
    for key in classes:
        for depth in depths:
            for pos in positions:
                for on_exec in where:
                    prog = _chain_prog(depth, pos)
                    leaf = "1." * depth + ("0" if pos == "start" else "1")
                    ex = ([leaf] if on_exec else []) + (["3"] if depth else [])
                    yield {"kind": "nest", "prog": prog, "fails": {leaf: key}, "exec": ex, "mode": "ctl",
                           "choices": [], "prerun": False}


def _build_nest(case):
    from pyiron_workflow import Workflow
    from pyiron_workflow.nodes.composite import Composite

    from . import nodes_c06 as N

    N.reset()
    if case.get("outer") == "macro":
        # the outermost composite is a parentless macro (it fires its own `ran` / `failed` signals)
        N.PENDING.append(case["prog"])
        try:
            wf = N.NestMacro(label="w")
        finally:
            N.PENDING.pop()
    else:
        wf = Workflow("w", autoload=None)
        N.populate(wf, case["prog"])
    wf.use_cache = False
    # listeners on the outermost composite's own signals
    lis, aft = N.term_node(N.N_TERM - 1, label="lis"), N.term_node(N.N_TERM - 2, label="aft")
    lis.use_cache = aft.use_cache = False
    wf.signals.output.failed >> lis.signals.input.run
    wf.signals.output.ran >> aft.signals.input.run
    wf._c06_listeners = (lis, aft)
    nodes = {(): wf}

    def rec(owner, prog, path):
        for i in range(prog["n"]):
            ch = owner.children[f"n{i}"]
            nodes[path + (i,)] = ch
            # caching only where the case asks for it, and only on function nodes (a composite answering from its
            # cache runs none of its children: C05's subject)
            ch.use_cache = bool(case.get("cache")) and str(i) not in prog["kids"]
            if str(i) in prog["kids"]:
                rec(ch, prog["kids"][str(i)], path + (i,))

    rec(wf, case["prog"], ())
    return wf, nodes


def _node_path(node):
    # "/w/n2/n1" -> (2, 1)
    parts = node.full_label.strip("/").split("/")[1:]
    return tuple(int(x[1:]) for x in parts)


def _run_job_c06(job):
    """execsim._run_job, but faithful to a real pool for exceptions that are not `Exception`s: the pool stores them
    in the future; if a done-callback lets one escape, that ends the WORKER (thread), never the caller of the run"""
    import pickle

    import cloudpickle

    owner, fut, fn, args, kwargs, mode = job
    fut.set_running_or_notify_cancel()
    try:
        if mode == "ctl":
            res = fn(*args, **kwargs)
        else:
            dumps, loads = (pickle.dumps, pickle.loads) if mode == "ctl-pickle" else (cloudpickle.dumps, cloudpickle.loads)
            fn2, args2, kwargs2 = loads(dumps((fn, args, kwargs)))
            res = loads(dumps(fn2(*args2, **kwargs2)))
    except BaseException as e:  # noqa: BLE001
        from .execsim import Stuck

        if isinstance(e, Stuck) or type(e).__name__ == "CaseTimeout":
            raise
        try:
            fut.set_exception(e)
        except BaseException as e2:  # noqa: BLE001
            if e2 is not e:
                raise
    else:
        fut.set_result(res)


def _Sched(choices, ident, late=()):
    """execsim.Scheduler with (1) a tolerant idle point: an idle `sleep` with nothing outstanding is just a sleep (the
    real loop re-tests its condition; a loop that keeps sleeping runs into the budget) and (2) `_run_job_c06`"""
    from .execsim import Scheduler, Stuck

    class S(Scheduler):
        spurious = 0

        def at_emit(self):
            self.events += 1
            self.points += 1
            if self.points > self.max_points:
                raise Stuck("step budget exceeded")
            if self.jobs:
                c = self._choose(len(self.jobs) + 1)
                if c:
                    job = self.jobs.pop(c - 1)
                    self.trace.append(f"{self.events}:{self.ident(job[0])}")
                    _run_job_c06(job)

        def at_sleep(self, *_a):
            self.points += 1
            if self.points > self.max_points:
                raise Stuck("step budget exceeded")
            if not self.jobs:
                self.spurious += 1
                if self.spurious > 50:
                    raise Stuck("idle with nothing outstanding")
                return
            # jobs named in `late` complete only when nothing else is outstanding (a sibling that stays in flight)
            cands = [k for k, j in enumerate(self.jobs) if self.ident(j[0]) not in late] or list(range(len(self.jobs)))
            c = self._choose(len(cands))
            job = self.jobs.pop(cands[c])
            self.trace.append(f"s:{self.ident(job[0])}")
            _run_job_c06(job)

        def drain(self):
            n = 0
            while self.jobs and n < 100:
                _run_job_c06(self.jobs.pop(0))
                n += 1
            return n

    return S(choices, ident=ident)


def _chain_tokens(exc, N, gid_path):
    """the cause chain the caller sees, in the driver's vocabulary"""
    from pyiron_workflow.nodes.composite import FailedChildError

    if exc is None:
        return "-"
    toks, seen = [], 0
    by_obj = {id(e): g for g, e in N.RAISED.items()}
    while exc is not None and seen < 12:
        seen += 1
        if id(exc) in by_obj:
            toks.append("orig:" + _pstr(gid_path[by_obj[id(exc)]]))
            return " ".join(toks)
        if type(exc) is FailedChildError:
            toks.append("fc")
        else:
            toks.append("other:" + type(exc).__name__)
        exc = exc.__cause__
    toks.append("none")
    return " ".join(toks)


def _run_nest(case):
    import pyiron_workflow.nodes.composite as comp

    from . import nodes_c06 as N
    from .execsim import CtlExecutor, Instrument, Stuck, term_str

    prog = case["prog"]
    wf, nodes = _build_nest(case)
    composites = [p for p, _ in _walk(prog)]
    progs = dict(_walk(prog))
    gid_path = {}
    for p, pr in progs.items():
        for i, g in pr["gid"].items():
            gid_path[g] = p + (int(i),)
    leaf_gid = {v: k for k, v in gid_path.items()}
    before = None
    if case.get("prerun"):
        wf.run()
        before = {p: term_str(nodes[p].outputs.o.value) for p in leaf_gid}
        N.CALL_LOG.clear()
        N.EPOCH[0] = 1
    if case.get("lock"):
        # the graph holds a value that cannot be stored (here: pickled): the root's recovery save will fail
        import threading

        pl = _ppath(case["lock"])
        for name, sl in zip("abc", progs[pl[:-1]]["slots"][str(pl[-1])]):
            if isinstance(sl, list) and not sl:
                nodes[pl].inputs[name].value = _Unstorable()
                break
    first = _nest_one_run(case, case, wf, nodes, progs, composites, gid_path, leaf_gid, before)
    more, last = [], first
    for step in case.get("history", ()):
        # the next run of the history: possible only if the last one left nobody running
        if any(run for run, _f in last["flags"].values()) or last["late_jobs"] or last["outcome"].startswith("stuck"):
            break
        for n in nodes.values():
            n.failed = False  # as users do before they try again
            n.executor = None
        N.CALL_LOG.clear()
        N.EXC.clear()
        N.RAISED.clear()
        N.EPOCH[0] += 1
        for l in step.get("edit", ()):
            # an input only this node sees is edited (its cache, if any, no longer answers)
            pe = _ppath(l)
            pr = progs[pe[:-1]]
            for name, sl in zip("abc", pr["slots"][str(pe[-1])]):
                if isinstance(sl, list) and not sl:
                    nodes[pe].inputs[name].value = f"e{N.EPOCH[0]}"
                    break
        prev = {_ppath(k): v for k, v in last["outs"].items()}
        last = _nest_one_run(case, step, wf, nodes, progs, composites, gid_path, leaf_gid, prev)
        more.append(last)
    first["more"] = more
    return first


class _Unstorable:
    """an input value that cannot be pickled (it holds a lock); renders like the default in terms"""

    def __init__(self):
        import threading

        self.lock = threading.Lock()

    def __repr__(self):
        return "'u'"

    def __eq__(self, other):
        return isinstance(other, _Unstorable)

    def __hash__(self):
        return 7


def _nest_one_run(case, step, wf, nodes, progs, composites, gid_path, leaf_gid, before):
    """one run of the outermost composite with the fault table / executors / schedule of `step`"""
    import pyiron_workflow.nodes.composite as comp

    from . import nodes_c06 as N
    from .execsim import CtlExecutor, Instrument, Stuck, term_str

    for l, key in step["fails"].items():
        N.EXC[leaf_gid[_ppath(l)]] = key
    fine = bool(case.get("nfine"))
    if fine:
        # callbacks of executor children on their own threads, stepped in two halves (macros run locally)
        from .execfine import FineInstrument, FineScheduler

        sched = FineScheduler(list(step["choices"]), ident=lambda owner: _pstr(_node_path(owner)))
        Instrument = FineInstrument  # noqa: N806
    else:
        sched = _Sched(list(step["choices"]), ident=lambda owner: _pstr(_node_path(owner)), late=set(case.get("late", ())))
    exe = CtlExecutor(sched, "ctl" if fine else case.get("mode", "ctl"))
    exe_plain = CtlExecutor(sched, "ctl")
    for l in step["exec"]:
        p = _ppath(l)
        nodes[p].executor = exe if p in leaf_gid else exe_plain
    wiring = {}

    def observe(c):
        p = _node_path(c) if c is not wf else ()
        pr = progs[p]
        kids = {i: c.children[f"n{i}"] for i in range(pr["n"])}
        return {"starters": [int(n.label[1:]) for n in c.starting_nodes],
                "down": {i: [int(x.owner.label[1:]) for x in kids[i].signals.output.ran.connections] for i in kids}}

    outcome, exc = "ok", None
    with Instrument(sched):
        orig_on_run = comp.Composite._on_run

        body = {}

        def on_run(self_):
            p = () if self_ is wf else _node_path(self_)
            if p not in wiring:
                wiring[p] = observe(self_)
            if self_ is not wf:
                return orig_on_run(self_)
            try:  # what the outermost composite's own loop raises (a suppressing caller does not get to see it)
                return orig_on_run(self_)
            except BaseException as e:  # noqa: BLE001
                body["exc"] = e
                raise

        comp.Composite._on_run = on_run
        ret = "n/a"
        try:
            ret = wf.run(raise_run_exceptions=not case.get("suppress", False))
        except Stuck as e:
            outcome = f"stuck:{e}"
        except BaseException as e:  # noqa: BLE001
            outcome = f"raised:{type(e).__name__}"
            exc = e
        finally:
            comp.Composite._on_run = orig_on_run
        for p in composites:
            if p not in wiring:  # a macro that never ran: its wiring is static
                wiring[p] = observe(nodes[p])
        calls = list(N.CALL_LOG)
        # the state at the moment the run has returned to its caller
        r = {
            "outcome": outcome,
            # what the outermost composite's own loop raised (also when the caller asked for suppression, and when
            # something else came out of the epilogue instead)
            "chain": _chain_tokens(body.get("exc", exc), N, gid_path),
            "chain_types": c06_chain(exc),
            "raised_is_orig": {_pstr(gid_path[g]): any(e is x for x in _chain_objs(exc)) for g, e in N.RAISED.items()},
            "raised_types": {_pstr(gid_path[g]): type(e).__name__ for g, e in N.RAISED.items()},
            "trace": list(sched.trace), "spurious_sleeps": getattr(sched, "spurious", 0),
            "parked": [cb.k for cb in getattr(sched, "parked", [])],
            "wiring": {_pstr(p): w for p, w in wiring.items()},
            "flags": {_pstr(p): (bool(n.running), bool(n.failed)) for p, n in nodes.items()},
            "running_children": {_pstr(p): [int(l[1:]) for l in getattr(nodes[p], "running_children", [])]
                                 for p in composites},
            "exec_log": {_pstr(p): [int(l[1:]) for l in getattr(nodes[p], "provenance_by_execution", [])]
                         for p in composites},
            "done_log": {_pstr(p): [int(l[1:]) for l in getattr(nodes[p], "provenance_by_completion", [])]
                         for p in composites},
            "outs": {_pstr(p): term_str(nodes[p].outputs.o.value) for p in leaf_gid},
            "before": None if before is None else {_pstr(p): v for p, v in before.items()},
            "calls": {_pstr(p): calls.count(g) for p, g in leaf_gid.items()},
            "late_jobs": [sched.ident(j[0]) for j in sched.jobs],
            # function nodes that answered from their cache: started and finished with the parent, function not invoked
            "hits": sorted(_pstr(p) for p, g in leaf_gid.items()
                           if calls.count(g) == 0 and not nodes[p].running and not nodes[p].failed
                           and p[-1] in [int(l[1:]) for l in getattr(nodes[p[:-1]], "provenance_by_execution", [])]
                           and case.get("cache")),
            "options_seen": list(sched.options_seen),
            "recovery_file": any(f.startswith("recovery") for _d, _s, fs in __import__("os").walk(".") for f in fs),
            # raised-save: what came out is not what the loop raised, but something raised while handling it (the loop's
            # exception is its __context__): the epilogue — the recovery save — failed
            "ret": ("raised-save" if exc is not None and "exc" in body and exc is not body["exc"]
                    and exc.__context__ is body["exc"] else "raised" if exc is not None
                    else "none" if ret is None else "value"),
            "lis_calls": calls.count(N.N_TERM - 1), "aft_calls": calls.count(N.N_TERM - 2),
        }
        # what the outstanding jobs do when they complete after the run has returned (still under the scheduler:
        # a macro's late job runs its loop)
        import os as _os

        for _d, _s, _fs in list(_os.walk(".")):
            for _f in _fs:
                if _f.startswith("recovery"):
                    _os.remove(_os.path.join(_d, _f))
        n_late = 0
        try:
            if fine:
                n_late = sched.release_all()
                r["late_tokens"] = [t for t in sched.tokens if t.startswith("L:")]
            else:
                n_late = sched.drain() if sched.jobs else 0
        except BaseException:  # noqa: BLE001
            n_late = -1
        r["calls_after_late"] = {_pstr(p): N.CALL_LOG.count(g) for p, g in leaf_gid.items()} if n_late else None
    return r


def _chain_objs(exc):
    out, seen = [], 0
    while exc is not None and seen < 12:
        out.append(exc)
        exc = exc.__cause__  # the CAUSE chain: what was raised `from` what (an implicit __context__ is not a cause)
        seen += 1
    return out


def c06_chain(exc):
    return [type(e).__name__ for e in _chain_objs(exc)]


def _nest_obs(case, r):
    """the implementation's observations in the nested driver's format"""
    lines = ["wf true"]
    progs = dict(_walk(case["prog"]))
    for p, pr in progs.items():
        tag = f"N {_pstr(p)}"
        ps = _pstr(p)
        n = pr["n"]
        done = r["done_log"][ps]
        ex = r["exec_log"][ps]
        # a macro that was not started in THIS run still carries the logs of an earlier one
        started = all(p[k] in r["exec_log"][_pstr(p[:k])] for k in range(len(p)))
        if p:
            over = started and p[-1] in r["done_log"][_pstr(p[:-1])]
        else:
            over = not r["outcome"].startswith("stuck")
        if not started:
            done, ex = [], []

        def child(i):
            return _pstr(p + (i,))

        def st(i):
            run, failed = r["flags"][child(i)]
            if run:
                return "out"
            if failed:
                return "failed"
            return "done" if (started and i in done) else "idle"

        def calls(i):
            if str(i) in pr["kids"]:
                return ex.count(i)
            c = r["calls"][child(i)]
            return c + (1 if r["flags"][child(i)][0] and c == 0 else 0)

        def cls(i):
            if str(i) in pr["kids"]:
                return "-"
            v = r["outs"][child(i)]
            if v == "ND":
                return "ND"
            return "prev" if r["before"] is not None and v == r["before"][child(i)] else "new"

        lines += [
            f"{tag} over {'true' if over else 'false'}",
            f"{tag} failed {'true' if r['flags'][ps][1] else 'false'}",
            f"{tag} exec [{','.join(map(str, ex))}]",
            # fine mode: the completion log is written by the second half of a callback, the model's by the first
            f"{tag} done [{','.join(map(str, sorted(done) if case.get('nfine') else done))}]",
            f"{tag} st " + " ".join(f"{i}:{st(i)}" for i in range(n)),
            f"{tag} calls " + " ".join(f"{i}:{calls(i)}" for i in range(n)),
            f"{tag} cls " + " ".join(f"{i}:{cls(i)}" for i in range(n)),
            f"{tag} running [{','.join(map(str, r['running_children'][ps] if started else []))}]",
        ]
    lines.append("chain " + r["chain"])
    lines.append("status " + ("ok" if not r["outcome"].startswith("stuck") else r["outcome"]))
    if case.get("nfine"):
        # callbacks still half-way when the run returned, by the composite they belong to
        lines.append("mid [" + ",".join(sorted({_pstr(_ppath(k)[:-1]) for k in r["parked"]})) + "]")
    # the outermost composite's own run cycle
    run, failed = r["flags"]["r"]
    lines += [f"O flags {'true' if run else 'false'} {'true' if failed else 'false'}",
              f"O failedsig {r['lis_calls']}", f"O ransig {r['aft_calls']}",
              f"O recovery {'yes' if r['recovery_file'] else 'no'}", f"O ret {r['ret']}"]
    return lines


def _nest_model_input(case, r):
    lines = []
    for p, pr in _walk(case["prog"]):
        ps = _pstr(p)
        n = pr["n"]
        lines.append(f"comp {ps}")
        lines.append(f"n {n}")
        for i in range(n):
            for sl in pr["slots"][str(i)]:
                ups = [] if isinstance(sl, str) else list(reversed(sl))  # newest first; own inputs are values
                lines.append(f"slot {i} " + " ".join(map(str, ups)))
        w = r["wiring"][ps]
        for j in range(n):
            lines.append(f"down {j} " + " ".join(map(str, w["down"].get(j, w["down"].get(str(j), [])))))
        lines.append("starters " + " ".join(map(str, w["starters"])))
        lines.append("exec " + " ".join(str(i) for i in range(n) if _pstr(p + (i,)) in case["exec"]))
        lines.append("fails " + " ".join(str(i) for i in range(n) if _pstr(p + (i,)) in case["fails"]))
        rank = {}

        def rk(i):
            if i not in rank:
                rank[i] = 1 + max((rk(j) for j in _sib_ups(pr, i)), default=-1)
            return rank[i]

        lines.append("rank " + " ".join(str(rk(i)) for i in range(n)))
        lines.append("kids " + " ".join(sorted(pr["kids"], key=int)))
        if case.get("prerun"):
            lines.append("prev")
    if case.get("nfine"):
        lines.append("nfsched " + " ".join(r["trace"]))
        lines.append("nfrun")
    else:
        lines.append("nsched " + " ".join(r["trace"]))
        lines.append("nrun")
    lines.append(_ncycle(case))
    return lines


def _ncycle(case):
    # suppress, outermost on an executor (never), fires its own signals (a macro does, a Workflow does not), recovery on
    return (f"ncycle {int(bool(case.get('suppress')))} 0 {int(case.get('outer') == 'macro')} 1"
            + (" 1" if case.get("lock") else ""))


def _nest_downstream(pr, roots):
    out, changed = set(), True
    while changed:
        changed = False
        for i in range(pr["n"]):
            if i in out or i in roots:
                continue
            if set(_sib_ups(pr, i)) & (out | set(roots)):
                out.add(i)
                changed = True
    return out


def _nest_oracle(case, r):
    """the statement, clause by clause, on what the real objects showed — at every level of the nesting"""
    from . import nodes_c06 as N

    fails = []
    progs = dict(_walk(case["prog"]))
    hit = [l for l in case["fails"] if r["calls"][l] > 0]
    depth = max((l.count(".") for l in hit), default=0)
    # the failing function ran on an executor: itself handed over, or inside a macro that was
    on_exec = any(_pstr(_ppath(l)[:k]) in case["exec"] for l in hit for k in range(1, len(_ppath(l)) + 1))
    base_only = any(case["fails"][l] in N.BASE_ONLY for l in hit)
    nested = depth > 0

    def sig(c, **kw):
        return {"clause": c, "kind": "nest", "nested": nested, "failing_on_exec": on_exec,
                **({"base_exception": True} if base_only else {}), **kw}

    if r["outcome"].startswith("stuck"):
        return [{"clause": "run-does-not-terminate", "detail": r["outcome"], "signature": sig("terminate")}]
    if not hit:
        return fails
    # (a) the error reaches the caller of the outermost run, carrying the original exception — unless the caller asked
    # for suppression: then nothing is raised and nothing is returned; everything below is demanded all the same
    if case.get("suppress"):
        if r["ret"] != "none":
            fails.append({"clause": "error-raised-despite-suppression" if r["ret"] == "raised" else "suppressed-failure-returned-a-value",
                          "detail": f"outcome {r['outcome']}, returned {r['ret']}", "signature": sig("suppress")})
        if case.get("outer") == "macro" and (r["lis_calls"] != 1 or r["aft_calls"] != 0):
            fails.append({"clause": "failed-signal-not-exactly-once",
                          "detail": f"`failed` listener ran {r['lis_calls']} times, `ran` listener {r['aft_calls']} times",
                          "signature": sig("failed-once")})
    elif r["ret"] == "raised-save":
        fails.append({"clause": "original-exception-lost",
                      "detail": f"the caller got {r['outcome']} raised by the epilogue (recovery save) instead of the run's "
                                f"own error; cause chain {r['chain_types']}",
                      "signature": sig("cause", unstorable=bool(case.get("lock")))})
    elif not r["outcome"].startswith("raised:"):
        fails.append({"clause": "error-does-not-reach-caller",
                      "detail": f"run returned normally; failing nodes {hit}", "signature": sig("reaches-caller")})
    elif len(hit) == 1:
        l = hit[0]
        key = case["fails"][l]
        if not r["raised_is_orig"].get(l):
            fails.append({"clause": "original-exception-lost",
                          "detail": f"{key} raised by {l} is not in the cause chain {r['chain_types']}",
                          "signature": sig("cause", exc_is_lookup=issubclass(N.exc_type(key), LookupError))})
    # (b) statuses: the failing nodes and every composite above them failed and not running; nobody else failed
    expect_failed = set()
    for l in hit:
        p = _ppath(l)
        for k in range(len(p) + 1):
            expect_failed.add(_pstr(p[:k]))
    for x in sorted(expect_failed):
        run, failed = r["flags"][x]
        if run or not failed:
            what = "failing-node-flags" if x in hit else "composite-flags"
            fails.append({"clause": what, "detail": f"{x}: running={run} failed={failed}",
                          "signature": sig("node-flags" if x in hit else "composite-flags")})
    for x, (run, failed) in r["flags"].items():
        if failed and x not in expect_failed:
            fails.append({"clause": "unrelated-node-marked-failed", "detail": f"{x} failed; failing nodes {hit}",
                          "signature": sig("nobody-else")})
    # (c) no node is left running, at any level, when the error reaches the caller. Not demanded of an INTERRUPT
    # (KeyboardInterrupt): it propagates at once by design, children that are out on an executor truly are still
    # running; (b) still demands that the interrupted node and the composites above it are not running.
    left = [x for x, (run, _f) in r["flags"].items() if run]
    rc = {x: v for x, v in r["running_children"].items() if v}
    if case.get("nfine") and (r["parked"] or r.get("late_tokens")):
        fails.append({"clause": "node-left-running",
                      "detail": f"callbacks half-way when the run returned: {r['parked']}; released late: {r.get('late_tokens')}",
                      "signature": sig("left-running", fine=True)})
    if (left or rc or r["late_jobs"]) and not base_only:
        fails.append({"clause": "node-left-running",
                      "detail": f"running={left} running_children={rc} jobs still out={r['late_jobs']}"
                                + (f" calls after their late completion={r['calls_after_late']}" if r["calls_after_late"] else ""),
                      "signature": sig("left-running")})
    # (d) the failing node's outputs keep their previous values
    for l in hit:
        expect = r["before"][l] if r["before"] is not None else "ND"
        if r["outs"][l] != expect:
            fails.append({"clause": "outputs-not-kept", "detail": f"{l}: {r['outs'][l]} vs previous {expect}",
                          "signature": sig("outputs-kept")})
    # (e) nothing that depends on the completion of a failed node / failed composite executes — at any level
    for x in sorted(expect_failed - {"r"}):
        p = _ppath(x)
        pr = progs[p[:-1]]
        for i in sorted(_nest_downstream(pr, [p[-1]])):
            c = p[:-1] + (i,)
            inside = [l for l in r["calls"] if (l == _pstr(c) or l.startswith(_pstr(c) + ".")) and r["calls"][l] > 0]
            started = i in r["exec_log"][_pstr(p[:-1])]
            if inside or started:
                fails.append({"clause": "downstream-of-failure-executed",
                              "detail": f"{_pstr(c)} is downstream of failed {x}: started={started} calls inside={inside}",
                              "signature": sig("no-downstream")})
    return fails


def _nest_shrink(case):
    prog = case["prog"]
    if len(case["fails"]) > 1:
        for l in case["fails"]:
            yield {**case, "fails": {k: v for k, v in case["fails"].items() if k != l}}
    for l in case["exec"]:
        yield {**case, "exec": [x for x in case["exec"] if x != l]}
    if case.get("prerun"):
        yield {**case, "prerun": False}
    if case["choices"]:
        yield {**case, "choices": []}
    if case.get("mode") != "ctl":
        yield {**case, "mode": "ctl"}
    # a macro that contains no failing leaf becomes a function node
    import copy

    for p, pr in _walk(prog):
        for k in list(pr["kids"]):
            sub = _pstr(p + (int(k),))
            if any(l == sub or l.startswith(sub + ".") for l in case["fails"]):
                continue
            new = copy.deepcopy(prog)
            tgt = new
            for i in p:
                tgt = tgt["kids"][str(i)]
            del tgt["kids"][k]
            tgt["gid"][k] = None
            _number(new)
            yield {**case, "prog": new, "exec": [x for x in case["exec"] if not x.startswith(sub + ".")]}
    # drop a sink leaf nobody depends on (highest index only, to keep indices stable)
    for p, pr in _walk(prog):
        i = pr["n"] - 1
        if pr["n"] <= 2 or str(i) in pr["kids"] or pr["ret"] == i:
            continue
        if any(i in _sib_ups(pr, j) for j in range(pr["n"])):
            continue
        me = _pstr(p + (i,))
        if me in case["fails"]:
            continue
        new = copy.deepcopy(prog)
        tgt = new
        for k in p:
            tgt = tgt["kids"][str(k)]
        tgt["n"] -= 1
        tgt["order"] = [x for x in tgt["order"] if x != i]
        del tgt["slots"][str(i)]
        del tgt["gid"][str(i)]
        _number(new)
        yield {**case, "prog": new, "exec": [x for x in case["exec"] if x != me]}


# =====================================================================================================
# hand-wired flows (kind "flow"): run signals wired by hand, nodes triggered more than once, `If` branches
# =====================================================================================================
#
# case = {"kind": "flow", "n": n, "order": [...], "edges": [[j, i, "ran"|"true"|"false"]], "starters": [...],
#         "ifs": {"i": bool}, "fails": {"i": class key}, "exec": [...], "choices": [...], "prerun": bool}
# Nodes are term nodes G_i without data connections (every input has its default: always ready) or `If` nodes with a
# constant condition; control flow only. A failing `If` gets a condition whose truth value raises.


def gen_flow_case(rng, classes, n_max=6):
    n = rng.randint(2, n_max)
    hidden = list(range(n))
    rng.shuffle(hidden)
    pos = {v: k for k, v in enumerate(hidden)}
    order = list(range(n))
    rng.shuffle(order)
    ifs = {str(i): rng.random() < 0.5 for i in range(n) if rng.random() < 0.3}
    edges = []
    for i in range(n):
        earlier = [j for j in range(n) if pos[j] < pos[i]]
        if not earlier:
            continue
        # one, two or three triggers: a node with several run connections is run once per trigger
        for j in rng.sample(earlier, min(len(earlier), rng.choice([0, 1, 1, 1, 2, 2, 3]))):
            sig = rng.choice(["ran", "true", "false"]) if str(j) in ifs else "ran"
            edges.append([j, i, sig])
    targets = {i for _j, i, _s in edges}
    starters = [i for i in hidden if i not in targets]
    if rng.random() < 0.2:
        extra = [i for i in hidden if i in targets]
        if extra:
            starters.append(rng.choice(extra))  # a starting node that is also triggered by a signal
    rng.shuffle(starters)
    k = rng.choice([1, 1, 1, 2])
    fl = rng.sample(range(n), min(k, n))
    # how often a node can be triggered at most; a child that is out on an executor must not be triggered again
    # meanwhile (the refusal would be a second, genuine error of the run), so only once-triggered nodes go there
    anyx = rng.random() < 0.33
    mult = {}
    for i in hidden:
        mult[i] = (1 if i in starters else 0) + sum(mult[j] for j, t, _s in edges if t == i)
    case_ = {"kind": "flow", "n": n, "order": order, "edges": edges, "starters": starters, "ifs": ifs,
            "fails": {str(i): rng.choice(classes) for i in fl},
            # mostly only once-triggered nodes go to the executor; in a third of the executor flows any node may: a
            # child triggered again while it is out is refused (and, if it fails later, swept up with its own error)
            "exec": [] if rng.random() < 0.5 else sorted(
                i for i in range(n) if (mult[i] <= 1 or anyx) and rng.random() < 0.45),
            "choices": [] if rng.random() < 0.4 else [rng.choice([0, 0, 0, 1, 2, 3]) for _ in range(40)],
            "prerun": rng.random() < 0.6}
    if not case_["exec"] and rng.random() < 0.35:
        # caching on: everybody who completed in the first run answers from the cache in the second; the failing nodes
        # get an input edited
        case_["cache"] = True
        case_["prerun"] = True
    return case_


_IF_CALLS: dict = {}


class _Truth:
    """a condition with a fixed truth value that counts how often it is asked (= invocations of the `If`'s function)"""

    def __init__(self, i, value):
        self.i, self.value = i, value

    def __bool__(self):
        _IF_CALLS[self.i] = _IF_CALLS.get(self.i, 0) + 1
        return self.value


class _BadTruth:
    """a condition whose truth value cannot be taken"""

    def __init__(self, i, key):
        self.i, self.key = i, key

    def __bool__(self):
        from . import nodes_c06 as N

        _IF_CALLS[self.i] = _IF_CALLS.get(self.i, 0) + 1
        e = N.FAMILY[self.key](f"if{self.i}")
        N.RAISED[self.i] = e
        raise e

    def __eq__(self, other):
        return self is other

    def __hash__(self):
        return id(self)


def _run_flow(case):
    from pyiron_workflow import Workflow
    from pyiron_workflow.nodes.standard import If

    from . import nodes_c06 as N
    from .execsim import CtlExecutor, Instrument, Stuck, term_str

    N.reset()
    _IF_CALLS.clear()
    n = case["n"]
    wf = Workflow("w", autoload=None, automate_execution=False)
    wf.use_cache = False
    ns = {}
    for i in case["order"]:
        if str(i) in case["ifs"]:
            ns[i] = If(label=f"n{i}", condition=_Truth(i, case["ifs"][str(i)]))
        else:
            ns[i] = N.term_node(i, label=f"n{i}")
        ns[i].use_cache = bool(case.get("cache"))
        wf.add_child(ns[i])
    for j, i, sig in case["edges"]:
        getattr(ns[j].signals.output, sig) >> ns[i].signals.input.run
    wf.starting_nodes = [ns[i] for i in case["starters"]]

    def out(i):
        ch = ns[i].outputs.truth if str(i) in case["ifs"] else ns[i].outputs.o
        return term_str(ch.value)

    before = None
    if case.get("prerun"):
        wf.run()
        before = {i: out(i) for i in ns}
        N.CALL_LOG.clear()
        _IF_CALLS.clear()
        N.EPOCH[0] = 1
    for i, key in case["fails"].items():
        if i in case["ifs"]:
            ns[int(i)].inputs.condition.value = _BadTruth(int(i), key)
        else:
            N.EXC[int(i)] = key
            if case.get("cache"):
                ns[int(i)].inputs.a.value = "e"  # an input only the failing node sees: its cache does not answer
    sched = _Sched(list(case["choices"]), ident=lambda owner: owner.label[1:])
    exe = CtlExecutor(sched, "ctl")
    for i in case["exec"]:
        ns[i].executor = exe
    outcome, exc = "ok", None
    import pyiron_workflow.nodes.composite as comp
    from pyiron_workflow.mixin.run import ReadinessError

    collected, err_child = [], {}
    orig_collect = getattr(comp.Composite, "_collect_child_error", None)
    if orig_collect is not None:
        def collect(self_, errors, accounted_for, child, error, n_started_before):
            refused = len(self_.provenance_by_execution) == n_started_before
            collected.append(f"{child.label[1:]}:{'refused' if refused else 'run'}")
            err_child[id(error)] = child.label[1:]
            return orig_collect(self_, errors, accounted_for, child, error, n_started_before)

        comp.Composite._collect_child_error = collect
    sig_index = {"ran": 0, "failed": 1, "true": 2, "false": 3}
    conns = {}
    for j in ns:
        for name, k in sig_index.items():
            ch = getattr(ns[j].signals.output, name, None)
            if ch is not None and ch.connections:
                conns[4 * j + k] = [int(c.owner.label[1:]) for c in ch.connections]
    with Instrument(sched):
        try:
            wf.run()
        except Stuck as e:
            outcome = f"stuck:{e}"
        except BaseException as e:  # noqa: BLE001
            outcome = f"raised:{type(e).__name__}"
            exc = e
        finally:
            if orig_collect is not None:
                comp.Composite._collect_child_error = orig_collect
        seen = "-"
        if exc is not None:
            cause = exc.__cause__
            by_obj = {id(e): i for i, e in N.RAISED.items()}
            if type(exc).__name__ != "FailedChildError" or id(exc) in by_obj:
                seen = "raw:" + type(exc).__name__
            elif cause is None:
                seen = "fc none"
            elif id(cause) in by_obj:
                seen = f"fc orig:{by_obj[id(cause)]}"
            elif type(cause) is ReadinessError and id(cause) in err_child:
                # a refusal: which child it belongs to is what the composite was told when it collected it
                seen = "fc refusal:" + err_child[id(cause)]
            else:
                seen = "fc other:" + type(cause).__name__
        r = {
            "collected": collected, "conns": conns, "seen": seen,
            # invocations of the wrapped functions in this run (an `If`'s: those of its condition's truth value)
            "fcalls": {str(i): (N.CALL_LOG.count(i) if str(i) not in case["ifs"] else _IF_CALLS.get(i, 0)) for i in ns},
            "outcome": outcome, "chain_types": c06_chain(exc),
            "raised_is_orig": {str(i): any(e is x for x in _chain_objs(exc)) for i, e in N.RAISED.items()},
            "raised": sorted(str(i) for i in N.RAISED),
            "flags": {str(i): (bool(ns[i].running), bool(ns[i].failed)) for i in ns},
            "wf_flags": (bool(wf.running), bool(wf.failed)),
            "running_children": [int(l[1:]) for l in wf.running_children],
            "exec_log": [int(l[1:]) for l in wf.provenance_by_execution],
            "done_log": [int(l[1:]) for l in wf.provenance_by_completion],
            "outs": {str(i): out(i) for i in ns}, "before": None if before is None else {str(i): v for i, v in before.items()},
            "truth": {str(i): (ns[i].outputs.truth.value is True) for i in ns if str(i) in case["ifs"]},
            "late_jobs": [sched.ident(j[0]) for j in sched.jobs], "trace": list(sched.trace),
        }
        try:
            sched.drain()
        except BaseException:  # noqa: BLE001
            pass
    return r


def _flow_oracle(case, r):
    fails = []
    hit = list(r["raised"])  # the nodes whose function actually raised
    memo = {}

    def mult(i):  # how often node i can be triggered at most (the wiring is acyclic)
        if i not in memo:
            memo[i] = (1 if i in case["starters"] else 0) + sum(mult(j) for j, t, _s in case["edges"] if t == i)
        return memo[i]

    retrig = any(mult(int(h)) > 1 for h in hit)
    is_if = any(h in case["ifs"] for h in hit)

    def sig(c, **kw):
        return {"clause": c, "kind": "flow", "failing_on_exec": any(int(h) in case["exec"] for h in hit),
                "retriggered": retrig, "failing_if": is_if, **kw}

    if r["outcome"].startswith("stuck"):
        return [{"clause": "run-does-not-terminate", "detail": r["outcome"], "signature": sig("terminate")}]
    if not hit:
        return fails
    if not r["outcome"].startswith("raised:"):
        fails.append({"clause": "error-does-not-reach-caller", "detail": f"run returned normally; failing nodes {hit}",
                      "signature": sig("reaches-caller")})
    elif (len(hit) == 1 and not r["raised_is_orig"].get(hit[0])
          # a refusal of ANOTHER child (triggered again while it was out) is a second, genuine error of the run
          and not any(c.split(":")[0] != hit[0] and c.endswith(":refused") for c in r["collected"])):
        fails.append({"clause": "original-exception-lost",
                      "detail": f"{case['fails'][hit[0]]} raised by {hit[0]} is not in the cause chain {r['chain_types']}",
                      "signature": sig("cause")})
    for h in hit:
        run, failed = r["flags"][h]
        if run or not failed:
            fails.append({"clause": "failing-node-flags", "detail": f"{h}: running={run} failed={failed}",
                          "signature": sig("node-flags")})
    if r["wf_flags"] != (False, True):
        fails.append({"clause": "composite-flags", "detail": f"workflow (running, failed)={r['wf_flags']}",
                      "signature": sig("composite-flags")})
    for x, (_run, failed) in r["flags"].items():
        if failed and x not in hit:
            fails.append({"clause": "unrelated-node-marked-failed", "detail": f"{x} failed; failing nodes {hit}",
                          "signature": sig("nobody-else")})
    left = [x for x, (run, _f) in r["flags"].items() if run]
    if left or r["running_children"] or r["late_jobs"]:
        fails.append({"clause": "node-left-running",
                      "detail": f"running={left} running_children={r['running_children']} jobs out={r['late_jobs']}",
                      "signature": sig("left-running")})
    for h in hit:
        expect = r["before"][h] if r["before"] is not None else "ND"
        if r["outs"][h] != expect:
            fails.append({"clause": "outputs-not-kept", "detail": f"{h}: {r['outs'][h]} vs previous {expect}",
                          "signature": sig("outputs-kept")})
    # contained: a node runs only if SOME node that completed (not one that failed) announces it: follow the signals of
    # completed nodes from the starting nodes — `ran` always, of an `If` also the branch of its truth value
    may = set(case["starters"])
    changed = True
    while changed:
        changed = False
        for j, i, s in case["edges"]:
            if j not in may or i in may or str(j) in hit:
                continue
            if s == "ran" or (s == "true") == r["truth"].get(str(j), None):
                may.add(i)
                changed = True
    for i in sorted(set(r["exec_log"]) - may):
        fails.append({"clause": "downstream-of-failure-executed",
                      "detail": f"{i} ran although every signal leading to it comes from failed nodes {hit}; edges {case['edges']}",
                      "signature": sig("no-downstream")})
    return fails


def _flow_shrink(case):
    if len(case["fails"]) > 1:
        for l in case["fails"]:
            yield {**case, "fails": {k: v for k, v in case["fails"].items() if k != l}}
    for e in case["exec"]:
        yield {**case, "exec": [x for x in case["exec"] if x != e]}
    for k in range(len(case["edges"])):
        yield {**case, "edges": case["edges"][:k] + case["edges"][k + 1:]}
    if case["choices"]:
        yield {**case, "choices": []}
    i = case["n"] - 1
    if case["n"] > 2 and str(i) not in case["fails"] and all(j != i for j, _i, _s in case["edges"]):
        yield {**case, "n": i, "order": [x for x in case["order"] if x != i],
               "edges": [e for e in case["edges"] if e[1] != i], "starters": [x for x in case["starters"] if x != i],
               "ifs": {k: v for k, v in case["ifs"].items() if k != str(i)}, "exec": [x for x in case["exec"] if x != i]}


# =====================================================================================================
# faults under the fine interleaving: the done-callback of an executor child on its own thread, in two halves
# =====================================================================================================


def _run_fine(case, choices):
    """c01._run_once_fine with the fault table set and the exception kept"""
    import pyiron_workflow.nodes.composite as comp

    from . import nodes
    from .execfine import FineInstrument, FineScheduler
    from .execsim import CtlExecutor, Stuck, term_str

    nodes.reset()
    for i in case["fails"]:
        nodes.FAIL[i] = {0}
    wf, ns = c01.build(case)
    sched = FineScheduler(choices, ident=lambda owner: owner.label[1:])
    exe = CtlExecutor(sched, "ctl")
    for i in case["exec"]:
        ns[i].executor = exe
    wiring = {}
    lab = lambda l: int(l[1:])  # noqa: E731
    outcome, exc = "ok", None
    with FineInstrument(sched):
        orig_on_run = comp.Composite._on_run

        def on_run(self_):
            if self_ is wf and not wiring:
                wiring["starters"] = [int(n.label[1:]) for n in self_.starting_nodes]
                wiring["down"] = {i: [int(c.owner.label[1:]) for c in ns[i].signals.output.ran.connections] for i in ns}
            return orig_on_run(self_)

        comp.Composite._on_run = on_run
        try:
            wf.run()
        except Stuck as e:
            outcome = f"stuck:{e}"
        except BaseException as e:  # noqa: BLE001
            outcome = f"raised:{type(e).__name__}"
            exc = e
        finally:
            comp.Composite._on_run = orig_on_run
            # the state at the moment run() returned — before anything still parked is released
            snap = {
                "exec_log": [lab(l) for l in wf.provenance_by_execution],
                "done_log": [lab(l) for l in wf.provenance_by_completion],
                "flags": {i: (bool(ns[i].running), bool(ns[i].failed)) for i in ns},
                "outs": {i: term_str(ns[i].outputs.o.value) for i in ns},
                "calls": [c[0] for c in nodes.CALL_LOG],
                "running_children": sorted(lab(l) for l in wf.running_children),
                "wf_running": bool(wf.running), "wf_failed": bool(wf.failed),
                "parked": sorted(int(cb.k) for cb in sched.parked),
                "unstarted_jobs": len(sched.jobs),
            }
            sched.release_all()
    res = {"fine": True, "outcome": outcome, "exc_chain": _chain(exc), "before": None, "wiring": wiring,
           "trace": list(sched.tokens), **snap,
           "late": [int(t.split(":")[2]) for t in sched.tokens if t.startswith("L:")],
           "calls_after_release": [c[0] for c in nodes.CALL_LOG], "late_jobs": len(sched.jobs),
           # how long a failing child's callback stayed parked between its two calls (main-thread schedule points)
           "parked_failing": sum(1 for t in sched.tokens if ":F:" in t and int(t.split(":")[2]) in case["fails"])}
    return res, sched.options_seen


def _fine_obs(case, r):
    n = case["n"]
    end = "exited" if r["outcome"] in ("ok", "raised:FailedChildError") else r["outcome"]

    def st(i):
        run, failed = r["flags"][i]
        return "out" if run else "failed" if failed else ("done" if i in r["done_log"] else "idle")

    failed = sorted(i for i in range(n) if r["flags"][i][1] and not r["flags"][i][0])
    return [
        "wf true",
        f"Fr end {end}",
        f"Fr exec [{','.join(map(str, r['exec_log']))}]",
        f"Fr doneset [{','.join(map(str, sorted(r['done_log'])))}]",
        "Fr st " + " ".join(f"{i}:{st(i)}" for i in range(n)),
        "Fr calls " + " ".join(f"{i}:{r['calls'].count(i)}" for i in range(n)),
        "Fr out " + " ".join(f"{i}:{r['outs'][i]}" for i in range(n)),
        f"Fr running [{','.join(map(str, r['running_children']))}]",
        f"Fr late [{','.join(map(str, r['late']))}]",
        f"Fr outcome {'failedchild' if r['outcome'] == 'raised:FailedChildError' else r['outcome']}",
        f"Fr errs [{','.join(map(str, failed))}]",
        f"Fr mid [{','.join(map(str, r['parked']))}]",
    ]


def _flow_obs(case, r):
    """a flow without executor children, in the format of the driver's `wrun`"""
    ifs = sorted(int(i) for i in case["ifs"])
    tv = {True: "T", False: "F"}
    return [
        f"W exec [{','.join(map(str, r['exec_log']))}]",
        f"W done [{','.join(map(str, r['done_log']))}]",
        f"W failed [{','.join(str(i) for i in range(case['n']) if r['flags'][str(i)][1])}]",
        "W collect " + " ".join(r["collected"]),
        "W truth " + " ".join(f"{i}:{'ND' if r['outs'][str(i)] == 'ND' else tv[r['truth'][str(i)]]}" for i in ifs),
        f"W seen {r['seen']}",
        "W queue 0",
    ] + ([] if case["exec"] else ["W calls " + " ".join(
        f"{i}:{r['fcalls'].get(str(i), 0)}" for i in range(case["n"]))]) + ([f"W running [{','.join(map(str, r['running_children']))}]",
          "W status " + ("ended" if not r["outcome"].startswith("stuck") else r["outcome"])] if case["exec"] else [])


def _flow_model_input(case, r):
    lines = [f"wn {case['n']}"]
    for i in sorted(int(i) for i in case["ifs"]):
        lines.append(f"wif {i} {1 if case['ifs'][str(i)] else 0}")
    for e in sorted(r["conns"], key=int):
        lines.append(f"wconn {e} " + " ".join(map(str, r["conns"][e])))
    lines.append("wstarters " + " ".join(map(str, case["starters"])))
    lines.append("wfails " + " ".join(sorted(case["fails"], key=int)))
    if case.get("prerun"):
        lines.append("wpre")
    if case.get("cache"):
        lines.append("wcache")
    if case["exec"]:
        lines.append("wexec " + " ".join(map(str, case["exec"])))
        lines.append("wsched " + " ".join(r["trace"]))
    lines.append("wrun")
    return lines


# =====================================================================================================
# kinds of raised objects x the two exception paths x nesting depth (kind "ktab")
# =====================================================================================================
#
# case = {"kind": "ktab", "exc": <key of FAMILY>, "depth": d, "execs": [leaf, innermost macro, ..., outermost macro]}
# every composite: 0 -> 1 -> 2 and an independent 3 on the executor that completes last; child 1 is the next composite,
# in the innermost one the raising function node.


def _kind_of(key):
    from . import nodes_c06 as N

    t = N.exc_type(key)
    return "exception" if issubclass(t, Exception) else "ki" if issubclass(t, KeyboardInterrupt) else "base"


def _ktab_nest_case(case):
    d = case["depth"]

    def level(k):
        kids = {"1": level(k - 1)} if k > 0 else {}
        return {"n": 4, "order": [0, 1, 2, 3],
                "slots": {"0": [[], [], []], "1": [[0], [], []], "2": [[1], [], []], "3": [[], [], []]},
                "kids": kids, "gid": {str(i): None for i in range(4) if str(i) not in kids}, "ret": 2}

    prog = level(d)
    _number(prog)
    path = [()]  # composites, outermost first
    for _ in range(d):
        path.append(path[-1] + (1,))
    leaf = path[-1] + (1,)
    on_path = [leaf] + list(reversed(path[1:]))  # the raising node, then the macros innermost first
    ex = [_pstr(p) for p, e in zip(on_path, case["execs"]) if e]
    sibs = [_pstr(c + (3,)) for c in path]
    return {"kind": "nest", "prog": prog, "fails": {_pstr(leaf): case["exc"]}, "exec": sorted(ex + sibs), "mode": "ctl",
            "choices": [], "prerun": False, "late": sibs, "base": True}, on_path + [()], list(reversed(path))


def _run_ktab(case):
    nc, on_path, comps = _ktab_nest_case(case)
    r = _run_nest(nc)

    def stat(p):
        run, failed = r["flags"][_pstr(p)]
        return "both" if run and failed else "leftRunning" if run else "failed" if failed else "clean"

    chain = r["chain"].split()
    kind = _kind_of(case["exc"])
    if r["outcome"] == "ok":
        caller = "nothing"
    elif chain and chain[0].startswith("orig:"):
        caller = f"raw:{kind}"
    elif chain and chain[-1].startswith("orig:") and all(c == "fc" for c in chain[:-1]):
        caller = f"chain:{kind}:{len(chain) - 1}"
    else:
        caller = "other:" + " ".join(chain)
    r["ktab"] = {
        "stat": [stat(p) for p in on_path],
        # a composite whose loop was left at once: its in-flight sibling is still out when the run has returned
        "aborted": [int(r["flags"][_pstr(c + (3,))][0] or _pstr(c + (3,)) in r["late_jobs"]) for c in comps],
        "down": [int(r["calls"][_pstr(c + (2,))] > 0) for c in comps],
        "caller": caller, "recovery": "yes" if r["recovery_file"] else "no",
    }
    return r


def _ktab_obs(r, tag):
    k = r["ktab"]
    return [f"K {tag} stat " + " ".join(k["stat"]), f"K {tag} aborted " + " ".join(map(str, k["aborted"])),
            f"K {tag} down " + " ".join(map(str, k["down"])), f"K {tag} caller {k['caller']}",
            f"K {tag} recovery {k['recovery']}"]


def _ktab_oracle(case, r):
    k = r["ktab"]
    kind = _kind_of(case["exc"])
    fails = []

    def sig(c):
        return {"clause": c, "kind": "ktab", "exc_kind": kind, "on_exec": any(case["execs"])}

    if r["outcome"].startswith("stuck"):
        return [{"clause": "run-does-not-terminate", "detail": r["outcome"], "signature": sig("terminate")}]
    if k["caller"] == "nothing":
        fails.append({"clause": "error-does-not-reach-caller", "detail": f"{case['exc']}: run returned normally",
                      "signature": sig("reaches-caller")})
    elif k["caller"].startswith("other:"):
        fails.append({"clause": "original-exception-lost", "detail": f"{case['exc']}: caller sees {r['chain_types']}",
                      "signature": sig("cause")})
    if any(s != "failed" for s in k["stat"]):
        fails.append({"clause": "failing-node-flags",
                      "detail": f"{case['exc']}, execs {case['execs']}: raising node and composites above it end {k['stat']}",
                      "signature": sig("node-flags")})
    if any(k["down"]):
        fails.append({"clause": "downstream-of-failure-executed", "detail": f"{case['exc']}: downstream ran at levels {k['down']}",
                      "signature": sig("no-downstream")})
    if kind == "exception" and (any(k["aborted"]) or r["late_jobs"]):
        fails.append({"clause": "node-left-running", "detail": f"siblings left out {k['aborted']} {r['late_jobs']}",
                      "signature": sig("left-running")})
    return fails


def join_histories(depths, quick):
    """all-of joins under re-run histories: at the bottom of `depth` nested composites (0 = the workflow itself)
    `left`, `right` -> `combine` (+ an independent child); run 1 one side raises, run 2 the other, run 3 nobody —
    every order, each side locally or on the executor, the macros on the path locally or on the executor"""
    import itertools

    for depth in depths:
        def level(k):
            if k == 0:
                return {"n": 4, "order": [0, 1, 2, 3],
                        "slots": {"0": [[], [], []], "1": [[], [], []], "2": [[0], [1], []], "3": [[], [], []]},
                        "kids": {}, "gid": {"0": None, "1": None, "2": None, "3": None}, "ret": 2}
            return {"n": 3, "order": [0, 1, 2], "slots": {"0": [[], [], []], "1": [[0], [], []], "2": [[1], [], []]},
                    "kids": {"1": level(k - 1)}, "gid": {"0": None, "2": None}, "ret": 2}

        prog = level(depth)
        _number(prog)
        base = "1." * depth
        left, right = base + "0", base + "1"
        macros = [("1." * k)[:-1] for k in range(1, depth + 1)]
        for first, ex_l, ex_r, ex_m in itertools.product((left, right), (False, True), (False, True), (False, True)):
            if ex_m and not macros:
                continue
            if quick and ex_l and ex_r:
                continue
            second = right if first == left else left
            ex = ([left] if ex_l else []) + ([right] if ex_r else []) + (macros if ex_m else [])
            yield {"kind": "nest", "prog": prog, "fails": {first: "Boom"}, "exec": ex, "mode": "ctl", "choices": [],
                   "prerun": False,
                   "history": [{"fails": {second: "KeyError"}, "exec": ex, "choices": []},
                               {"fails": {}, "exec": [], "choices": []},
                               {"fails": {first: "IndexError"}, "exec": ex, "choices": []}]}


def gen_nfine_case(rng, depth, classes):
    """a nested tree whose macros run locally and whose function nodes may run on the executor, callbacks stepped in two
    halves on their own threads (execfine) — failing executor children at any depth"""
    c = gen_nest_case(rng, depth, classes, n_max=3)
    leaves = [_pstr(p) for p in _leaves(c["prog"])]
    ex = [l for l in leaves if rng.random() < 0.5] or [rng.choice(leaves)]
    # prefer failing nodes that are on the executor
    fl = {rng.choice(ex): rng.choice(classes)}
    if rng.random() < 0.3:
        fl[rng.choice(leaves)] = rng.choice(classes)
    return {"kind": "nest", "nfine": True, "prog": c["prog"], "fails": fl, "exec": sorted(ex), "mode": "ctl",
            "choices": [rng.randint(0, 5) for _ in range(60)], "prerun": False,
            **({"suppress": True} if rng.random() < 0.2 else {})}


# =====================================================================================================
# real executors (kind "rx"): ThreadPoolExecutor and the library's own CloudpickleProcessPoolExecutor (a real process)
# =====================================================================================================
#
# case = {"kind": "rx", "executor": "thread"|"cloudproc", "where": "child"|"in-macro"|"macro", "exc": key, "prerun": bool}
# workflow  pre -> X -> post ; X is the RX node (child), or a macro containing first -> RX -> last with the RX node
# (in-macro) or the whole macro (macro) on the executor. The failure travels with the input ("raise:<key>").


def _run_rx(case):
    import multiprocessing
    from concurrent.futures import ThreadPoolExecutor

    from pyiron_workflow import Workflow
    from pyiron_workflow.executors.cloudpickleprocesspool import CloudpickleProcessPoolExecutor

    from . import nodes_c06 as N
    from .execsim import term_str

    N.reset()
    wf = Workflow("w", autoload=None)
    wf.use_cache = False
    wf.pre = N.G2()
    if case["where"] == "child":
        wf.x = N.RX(b=wf.pre)
        target, holder = wf.x, wf.x
    else:
        wf.x = N.RXMacro()
        wf.pre >> wf.x  # the macro takes no data from `pre`: make it wait for it
        target = wf.x.rx
        holder = wf.x.rx if case["where"] == "in-macro" else wf.x
    wf.post = N.G3(a=wf.x)
    for n in (wf.pre, wf.x, wf.post, target):
        n.use_cache = False
    if case["executor"] == "thread":
        exe = ThreadPoolExecutor(1)
    else:
        exe = CloudpickleProcessPoolExecutor(1, mp_context=multiprocessing.get_context("spawn"))
    before = None
    try:
        holder.executor = exe
        if case.get("prerun"):
            wf.run()
            before = term_str(target.outputs.o.value)
            N.CALL_LOG.clear()
        wf.x.inputs.a.value = "raise:" + case["exc"]
        outcome, exc = "ok", None
        try:
            wf.run()
        except BaseException as e:  # noqa: BLE001
            outcome, exc = f"raised:{type(e).__name__}", e
    finally:
        exe.shutdown(wait=True)
    want = N.exc_type(case["exc"])
    chain = _chain_objs(exc)
    nodes = {"w": wf, "pre": wf.pre, "x": wf.x, "post": wf.post, "target": target}
    return {
        "outcome": outcome, "chain_types": [type(e).__name__ for e in chain],
        "original_in_chain": any(type(e) is want and e.args == ("rx",) for e in chain),
        "flags": {k: (bool(n.running), bool(n.failed)) for k, n in nodes.items()},
        "post_calls": N.CALL_LOG.count(3), "out": term_str(target.outputs.o.value), "before": before,
    }


def _rx_oracle(case, r):
    fails = []

    def sig(c):
        return {"clause": c, "kind": "rx", "executor": case["executor"], "where": case["where"]}

    if not r["outcome"].startswith("raised:"):
        fails.append({"clause": "error-does-not-reach-caller", "detail": str(r), "signature": sig("reaches-caller")})
    elif not r["original_in_chain"]:
        fails.append({"clause": "original-exception-lost",
                      "detail": f"{case['exc']}('rx') raised on {case['executor']} is not in the cause chain {r['chain_types']}",
                      "signature": sig("cause")})
    must_fail = ["w", "x", "target"]
    for k in must_fail:
        run, failed = r["flags"][k]
        if run or not failed:
            fails.append({"clause": "failing-node-flags" if k == "target" else "composite-flags",
                          "detail": f"{k}: running={run} failed={failed}", "signature": sig("node-flags")})
    for k, (run, failed) in r["flags"].items():
        if run:
            fails.append({"clause": "node-left-running", "detail": f"{k} running", "signature": sig("left-running")})
        if failed and k not in must_fail:
            fails.append({"clause": "unrelated-node-marked-failed", "detail": k, "signature": sig("nobody-else")})
    if r["post_calls"]:
        fails.append({"clause": "downstream-of-failure-executed", "detail": "post ran", "signature": sig("no-downstream")})
    if r["out"] != (r["before"] if r["before"] is not None else "ND"):
        fails.append({"clause": "outputs-not-kept", "detail": f"{r['out']} vs {r['before']}", "signature": sig("outputs-kept")})
    return fails


# =====================================================================================================
# failures during PULLS inside a composite (kind "pull")
# =====================================================================================================
#
# case = {"kind": "pull", "n", "order", "slots", "target", "fails": {"i": key}, "exec": [...], "prerun", "choices"}
# A child of a workflow is pulled (`node.pull()`): the library runs the parent on a temporary LINEAR wiring of the
# target's data tree (children carry temporary labels meanwhile), then the target itself. A data tree with an executor
# in it is refused up front on the tree as it is; whatever is not refused is judged by the usual clauses.


def _pull_closure(case):
    todo, seen = [case["target"]], set()
    while todo:
        i = todo.pop()
        for sl in case["slots"][str(i)]:
            for j in sl:
                if j not in seen:
                    seen.add(j)
                    todo.append(j)
    return seen


def gen_pull_case(rng, classes):
    n = rng.randint(2, 7)
    order, slots = c01.gen_dag(rng, n, 0.6)
    with_up = [i for i in range(n) if any(slots[str(i)])]
    target = rng.choice(with_up) if with_up else rng.randrange(n)
    case = {"kind": "pull", "n": n, "order": order, "slots": slots, "target": target}
    clo = sorted(_pull_closure(case))
    fl = rng.sample(clo, min(len(clo), rng.choice([1, 1, 1, 2]))) if clo else []
    # mostly local data trees; sometimes an executor somewhere in the tree, preferably on the failing node
    ex = []
    if rng.random() < 0.35:
        ex = sorted(set((fl[:1] if rng.random() < 0.6 else []) + [i for i in clo + [target] if rng.random() < 0.25]))
    return {**case, "fails": {str(i): rng.choice(classes) for i in fl}, "exec": ex,
            "prerun": rng.random() < 0.6, "choices": [], **({"outer": "macro"} if rng.random() < 0.3 else {})}


def _run_pull(case):
    import pyiron_workflow.nodes.composite as comp
    from pyiron_workflow import Workflow

    from . import nodes_c06 as N
    from .execsim import CtlExecutor, Instrument, Stuck, term_str

    N.reset()
    prog = {"n": case["n"], "order": case["order"], "slots": case["slots"], "kids": {},
            "gid": {str(i): i for i in range(case["n"])}, "ret": case["target"]}
    if case.get("outer") == "macro":
        N.PENDING.append(prog)
        try:
            wf = N.NestMacro(label="w")
        finally:
            N.PENDING.pop()
    else:
        wf = Workflow("w", autoload=None)
        N.populate(wf, prog)
    wf.use_cache = False
    ns = {i: wf.children[f"n{i}"] for i in range(case["n"])}
    for n_ in ns.values():
        n_.use_cache = False
    index = {id(n): i for i, n in ns.items()}
    before = None
    if case.get("prerun"):
        wf.run()
        before = {i: term_str(ns[i].outputs.o.value) for i in ns}
        N.CALL_LOG.clear()
        N.EPOCH[0] = 1
    for i, key in case["fails"].items():
        N.EXC[int(i)] = key
    sched = _Sched(list(case["choices"]), ident=lambda owner: str(index[id(owner)]))
    exe = CtlExecutor(sched, "ctl")
    for i in case["exec"]:
        ns[i].executor = exe
    seen = {}
    orig_on_run = comp.Composite._on_run

    def on_run(self_):
        if self_ is wf and "chain" not in seen:
            chain, n = [], (self_.starting_nodes[0] if self_.starting_nodes else None)
            while n is not None and len(chain) <= case["n"]:
                chain.append(index[id(n)])
                c = n.signals.output.ran.connections
                n = c[0].owner if c else None
            seen["chain"] = chain
            seen["starters"] = [index[id(x)] for x in self_.starting_nodes]
        return orig_on_run(self_)

    outcome, exc = "ok", None
    with Instrument(sched):
        comp.Composite._on_run = on_run
        try:
            ns[case["target"]].pull()
        except Stuck as e:
            outcome = f"stuck:{e}"
        except BaseException as e:  # noqa: BLE001
            outcome, exc = f"raised:{type(e).__name__}", e
        finally:
            comp.Composite._on_run = orig_on_run
        calls = list(N.CALL_LOG)
        by_obj = {id(e): i for i, e in N.RAISED.items()}
        chain_objs = _chain_objs(exc)
        if exc is None:
            seen_tok = "-"
        elif type(exc).__name__ == "FailedChildError" and id(exc) not in by_obj:
            cause = exc.__cause__
            seen_tok = "fc none" if cause is None else f"fc orig:{by_obj[id(cause)]}" if id(cause) in by_obj else \
                "fc other:" + type(cause).__name__
        else:
            seen_tok = "raw:" + type(exc).__name__
        r = {
            "outcome": outcome, "seen": seen_tok, "chain_types": [type(e).__name__ for e in chain_objs],
            "raised_is_orig": {str(i): any(e is x for x in chain_objs) for i, e in N.RAISED.items()},
            # refused up front: a ValueError while some node of the data tree has an executor, and nothing has run
            "refused": isinstance(exc, ValueError) and not isinstance(exc, tuple(type(e) for e in N.RAISED.values()) or ())
                       and any(ns[i].executor is not None for i in _pull_closure(case) | {case["target"]}) and not calls,
            "chain": seen.get("chain"), "starters": seen.get("starters"),
            "calls": {str(i): calls.count(i) for i in ns},
            "exec_log": [index.get(id(wf.children.get(l)), -1) if wf.children.get(l) is not None else int(l[1]) for l in wf.provenance_by_execution]
            if "chain" in seen else [],
            "flags": {str(i): (bool(ns[i].running), bool(ns[i].failed)) for i in ns},
            "wf_flags": (bool(wf.running), bool(wf.failed)),
            "running_children": list(wf.running_children), "late_jobs": [sched.ident(j[0]) for j in sched.jobs],
            "outs": {str(i): term_str(ns[i].outputs.o.value) for i in ns},
            "before": None if before is None else {str(i): v for i, v in before.items()},
            "trace": list(sched.trace),
        }
        try:
            sched.drain()
        except BaseException:  # noqa: BLE001
            pass
    return r


def _pull_obs(case, r):
    n = case["n"]
    t = case["target"]
    ex = list(r["chain"] or [])
    started = [i for i in ex if r["calls"][str(i)] or r["flags"][str(i)][0] or i in case["exec"] and r["flags"][str(i)][1]]
    ex = ex[: len(started)] + ([t] if r["calls"][str(t)] else [])
    return [
        f"W exec [{','.join(map(str, ex))}]",
        f"W failed [{','.join(str(i) for i in range(n) if r['flags'][str(i)][1])}]",
        f"W seen {r['seen']}",
    ]


def _pull_model_input(case, r):
    chain = list(r["chain"] or []) + [case["target"]]
    lines = [f"wn {case['n']}"]
    for a, b in zip(chain, chain[1:]):
        lines.append(f"wconn {4 * a} {b}")
    lines.append(f"wstarters {chain[0]}")
    lines.append("wfails " + " ".join(sorted(case["fails"], key=int)))
    if case.get("prerun"):
        lines.append("wpre")
    if case["exec"]:
        lines.append("wexec " + " ".join(map(str, case["exec"])))
        lines.append("wsched " + " ".join(r["trace"]))
    lines.append("wrun")
    return lines


def _pull_oracle(case, r):
    fails = []
    clo = _pull_closure(case)
    tree_exec = sorted(i for i in case["exec"] if i in clo or i == case["target"])
    hit = [i for i in case["fails"] if r["calls"][i] > 0]

    def sig(c):
        return {"clause": c, "kind": "pull", "executor_in_tree": bool(tree_exec),
                "failing_on_exec": any(int(h) in case["exec"] for h in hit)}

    if r["outcome"].startswith("stuck"):
        return [{"clause": "run-does-not-terminate", "detail": r["outcome"], "signature": sig("terminate")}]
    if r["refused"]:
        # refused before anything ran: nothing to demand but that nothing was touched
        touched = [i for i, (run, failed) in r["flags"].items() if run or failed]
        if touched or r["wf_flags"] != (False, False):
            fails.append({"clause": "refused-pull-left-traces", "detail": f"{touched} {r['wf_flags']}",
                          "signature": sig("refused-clean")})
        return fails
    if not hit:
        return fails
    t = str(case["target"])
    if not r["outcome"].startswith("raised:"):
        fails.append({"clause": "error-does-not-reach-caller",
                      "detail": f"the pull returned normally; {hit} raised during it (executors in the data tree: {tree_exec})",
                      "signature": sig("reaches-caller")})
    elif len(hit) == 1 and not r["raised_is_orig"].get(hit[0]):
        fails.append({"clause": "original-exception-lost",
                      "detail": f"{case['fails'][hit[0]]} raised by {hit[0]} is not in the cause chain {r['chain_types']}",
                      "signature": sig("cause")})
    for h in hit:
        run, failed = r["flags"][h]
        if run or not failed:
            fails.append({"clause": "failing-node-flags", "detail": f"{h}: running={run} failed={failed}",
                          "signature": sig("node-flags")})
    if r["wf_flags"] != (False, True):
        fails.append({"clause": "composite-flags", "detail": f"workflow (running, failed)={r['wf_flags']}",
                      "signature": sig("composite-flags")})
    left = [i for i, (run, _f) in r["flags"].items() if run]
    if left or r["running_children"] or r["late_jobs"]:
        fails.append({"clause": "node-left-running", "detail": f"{left} {r['running_children']} {r['late_jobs']}",
                      "signature": sig("left-running")})
    for h in hit:
        expect = r["before"][h] if r["before"] is not None else "ND"
        if r["outs"][h] != expect:
            fails.append({"clause": "outputs-not-kept", "detail": f"{h}: {r['outs'][h]} vs {expect}",
                          "signature": sig("outputs-kept")})
    # nothing that takes data (directly or not) from a failed node runs — in particular not the pulled node
    down = _downstream({"n": case["n"], "slots": case["slots"]}, [int(h) for h in hit])
    ran = [i for i in sorted(down) if r["calls"][str(i)] > 0]
    if ran:
        fails.append({"clause": "downstream-of-failure-executed",
                      "detail": f"{ran} ran although {hit} failed (pulled node {t})", "signature": sig("no-downstream")})
    return fails


# =====================================================================================================
# parentless nodes wired by hand (kind "pchain"): pushes from a head, pulls from a tail
# =====================================================================================================
#
# case = {"kind": "pchain", "n", "order", "slots", "op": "push"|"pull", "at": node, "fails": {"i": key}, "prerun": bool}
# Parentless term nodes with data connections; for a push every data edge also carries a run signal (`up >> down`), and
# the caller runs a node without upstream; for a pull there are no signals and the caller pulls a node with upstream.
# The raising node is (mostly) NOT the one the caller invoked: the error comes up through nested `emit()`s.


def gen_pchain_case(rng, classes):
    n = rng.randint(2, 6)
    order, slots = c01.gen_dag(rng, n, 0.6)
    case = {"kind": "pchain", "n": n, "order": order, "slots": slots}
    heads = [i for i in range(n) if not any(slots[str(i)])]
    tails = [i for i in range(n) if any(slots[str(i)])]
    if tails and rng.random() < 0.5:
        op, at = "pull", rng.choice(tails)
        pool = sorted(_pull_closure({**case, "target": at}))
    else:
        op, at = "push", rng.choice(heads)
        pool = sorted(_downstream({"n": n, "slots": slots}, [at])) or [at]
    fl = rng.sample(pool, min(len(pool), rng.choice([1, 1, 1, 2])))
    return {**case, "op": op, "at": at, "fails": {str(i): rng.choice(classes) for i in fl}, "prerun": rng.random() < 0.6}


def _run_pchain(case):
    import pyiron_workflow.node as nodemod

    from . import nodes_c06 as N
    from .execsim import term_str

    N.reset()
    ns = {i: N.term_node(i, label=f"n{i}") for i in case["order"]}
    for i in case["order"]:
        ns[i].use_cache = False
        for slot, ups in zip("abc", case["slots"][str(i)]):
            for j in ups:
                ns[i].inputs[slot].connect(ns[j].outputs.o)
    if case["op"] == "push":
        for i in case["order"]:
            for j in sorted({j for sl in case["slots"][str(i)] for j in sl}):
                ns[j] >> ns[i]
    index = {id(n): i for i, n in ns.items()}
    seen = {}
    orig_lin = nodemod.set_run_connections_according_to_linear_dag

    def lin(nodes_):
        res = orig_lin(nodes_)
        if "chain" not in seen:
            chain, cur = [], (res[1][0] if res[1] else None)
            while cur is not None and len(chain) <= case["n"]:
                chain.append(index[id(cur)])
                c = cur.signals.output.ran.connections
                cur = c[0].owner if c else None
            seen["chain"] = chain
        return res

    def go():
        return ns[case["at"]].run() if case["op"] == "push" else ns[case["at"]].pull()

    before = None
    if case.get("prerun"):
        go()
        before = {i: term_str(ns[i].outputs.o.value) for i in ns}
        N.CALL_LOG.clear()
        N.EPOCH[0] = 1
    for i, key in case["fails"].items():
        N.EXC[int(i)] = key
    conns = {4 * j: [index[id(c.owner)] for c in ns[j].signals.output.ran.connections]
             for j in ns if ns[j].signals.output.ran.connections}
    outcome, exc = "ok", None
    nodemod.set_run_connections_according_to_linear_dag = lin
    try:
        go()
    except BaseException as e:  # noqa: BLE001
        outcome, exc = f"raised:{type(e).__name__}", e
    finally:
        nodemod.set_run_connections_according_to_linear_dag = orig_lin
    by_obj = {id(e): i for i, e in N.RAISED.items()}
    objs = _chain_objs(exc)
    return {
        "outcome": outcome, "chain_types": [type(e).__name__ for e in objs],
        "seen": "-" if exc is None else f"raw orig:{by_obj[id(exc)]}" if id(exc) in by_obj else "raw other:" + type(exc).__name__,
        "raised_is_orig": {str(i): any(e is x for x in objs) for i, e in N.RAISED.items()},
        "calls": list(N.CALL_LOG), "conns": conns, "chain": seen.get("chain"),
        "flags": {str(i): (bool(ns[i].running), bool(ns[i].failed)) for i in ns},
        "outs": {str(i): term_str(ns[i].outputs.o.value) for i in ns},
        "before": None if before is None else {str(i): v for i, v in before.items()},
    }


def _pchain_obs(case, r):
    return [f"P exec [{','.join(map(str, r['calls']))}]",
            f"P failed [{','.join(str(i) for i in range(case['n']) if r['flags'][str(i)][1])}]",
            f"P seen {r['seen']}"]


def _pchain_model_input(case, r):
    lines = [f"wn {case['n']}"]
    if case["op"] == "push":
        for e in sorted(r["conns"]):
            lines.append(f"wconn {e} " + " ".join(map(str, r["conns"][e])))
        head = case["at"]
    else:
        chain = list(r["chain"] or []) + [case["at"]]
        for a, b in zip(chain, chain[1:]):
            lines.append(f"wconn {4 * a} {b}")
        head = chain[0]
    lines.append("wfails " + " ".join(sorted(case["fails"], key=int)))
    if case.get("prerun"):
        lines.append("wpre")
    lines.append(f"wpush {head}")
    return lines


def _pchain_oracle(case, r):
    fails = []
    hit = [i for i in case["fails"] if int(i) in r["calls"]]
    invoked = str(case["at"])

    def sig(c):
        return {"clause": c, "kind": "pchain", "op": case["op"], "raiser_is_invoked": invoked in hit}

    if not hit:
        return fails
    if not r["outcome"].startswith("raised:"):
        fails.append({"clause": "error-does-not-reach-caller",
                      "detail": f"{case['op']} of {invoked} returned normally although {hit} raised", "signature": sig("reaches-caller")})
    elif len(hit) == 1 and not r["raised_is_orig"].get(hit[0]):
        fails.append({"clause": "original-exception-lost",
                      "detail": f"{case['fails'][hit[0]]} raised by {hit[0]} is not in the cause chain {r['chain_types']}",
                      "signature": sig("cause")})
    for h in hit:
        run, failed = r["flags"][h]
        if run or not failed:
            fails.append({"clause": "failing-node-flags", "detail": f"{h}: running={run} failed={failed}",
                          "signature": sig("node-flags")})
    for x, (run, failed) in r["flags"].items():
        if run:
            fails.append({"clause": "node-left-running", "detail": x, "signature": sig("left-running")})
        if failed and x not in hit:
            fails.append({"clause": "unrelated-node-marked-failed", "detail": x, "signature": sig("nobody-else")})
    for h in hit:
        expect = r["before"][h] if r["before"] is not None else "ND"
        if r["outs"][h] != expect:
            fails.append({"clause": "outputs-not-kept", "detail": f"{h}: {r['outs'][h]} vs {expect}",
                          "signature": sig("outputs-kept")})
    # contained: in a push a node runs only if some completed node's `ran` leads to it; in a pull nothing that takes data
    # from a failed node runs (in particular not the pulled node)
    if case["op"] == "push":
        may, changed = {case["at"]}, True
        while changed:
            changed = False
            for e, recvs in r["conns"].items():
                j = e // 4
                if j in may and str(j) not in hit:
                    for i in recvs:
                        if i not in may:
                            may.add(i)
                            changed = True
        bad = sorted(set(r["calls"]) - may)
    else:
        bad = [i for i in sorted(_downstream({"n": case["n"], "slots": case["slots"]}, [int(h) for h in hit]))
               if i in r["calls"]]
    if bad:
        fails.append({"clause": "downstream-of-failure-executed", "detail": f"{bad} ran although {hit} failed",
                      "signature": sig("no-downstream")})
    return fails


# =====================================================================================================
# parentless nodes with an ALL-OF join, over several rounds (kind "pjoin")
# =====================================================================================================
#
# case = {"kind": "pjoin", "heads": k, "rounds": [{"fails": {"<node>": key}}, ...]}
# parentless heads 0..k-1, a join node k waiting for ALL of them (`join.accumulate_and_run << (h.ran ...)`), a node
# k+1 after it (`join >> down`). A round: the caller runs every head in turn; between rounds the failed flags are cleared
# by hand. A failure downstream in one round, a failure upstream in the next.


def gen_pjoin_case(rng, classes):
    k = rng.randint(2, 3)
    names = list(range(k + 2))
    rounds = []
    for _ in range(rng.randint(2, 4)):
        r = rng.random()
        if r < 0.35:
            fl = [k]                      # the join's own function raises
        elif r < 0.7:
            fl = [rng.randrange(k)]       # a head raises
        elif r < 0.8:
            fl = [k + 1]
        elif r < 0.9:
            fl = rng.sample(names, 2)
        else:
            fl = []
        rounds.append({"fails": {str(i): rng.choice(classes) for i in fl}})
    return {"kind": "pjoin", "heads": k, "rounds": rounds}


def _run_pjoin(case):
    from . import nodes_c06 as N

    N.reset()
    k = case["heads"]
    ns = {i: N.term_node(i, label=f"n{i}") for i in range(k + 2)}
    for n in ns.values():
        n.use_cache = False
    for i, slot in zip(range(k), "abc"):
        ns[k].inputs[slot].connect(ns[i].outputs.o)
    ns[k + 1].inputs.a.connect(ns[k].outputs.o)
    ns[k].signals.input.accumulate_and_run << tuple(ns[i].signals.output.ran for i in range(k))
    ns[k] >> ns[k + 1]
    out = []
    for rd in case["rounds"]:
        N.CALL_LOG.clear()
        N.EXC.clear()
        N.RAISED.clear()
        N.EPOCH[0] += 1
        for i, key in rd["fails"].items():
            N.EXC[int(i)] = key
        pushes = []
        for h in range(k):
            raised_before = set(N.RAISED)
            n_calls = len(N.CALL_LOG)
            exc = None
            try:
                ns[h].run()
            except BaseException as e:  # noqa: BLE001
                exc = e
            new = sorted(set(N.RAISED) - raised_before)
            pushes.append({"head": h, "raisers": new, "raised": exc is not None, "calls": list(N.CALL_LOG[n_calls:]),
                           "carries": [i for i in new if any(x is N.RAISED[i] for x in _chain_objs(exc))],
                           "type": None if exc is None else type(exc).__name__})
        out.append({"pushes": pushes, "calls": list(N.CALL_LOG),
                    "flags": {str(i): (bool(n.running), bool(n.failed)) for i, n in ns.items()}})
        for n in ns.values():
            n.failed = False  # as users do before they try again
    return {"rounds": out}


def _pjoin_oracle(case, r):
    fails = []
    k = case["heads"]

    def sig(c, rd):
        return {"clause": c, "kind": "pjoin", "round": min(rd, 1)}

    seen, last_raised = set(), {}
    for rd, (spec, ro) in enumerate(zip(case["rounds"], r["rounds"])):
        raisers = sorted({i for p in ro["pushes"] for i in p["raisers"]})
        for p in ro["pushes"]:
            if p["raisers"] and not p["raised"]:
                fails.append({"clause": "error-does-not-reach-caller",
                              "detail": f"round {rd + 1}: run() of head {p['head']} returned although {p['raisers']} raised",
                              "signature": sig("reaches-caller", rd)})
            elif len(p["raisers"]) == 1 and not p["carries"]:
                fails.append({"clause": "original-exception-lost",
                              "detail": f"round {rd + 1}: head {p['head']}: caller got {p['type']}", "signature": sig("cause", rd)})
        for i in raisers:
            run, failed = ro["flags"][str(i)]
            if run or not failed:
                fails.append({"clause": "failing-node-flags", "detail": f"round {rd + 1}: {i}: running={run} failed={failed}",
                              "signature": sig("node-flags", rd)})
        for x, (run, failed) in ro["flags"].items():
            if run:
                fails.append({"clause": "node-left-running", "detail": f"round {rd + 1}: {x}", "signature": sig("left-running", rd)})
            if failed and int(x) not in raisers:
                fails.append({"clause": "unrelated-node-marked-failed", "detail": f"round {rd + 1}: {x}",
                              "signature": sig("nobody-else", rd)})
        # the join waits for ALL heads: it may run only when every head has announced completion (`ran`) since the join's
        # trigger last fired — nobody resets the trigger of parentless nodes between rounds, so what it holds carries
        # over; but a firing consumes what was collected, whatever became of the run it started
        for p in ro["pushes"]:
            h = p["head"]
            last_raised[h] = h in p["raisers"]
            if h not in p["raisers"]:
                seen.add(h)
            fire = len(seen) == k
            if fire:
                seen.clear()
            if k in p["calls"] and not fire:
                stale_failed = sorted(x for x in range(k) if x not in seen and last_raised.get(x))
                if stale_failed:
                    fails.append({"clause": "downstream-of-failure-executed",
                                  "detail": f"round {rd + 1}, run() of head {h}: the join executed although head(s) {stale_failed} "
                                            f"failed and have not completed since the join's trigger last fired; calls {p['calls']}",
                                  "signature": sig("no-downstream", rd)})
            if k in p["raisers"] and k + 1 in p["calls"]:
                fails.append({"clause": "downstream-of-failure-executed",
                              "detail": f"round {rd + 1}: the join failed, yet its successor ran: calls {p['calls']}",
                              "signature": sig("no-downstream", rd)})
    return fails
