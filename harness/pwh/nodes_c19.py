"""Importable node classes for the C19 check (class relations for the class check of `Node.load`).

No relative imports: `redefined()` executes this very file a second time (what a notebook autoreload or a cell that is
run again does) to obtain classes that are different objects with the same `__module__` and `__qualname__`.
"""

from __future__ import annotations

import importlib.util
import sys

from pyiron_workflow import Function, Macro, Workflow


class Base(Function):
    """a concrete function node; base class of the graph class `G`"""

    @staticmethod
    def node_function(a=0, b=0):
        o = (a, b)
        return o


class G(Base):
    """the graph class of the `fn` configuration"""


class GSub(G):
    """a subclass of the graph class"""


class H(Function):
    """an unrelated function node class with another name"""

    @staticmethod
    def node_function(a=0, b=0):
        o = [a, b]
        return o


class Boom(Function):
    """fails when told to (for runs that must leave a recovery file)"""

    @staticmethod
    def node_function(a=0):
        if a:
            raise RuntimeError("boom")
        o = a
        return o


class M(Macro):
    """an unrelated COMPOSITE class with connected children (loading node for the class check)"""

    def graph_creator(self, a=0):
        self.n = H(a=a)
        self.m = H(a=self.n.outputs.o)
        out = self.m.outputs.o
        return out


class WfSub(Workflow):
    """a subclass of Workflow"""


def make_op(kind="pair"):
    """one factory function, a new class per call: all of them are `make_op.<locals>.Op` of this module"""
    if kind == "pair":

        class Op(Base):
            @staticmethod
            def node_function(a=0, b=0):
                o = (a, b)
                return o

    else:

        class Op(Base):
            @staticmethod
            def node_function(a=0, b=0, c=0):
                o = (a, b, c)
                return o

    return Op


def make_sub(cls):
    class OpSub(cls):
        pass

    return OpSub


def custom_backends():
    """user-defined back ends (subclasses of the library's): `MyStorage` inherits all hooks; `NoHookStorage` writes the
    same temporaries but keeps the interface's default `_has_leftovers` (always False)"""
    if "be" not in _CACHE:
        from pyiron_workflow.storage import PickleStorage, StorageInterface

        class MyStorage(PickleStorage):
            pass

        class NoHookStorage(PickleStorage):
            pass

        if hasattr(StorageInterface, "_has_leftovers"):  # (a tree from before the hook existed has nothing to keep)
            NoHookStorage._has_leftovers = StorageInterface._has_leftovers

        _CACHE["be"] = {"custom": MyStorage, "nohook": NoHookStorage}
    return _CACHE["be"]


_CACHE: dict = {}


def factory_classes():
    """(graph class, a second class from the same factory with other IO, a subclass of the graph class)"""
    if "fac" not in _CACHE:
        a = make_op("pair")
        _CACHE["fac"] = (a, make_op("triple"), make_sub(a))
    return _CACHE["fac"]


def _execute_again(modname):
    m = sys.modules[modname]
    spec = importlib.util.spec_from_file_location(modname, m.__file__)
    m2 = importlib.util.module_from_spec(spec)
    spec.loader.exec_module(m2)  # NOT registered in sys.modules: the first definitions stay the importable ones
    return m2


def redefined():
    """this module executed again: `redefined().G` is another class object called `<this module>.G`"""
    if "redef" not in _CACHE:
        _CACHE["redef"] = _execute_again(__name__)
    return _CACHE["redef"]


def redefined_workflow():
    """`pyiron_workflow.workflow` executed again: another class object called `pyiron_workflow.workflow.Workflow`"""
    if "wf" not in _CACHE:
        _CACHE["wf"] = _execute_again("pyiron_workflow.workflow").Workflow
    return _CACHE["wf"]
