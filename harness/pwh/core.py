"""
Common machinery of the checks: Lean build + audit, model driver, impl workers,
correspondence diff, oracle verdicts, known findings, replay + evidence files.

Everything here is property-agnostic; a property module (pwh/cXX.py) supplies
  PROP, THEOREMS, DRIVER, gen_cases(rng, tier), run_impl(case), model_input(case),
  oracle(case, impl_obs) and (optionally) shrink_ops / nontrivial / describe.
"""

from __future__ import annotations

import fcntl
import hashlib
import json
import os
import random
import re
import shutil
import subprocess
import sys
import tempfile
import time
import traceback
from concurrent.futures import ProcessPoolExecutor
from dataclasses import dataclass, field
from pathlib import Path

VERIF = Path(__file__).resolve().parents[2]
LEAN = VERIF / "lean"
REPO = Path(os.environ.get("PW_REPO", "/repo"))
# evidence is only ever written about /repo itself: runs against a scratch copy (mutant evaluation) set PWH_SCRATCH_OUT
_OUT = Path(os.environ["PWH_SCRATCH_OUT"]) if os.environ.get("PWH_SCRATCH_OUT") else None
EVIDENCE = (_OUT / "evidence") if _OUT else VERIF / "evidence"
REPLAYS = (_OUT / "replays") if _OUT else VERIF / "out" / "replays"
ALLOWED_AXIOMS = {"propext", "Classical.choice", "Quot.sound"}
FORBIDDEN = re.compile(
    r"\bsorry\b|\badmit\b|^\s*axiom\s|native_decide|bv_decide|implemented_by|\bunsafe\s|maxHeartbeats\s+0\b"
)


def seed() -> int:
    try:
        return int(os.environ.get("VERIF_SEED", "0"))
    except ValueError:
        return 0


# --------------------------------------------------------------------------- Lean


def _strip_comments(src: str) -> str:
    src = re.sub(r"/-.*?-/", "", src, flags=re.S)
    src = re.sub(r"--[^\n]*", "", src)
    return src


def lean_closure(roots: list[str]) -> list[Path]:
    """the given Lean files plus everything of this package they import, transitively"""
    todo = [LEAN / r for r in roots]
    seen: dict[Path, None] = {}
    while todo:
        p = todo.pop()
        if p in seen or not p.exists():
            continue
        seen[p] = None
        for m in re.finditer(r"^import\s+(PwVerif(?:\.\w+)+)", p.read_text(), flags=re.M):
            todo.append(LEAN / (m.group(1).replace(".", "/") + ".lean"))
    return sorted(seen)


def lean_source_audit(roots: list[str] | None = None) -> list[str]:
    """grep the Lean sources (comments discarded) for forbidden constructs"""
    hits = []
    files = lean_closure(roots) if roots else sorted(LEAN.rglob("*.lean"))
    for p in files:
        if ".lake" in p.parts:
            continue
        for i, line in enumerate(_strip_comments(p.read_text()).splitlines(), 1):
            if FORBIDDEN.search(line):
                hits.append(f"{p.relative_to(LEAN)}:{i}: {line.strip()}")
    return hits


def lake_build(targets: list[str] | None = None, timeout=1500) -> tuple[bool, str]:
    (LEAN / ".lake").mkdir(exist_ok=True)
    lock = open(LEAN / ".lake" / "verif.lock", "w")
    fcntl.flock(lock, fcntl.LOCK_EX)
    try:
        r = subprocess.run(
            ["lake", "build", *(targets or [])], cwd=LEAN, capture_output=True, text=True, timeout=timeout
        )
        return r.returncode == 0, (r.stdout + r.stderr)
    finally:
        fcntl.flock(lock, fcntl.LOCK_UN)
        lock.close()


def print_axioms(prop_file: str, timeout=900) -> tuple[bool, dict[str, list[str]], str]:
    """
    Elaborate the property file itself (its imports come from the compiled library)
    and collect the `#print axioms` lines it ends with.
    """
    r = subprocess.run(
        ["lake", "env", "lean", prop_file],
        cwd=LEAN,
        capture_output=True,
        text=True,
        timeout=timeout,
    )
    out = r.stdout + r.stderr
    ax: dict[str, list[str]] = {}
    for m in re.finditer(
        r"'([^']+)' depends on axioms: \[([^\]]*)\]", out.replace("\n ", " ")
    ):
        ax[m.group(1)] = [a.strip() for a in m.group(2).split(",") if a.strip()]
    for m in re.finditer(r"'([^']+)' does not depend on any axioms", out):
        ax[m.group(1)] = []
    ok = r.returncode == 0 and not re.search(r"^\S+:\d+:\d+: error", out, flags=re.M)
    return ok, ax, out


def leanchecker(prop_file: str, timeout=1500) -> tuple[bool, str]:
    """independent re-check of the compiled property module (and what it imports) by the toolchain's leanchecker"""
    mod = prop_file.removesuffix(".lean").replace("/", ".")
    try:
        r = subprocess.run(["lake", "env", "leanchecker", mod], cwd=LEAN, capture_output=True, text=True, timeout=timeout)
    except (subprocess.TimeoutExpired, FileNotFoundError) as e:
        return False, f"leanchecker: {type(e).__name__}"
    return r.returncode == 0, (r.stdout + r.stderr)[-2000:]


@dataclass
class ProofStatus:
    ok: bool
    obligations: int
    discharged: int
    broken: list[str]
    axioms: dict[str, list[str]]
    log: str
    wall_s: float


def check_proofs(prop_file: str, theorems: list[str], driver: str | None = None) -> ProofStatus:
    t0 = time.time()
    broken: list[str] = []
    roots = [prop_file] + ([driver] if driver else [])
    # build exactly the modules this property depends on (the whole library is built by setup_cmd)
    mods = [
        str(p.relative_to(LEAN)).removesuffix(".lean").replace("/", ".")
        for p in lean_closure(roots)
        if p.relative_to(LEAN).parts[0] == "PwVerif"
    ]
    built, log = lake_build(mods)
    hits = lean_source_audit(roots)
    if hits:
        broken.append("source-audit: " + "; ".join(hits[:5]))
    axioms: dict[str, list[str]] = {}
    if not built:
        broken.append("lake build failed")
        # still try the property file on its own: names what no longer checks
    try:
        ok, axioms, out = print_axioms(prop_file)
        log += "\n" + out
        if not ok:
            broken.append(f"{prop_file} does not elaborate")
    except subprocess.TimeoutExpired:
        broken.append(f"{prop_file} timed out")
    discharged = 0
    for th in theorems:
        # names are printed fully qualified; accept a suffix match
        key = next((k for k in axioms if k == th or k.endswith("." + th)), None)
        if key is None:
            broken.append(f"theorem {th}: not checked")
            continue
        extra = set(axioms[key]) - ALLOWED_AXIOMS
        if extra:
            broken.append(f"theorem {th}: extra axioms {sorted(extra)}")
            continue
        discharged += 1
    return ProofStatus(
        ok=not broken,
        obligations=len(theorems),
        discharged=discharged,
        broken=broken,
        axioms=axioms,
        log=log[-6000:],
        wall_s=time.time() - t0,
    )


def run_driver(driver: str, lines: list[str], timeout=900) -> list[str]:
    """feed the op lines to the Lean model driver, return its output lines"""
    r = subprocess.run(
        ["lake", "env", "lean", "--run", driver],
        cwd=LEAN,
        input="\n".join(lines) + "\n",
        capture_output=True,
        text=True,
        timeout=timeout,
    )
    if r.returncode != 0:
        raise RuntimeError(f"model driver {driver} failed: {r.stderr[-2000:]}")
    return r.stdout.splitlines()


def run_model_cases(driver: str, cases: list[list[str]]) -> list[list[str]] | None:
    """
    Run many cases through one driver process. Cases are delimited by a `case` line,
    which every driver answers with a line `case`.
    Returns None if the driver cannot be run at all (model does not build).
    """
    lines: list[str] = []
    for c in cases:
        lines.append("case")
        lines.extend(c)
    try:
        out = run_driver(driver, lines)
    except Exception as e:  # noqa: BLE001
        sys.stderr.write(f"[model] {e}\n")
        return None
    res: list[list[str]] = []
    for line in out:
        if line == "case":
            res.append([])
        elif res:
            res[-1].append(line)
    if len(res) != len(cases):
        sys.stderr.write(f"[model] expected {len(cases)} cases, got {len(res)}\n")
        return None
    return res


# --------------------------------------------------------------------------- impl workers


def _worker_init():
    d = tempfile.mkdtemp(prefix="pwverif-")
    os.chdir(d)
    os.environ["PWVERIF_TMP"] = d
    import atexit

    atexit.register(shutil.rmtree, d, ignore_errors=True)
    # quiet the library
    import logging

    logging.disable(logging.CRITICAL)


class CaseTimeout(BaseException):
    """the implementation did not come back from one case within the per-case limit (a hang is an observation)"""


def _alarm(_sig, _frm):
    raise CaseTimeout()


def _worker_run(args):
    modname, case = args
    import importlib
    import signal

    mod = importlib.import_module(modname)
    limit = int(getattr(mod, "CASE_TIMEOUT", 0) or os.environ.get("PWH_CASE_TIMEOUT", 60))
    try:
        signal.signal(signal.SIGALRM, _alarm)
        signal.alarm(limit)
    except (ValueError, AttributeError):  # not in the main thread of the worker
        limit = 0
    # every case in a fresh sub directory (autoload / recovery files)
    d = tempfile.mkdtemp(dir=os.environ.get("PWVERIF_TMP", None))
    old = os.getcwd()
    os.chdir(d)
    try:
        return mod.run_impl(case)
    except CaseTimeout:
        return {"obs": [f"HARNESS-ERROR CaseTimeout: the implementation did not return within {limit} s"],
                "tb": traceback.format_exc()[-3000:]}
    except BaseException as e:  # noqa: BLE001
        return {"obs": [f"HARNESS-ERROR {type(e).__name__}: {e}"], "tb": traceback.format_exc()}
    finally:
        if limit:
            signal.alarm(0)
        os.chdir(old)
        shutil.rmtree(d, ignore_errors=True)


def run_impl_cases(modname: str, cases: list, workers: int | None = None, chunksize=8):
    workers = workers or int(os.environ.get("PWH_WORKERS", 0)) or min(16, os.cpu_count() or 4)
    if len(cases) <= 4 or workers == 1:
        _worker_init()
        return [_worker_run((modname, c)) for c in cases]
    with ProcessPoolExecutor(max_workers=workers, initializer=_worker_init) as ex:
        return list(ex.map(_worker_run, [(modname, c) for c in cases], chunksize=chunksize))


# --------------------------------------------------------------------------- findings


def load_known_findings(prop: str) -> list[dict]:
    p = VERIF / "known_findings.json"
    if not p.exists():
        return []
    data = json.loads(p.read_text())
    return [f for f in data.get("findings", []) if f.get("property") == prop]


def _unused():
    return None


def match_finding(sig: dict, findings: list[dict]) -> dict | None:
    for f in findings:
        if f.get("status") != "known":
            continue
        fs = f.get("signature", {})
        if fs and all(sig.get(k) == v for k, v in fs.items()):
            return f
    return None


# --------------------------------------------------------------------------- results


@dataclass
class Failure:
    kind: str  # oracle-failure | correspondence-divergence | proof-broken
    case: dict
    clause: str
    detail: str
    signature: dict = field(default_factory=dict)
    impl_obs: list = field(default_factory=list)
    model_obs: list = field(default_factory=list)


def write_replay(prop: str, tier: str, f: Failure, no_input: bool = False, unchecked=None) -> Path:
    d = REPLAYS / prop
    d.mkdir(parents=True, exist_ok=True)
    body = {
        "property": prop,
        "tier": tier,
        "seed": seed(),
        "kind": f.kind,
        "case": f.case,
        "violated_clause": f.clause,
        "detail": f.detail,
        "signature": f.signature,
        "impl_observation": f.impl_obs,
        "model_observation": f.model_obs,
        "unchecked": unchecked or {},
        "no_failing_input_found": no_input,
    }
    h = hashlib.sha1(json.dumps(body, sort_keys=True, default=str).encode()).hexdigest()[:12]
    p = d / f"{h}.json"
    p.write_text(json.dumps(body, indent=1, default=str))
    return p


def write_evidence(prop: str, tier: str, level: str, coverage: dict, assumptions: list[str],
                   wall_s: float, violations: int):
    EVIDENCE.mkdir(parents=True, exist_ok=True)
    body = {
        "property_id": prop,
        "tier": tier,
        "seed": seed(),
        "level": level,
        "coverage": coverage,
        "assumptions": assumptions,
        "wall_s": round(wall_s, 2),
        "violations": violations,
    }
    (EVIDENCE / f"{prop}.json").write_text(json.dumps(body, indent=1, default=str))


def rng_for(prop: str, stream: int = 0) -> random.Random:
    return random.Random(f"{prop}-{seed()}" + (f"-{stream}" if stream else ""))


def pins_changed(prop: str) -> list[str]:
    """anchored source files of the property whose AST differs from the pinned digest (tools/mkpins.py)"""
    import ast

    p = VERIF / "pins.json"
    if not p.exists():
        return []
    data = json.loads(p.read_text())
    if data.get("python") != list(sys.version_info[:2]):
        return []  # ast.dump differs between interpreter versions: no information
    changed = []
    for f in data.get("anchors", {}).get(prop, []):
        try:
            d = hashlib.sha256(ast.dump(ast.parse((REPO / f).read_text())).encode()).hexdigest()[:16]
        except Exception as e:  # noqa: BLE001
            d = f"unreadable:{type(e).__name__}"
        if data["files"].get(f) != d:
            changed.append(f)
    return changed
