"""
Importable node classes for C02 (hand-wired flows and trigger histories).

Every wrapped function takes a first input `tag` (the node's number in the case; never connected) so
that one class can serve many nodes and still log WHICH node's function was called with what.
The functions are strict about their argument types and never mutate their arguments, so that the
values are plain terms:

  T     (tag, a, b, c)        -> ("f", tag, a, b, c)            free term
  Ident (tag, x)              -> x
  Add   (tag, a, b)           -> a + b          ints only (bool is not an int here)
  Lt    (tag, a, b)           -> a < b          ints only
  LIf   (tag, condition)      -> bool(condition)  -- a subclass of the REAL standard.If (its extra
                                 `true`/`false` channels and `emitting_channels` are the library's)
  Append(tag, existing, new)  -> existing + [new]   (None = empty list)

A call is logged BEFORE the function may raise; `FAIL[tag]` is the set of attempt numbers (1-based)
at which the call raises `Boom`.
"""

from __future__ import annotations

from pyiron_workflow import as_function_node, as_macro_node
from pyiron_workflow.channels import NOT_DATA
from pyiron_workflow.nodes.standard import If

CALL_LOG: list = []  # (tag, (args...))
FAIL: dict[int, set] = {}
ATTEMPTS: dict[int, int] = {}


class Boom(RuntimeError):
    """injected or type failure of a wrapped function"""


MAIN_THREAD = [None]  # the thread the case runs on; wrapped functions of executor children run on helper threads
LOCAL_CALL_HOOK = [None]  # called (tag) when a wrapped function starts on the main thread, i.e. while a local child runs


def reset():
    import threading

    CALL_LOG.clear()
    FAIL.clear()
    ATTEMPTS.clear()
    MAIN_THREAD[0] = threading.get_ident()
    LOCAL_CALL_HOOK[0] = None


def _enter(tag, *args):
    import threading

    if MAIN_THREAD[0] is None or threading.get_ident() == MAIN_THREAD[0]:
        CALL_LOG.append((tag, tuple(args)))
    # (the call of an executor child is logged when it is SUBMITTED, by the harness's executor)
    ATTEMPTS[tag] = ATTEMPTS.get(tag, 0) + 1
    if LOCAL_CALL_HOOK[0] is not None and threading.get_ident() == MAIN_THREAD[0]:
        LOCAL_CALL_HOOK[0](tag)
    if ATTEMPTS[tag] in FAIL.get(tag, ()):
        raise Boom(f"injected {tag}#{ATTEMPTS[tag]}")


def _is_int(x):
    return type(x) is int


@as_function_node("o", validate_output_labels=False)
def T(tag=-1, a="d", b="d", c="d"):
    _enter(tag, a, b, c)
    r = ("f", tag, a, b, c)
    return r


@as_function_node("o", validate_output_labels=False)
def Ident(tag=-1, x=NOT_DATA):
    _enter(tag, x)
    return x


@as_function_node("o", validate_output_labels=False)
def Add(tag=-1, a=NOT_DATA, b=NOT_DATA):
    _enter(tag, a, b)
    if not (_is_int(a) and _is_int(b)):
        raise Boom("add: ints only")
    r = a + b
    return r


@as_function_node("o", validate_output_labels=False)
def Lt(tag=-1, a=NOT_DATA, b=NOT_DATA):
    _enter(tag, a, b)
    if not (_is_int(a) and _is_int(b)):
        raise Boom("lt: ints only")
    r = a < b
    return r


@as_function_node("o", validate_output_labels=False)
def Append(tag=-1, existing=None, new=NOT_DATA):
    _enter(tag, existing, new)
    if existing is None:
        r = [new]
    elif type(existing) is list:
        r = [*existing, new]
    else:
        raise Boom("append: list or None only")
    return r


class LIf(If):
    """the library's `If` with a logging wrapped function (output channel `truth`)"""

    @staticmethod
    def node_function(tag=-1, condition=NOT_DATA):
        _enter(tag, condition)
        truth = If.node_function(condition)
        return truth


@as_macro_node("o")
def MacroWithA(self, x="d"):
    self.a = T(tag=11, a=x)
    return self.a


@as_macro_node("o")
def MacroWithB(self, x="d"):
    self.b = T(tag=11, a=x)
    return self.b


KINDS = {"term": T, "ident": Ident, "add": Add, "lt": Lt, "if": LIf, "append": Append}
# data input labels per kind, in slot order (the tag is not a slot)
SLOTS = {
    "term": ["a", "b", "c"],
    "ident": ["x"],
    "add": ["a", "b"],
    "lt": ["a", "b"],
    "if": ["condition"],
    "append": ["existing", "new"],
}
OUT = {"term": "o", "ident": "o", "add": "o", "lt": "o", "if": "truth", "append": "o"}


# ---- building a hand-wired flow inside a workflow or inside a macro's graph creator ----------------

CH = ["ran", "failed", "true", "false"]
MACRO_SPEC: list = []  # the case the next FlowMacro* construction builds
BUILT: dict = {}


def build_flow(owner, case, ui=None, offset=0, wire=True):
    """children n0.. of `owner`, their data connections, their signal connections (every sugar form) and the
    starting nodes, exactly in the order the case lists them; `ui` is the macro's UI node (child number
    len(nodes)) when the host is a macro with an input"""
    ns = []
    for i, nd in enumerate(case["nodes"]):
        kw = {}
        for lab, tok in zip(SLOTS[nd["kind"]], nd["own"]):
            kw[lab] = _tok(tok)
        n = KINDS[nd["kind"]](label=f"n{offset + i}", tag=offset + i, **kw)
        n.use_cache = bool(nd["cache"])
        n.recovery = None
        if nd.get("fail"):
            FAIL[offset + i] = set(nd["fail"])
        owner.add_child(n)
        ns.append(n)
    for dst, slot, src in case["data"]:
        lab = SLOTS[case["nodes"][dst]["kind"]][slot]
        out = ui.outputs.user_input if src == len(ns) else ns[src].outputs[OUT[case["nodes"][src]["kind"]]]
        ns[dst].inputs[lab].connect(out)
    for src, c, dst, acc, via in case["sig"]:
        connect_signal(ns[src], c, ns[dst], acc, via)
    owner.starting_nodes = [ns[i] for i in case["starters"]]
    return ns


def connect_signal(src_node, c, dst_node, acc, via):
    if True:
        ns = {0: src_node, 1: dst_node}
        src, dst = 0, 1
        sig = ns[src].signals.output[CH[c]]
        recv = ns[dst].signals.input.accumulate_and_run if acc else ns[dst].signals.input.run
        if via == "connect":
            recv.connect(sig)
        elif via == "sconnect":
            sig.connect(recv)
        elif via == "rshift":
            if c == 0 and not acc:
                ns[src] >> ns[dst]
            else:
                sig >> recv
        elif via == "lshift":
            if not acc:
                sig >> ns[dst]
            elif c == 0:
                ns[dst] << ns[src]
            else:
                ns[dst] << sig
        else:
            raise ValueError(via)


def _tok(tok):
    if tok == "ND":
        return NOT_DATA
    if tok == "d":
        return "d"
    if tok == "N":
        return None
    if tok == "bT":
        return True
    if tok == "bF":
        return False
    if tok.startswith("n"):
        return int(tok[1:])
    raise ValueError(tok)


@as_macro_node("o", validate_output_labels=False)
def FlowMacro0(self):
    case = MACRO_SPEC.pop(0)
    ns = build_flow(self, case, offset=case.get("offset", 0))
    BUILT["ns"] = ns
    return ns[0]


@as_macro_node("o", validate_output_labels=False)
def FlowMacro1(self, x="d"):
    case = MACRO_SPEC.pop(0)
    ns = build_flow(self, case, ui=x)
    BUILT["ns"] = ns
    return ns[0]


@as_macro_node("o", validate_output_labels=False)
def FlowMacroG(self):
    """children with arbitrary global numbers (`offsets`), built one by one, then wired"""
    case = MACRO_SPEC.pop(0)
    ns = []
    for k, g in enumerate(case["offsets"]):
        one = {"nodes": [case["nodes"][k]], "data": [], "sig": [], "starters": []}
        ns.append(build_flow(self, one, offset=g)[0])
    for dst, slot, src in case["data"]:
        lab = SLOTS[case["nodes"][dst]["kind"]][slot]
        ns[dst].inputs[lab].connect(ns[src].outputs[OUT[case["nodes"][src]["kind"]]])
    for src, c, dst, acc, via in case["sig"]:
        connect_signal(ns[src], c, ns[dst], acc, via)
    self.starting_nodes = [ns[i] for i in case["starters"]]
    BUILT["ns"] = ns
    return ns[0]
