"""C07 — saving and loading returns an observationally identical graph."""

from __future__ import annotations

import copy
import os

PROP = "C07"
PROP_FILE = "PwVerif/Props/C07.lean"
DRIVER = "Driver/C07.lean"
THEOREMS = [
    "C07_roundtrip",
    "C07_roundtrip_file",
    "C07_roundtrip_twice",
    "C07_roundtrip_partial",
    "C07_unordered_sides",
    "C07_child_alone",
    "C07_rerun",
    "C07_refetch",
    "C07_restore_reverses_priority",
    "C07_pinned_statement_false",
    "C07_file_double_restore",
    "C07_firing_order_changes",
    "C07_dangling_link_unloadable",
    "C07_running_link_unloadable",
    "C07_foreign_connection_unloadable",
    "C07_composite_cache_forgotten",
    "C07_foreign_connection_dropped",
    "C07_loaded_macro_not_resavable",
    "C07_cached_io_view_drops_link",
    "C07_autoload_stored_wins",
    "C07_ctor_last_overrides_stored",
    "C07_last_save_wins",
    "C07_stale_file_shadows",
    "C07_load_in_place",
    "C07_load_in_place_orphans",
    "C07_refused_connection_unloadable",
    "C07_roundtrip_file_own",
    "C07_executor_instructions",
    "C07_narrow_strip_loses_instructions",
    "C07_rerun_dag",
    "C07_rerun_store",
]
RULE = (
    "seeded random graphs built from REAL objects (term function nodes, transformers, for-loops, nested macros "
    "up to depth 3, hand-wired signal flows incl. a cyclic while-loop, multiply connected inputs in random order) "
    "in the states fresh / partially run (pull) / fully run / failed midway / pickled from inside a run, round-tripped "
    "once or twice through pickle, cloudpickle and save()/load(), as a root or as a child on its own; before/after "
    "snapshots compared and both copies run again. Non-trivial = a composite with at least one data connection "
    "that was actually loaded or refused; distinct by canonical case."
)
TRUSTED = [
    "Model/Serial.lean transcribes the __getstate__/__setstate__ chain of Channel, DataChannel, Lexical, LexicalParent, "
    "Runnable, Composite, Macro, For and Node.load; pickle/cloudpickle themselves are modelled as 'call __getstate__ "
    "recursively, rebuild children first, then call __setstate__' (validated lock-step on every generated case)",
    "the snapshot function of harness/pwh/c07.py (abstraction of live objects to labels, values by repr, ordered lists)",
    "which repair variant the library implements is probed once per process on three tiny witnesses and handed to the "
    "model as its Cfg (a regression to the pinned behaviour makes the oracle fail on the witnesses in the corpus)",
]
ASSUMPTIONS = [
    "type hints and strict_hints are not changed after a connection was made (restore re-validates connections)",
    "values are compared by repr (user data with a non-deterministic repr is out of scope)",
    "connections never leave the composite whose children they join, except in the cases generated to show that "
    "such a graph cannot be loaded (KeyError)",
    "a later run is modelled only as far as what it READS (scheduler graph, fetch order, values, flags); that equal "
    "readings give equal runs is the determinism of the execution models of C01/C02/C03; the harness additionally "
    "re-runs original and copy on the real implementation and compares outputs, call order and provenance",
]

SIG_IN = {"run": 0, "accumulate_and_run": 1}
SIG_OUT = {"ran": 0, "failed": 1, "true": 2, "false": 3}

# ----------------------------------------------------------------------------- snapshots of real objects


def _vrepr(v):
    from pyiron_workflow import NOT_DATA

    if v is NOT_DATA:
        return "nd"
    return "v:" + repr(v)


def _exec_repr(ex):
    from concurrent.futures import Executor

    if ex is None:
        return "-"
    if isinstance(ex, Executor):
        return "live"
    if isinstance(ex, tuple) and len(ex) == 3 and callable(ex[0]):
        # instructions: WHO is asked (class or provider function, by qualified name — no addresses), with what
        f = ex[0]
        return "i:" + f"{getattr(f, '__module__', '?')}.{getattr(f, '__qualname__', repr(f))}" + repr(ex[1]) + repr(
            sorted(ex[2].items()) if isinstance(ex[2], dict) else ex[2])
    return "i:" + repr(ex)


def _conn_list(ch, comp):
    # third entry: is the partner's owner really a child of this composite (or only a label)?
    return [[c.owner.label, c.label, c.owner.parent is comp or comp.children.get(c.owner.label) is c.owner]
            for c in ch.connections]


def snap(node):
    """the whole observable state of a (sub)graph as plain data; lists are in the library's own order"""
    from pyiron_workflow.nodes.composite import Composite
    from pyiron_workflow.nodes.for_loop import For
    from pyiron_workflow.nodes.macro import Macro
    from pyiron_workflow.workflow import Workflow

    if isinstance(node, Workflow):
        kind = "w"
    elif isinstance(node, For):
        kind = "f"
    elif isinstance(node, Macro):
        kind = "m"
    else:
        kind = "l"
    d = {
        "label": node.label,
        "cls": f"{type(node).__module__}.{type(node).__qualname__}",
        "kind": kind,
        "running": bool(node.running),
        "failed": bool(node.failed),
        "exec": _exec_repr(node.executor),
        "bexec": _exec_repr(node.body_node_executor) if kind == "f" else "-",
        "det": node._detached_parent_path,
        "has_parent": node.parent is not None,
        "auto": bool(node.automate_execution) if kind == "w" else True,
        "maps": None if kind != "w" or (node._inputs_map is None and node._outputs_map is None) else "m:" + repr(
            (sorted((node._inputs_map or {}).items(), key=repr), sorted((node._outputs_map or {}).items(), key=repr))),
        "lexical_path": node.lexical_path,
        "storage_path": str(node.as_path(root="R")),
        "parent_path": node.parent.lexical_path if node.parent is not None else None,
        "ins": [] if kind == "w" else [[k, _vrepr(c.value), bool(c.strict_hints)] for k, c in node.inputs.items()],
        "outs": [] if kind == "w" else [[k, _vrepr(c.value), bool(c.strict_hints)] for k, c in node.outputs.items()],
        "sin": list(node.signals.input.labels),
        "sout": list(node.signals.output.labels),
        "recv": sorted(getattr(node.signals.input.accumulate_and_run, "received_signals", [])),
        "cached": None if node._cached_inputs is None else "c:" + repr(
            (sorted((k, _vrepr(v)) for k, v in node._cached_inputs.items()),)),
        "own_conns": sum(len(c.connections) for p in (node.inputs, node.outputs, node.signals.input,
                                                      node.signals.output) for c in p) if kind != "w" else 0,
        "start": [], "prov": [], "ilinks": [], "olinks": [], "children": [],
        "di": [], "do": [], "si": [], "so": [], "ioview": [], "refused": [],
    }
    if kind == "w" and node.__dict__.get("_inputs") is not None:
        # what `_rebuild_data_io` left behind: a view of the exposed child inputs, pickled before the children
        for ch in node.__dict__["_inputs"]:
            own = ch.owner
            cur = own.parent is node and node.children.get(own.label) is own
            d["ioview"].append([own.label, ch.label, bool(cur)])
    if isinstance(node, Composite):
        d["start"] = [n.label for n in node.starting_nodes]
        d["prov"] = list(node.provenance_by_execution)
        for ch in node:
            d["children"].append(snap(ch))
            d["children"][-1]["parent_ok"] = ch.parent is node
            for k, c in ch.inputs.items():
                if c.connections:
                    d["di"].append([[ch.label, k], _conn_list(c, node)])
                    for o in c.connections:
                        try:
                            okay = c._valid_connection(o)
                        except Exception:  # noqa: BLE001
                            okay = True
                        if not okay:  # accepted when it was made, would be refused by today's hints
                            d["refused"].append([[ch.label, k], [o.owner.label, o.label]])
            for k, c in ch.outputs.items():
                if c.connections:
                    d["do"].append([[ch.label, k], _conn_list(c, node)])
            for k, c in ch.signals.input.items():
                if c.connections:
                    d["si"].append([[ch.label, k], _conn_list(c, node)])
            for k, c in ch.signals.output.items():
                if c.connections:
                    d["so"].append([[ch.label, k], _conn_list(c, node)])
        if kind in ("m", "f"):
            for k, c in node.inputs.items():
                r = c.value_receiver
                if r is not None:
                    d["ilinks"].append([k, r.owner.label, r.label, r.owner.parent is node])
            for ch in node:
                for k, c in ch.outputs.items():
                    r = c.value_receiver
                    if r is not None:
                        d["olinks"].append([ch.label, k, r.label])
    return d


# ----------------------------------------------------------------------------- interning + the two renderings


class Intern:
    def __init__(self, foreign_by_identity=False):
        self.tabs = {}
        self.foreign_by_identity = foreign_by_identity

    def __call__(self, space, key):
        t = self.tabs.setdefault(space, {})
        if space == "sin" and key in SIG_IN:
            return SIG_IN[key]
        if space == "sout" and key in SIG_OUT:
            return SIG_OUT[key]
        if key not in t:
            base = 10 if space in ("sin", "sout") else 0
            t[key] = base + len(t)
        return t[key]


def _val(I, v):
    return "nd" if v == "nd" else str(I("val", v))


def _exec(I, e):
    if e in ("-", "live"):
        return e
    return f"i{I('exec', e)}"


def _maps(I, m):
    return 0 if m is None else 1 + I("maps", m)


def _path(I, p):
    if p is None:
        return None
    return [I("node", x) for x in p.split("/") if x != ""]


def _addr(I, side, a):
    space = {"di": "din", "do": "dout", "si": "sin", "so": "sout"}[side]
    lab = a[0]
    if len(a) > 2 and not a[2] and I.foreign_by_identity:
        lab = "foreign:" + lab  # the repaired library tells siblings from strangers by identity, not by label
    return (I("node", lab), I(space, a[1]))


_CONJ = {"di": "do", "do": "di", "si": "so", "so": "si"}


def model_rows(I, s, rows, parent=None):
    """table rows describing the live graph `s` to the driver (ids in preorder)"""
    nid = len([r for r in rows if r.startswith("node ")])
    lab = I("node", s["label"])
    rows.append(f"node {nid} {'-' if parent is None else parent} {lab} {I('cls', s['cls'])} {s['kind']}")
    rows.append(f"flags {nid} {int(s['running'])} {int(s['failed'])} {_exec(I, s['exec'])} {_exec(I, s['bexec'])}")
    rows.append(f"wfopts {nid} {int(s.get('auto', True))} {_maps(I, s.get('maps'))}")
    if s["det"] is not None:
        rows.append(f"det {nid} " + " ".join(map(str, _path(I, s["det"]))))
    for k, v, st in s["ins"]:
        rows.append(f"din {nid} {I('din', k)} {_val(I, v)} {int(st)}")
    for k, v, st in s["outs"]:
        rows.append(f"dout {nid} {I('dout', k)} {_val(I, v)} {int(st)}")
    rows.append(f"sin {nid} " + " ".join(str(I("sin", k)) for k in s["sin"]))
    rows.append(f"sout {nid} " + " ".join(str(I("sout", k)) for k in s["sout"]))
    if s["recv"]:
        rows.append(f"recv {nid} " + " ".join(str(I("scoped", k)) for k in s["recv"]))
    if s["cached"] is not None:
        rows.append(f"cached {nid} {_val(I, s['cached'])}")
    if s["start"]:
        rows.append(f"start {nid} " + " ".join(str(I("node", k)) for k in s["start"]))
    if s["prov"]:
        rows.append(f"prov {nid} " + " ".join(str(I("node", k)) for k in s["prov"]))
    for k, cl, cx, _inside in s["ilinks"]:
        rows.append(f"ilink {nid} {I('din', k)} {I('node', cl)} {I('din', cx)}")
    for cl, co, out in s["olinks"]:
        rows.append(f"olink {nid} {I('node', cl)} {I('dout', co)} {I('dout', out)}")
    for a, b in s.get("refused", []):
        x, y = _addr(I, "di", a), _addr(I, "do", b)
        rows.append(f"refused {nid} {x[0]} {x[1]} {y[0]} {y[1]}")
    for side, fl, io in (("di", "d", "i"), ("do", "d", "o"), ("si", "s", "i"), ("so", "s", "o")):
        for key, lst in s[side]:
            a = _addr(I, side, key)
            vals = [_addr(I, _CONJ[side], x) for x in lst]
            rows.append(f"conn {nid} {fl} {io} {a[0]} {a[1]} " + " ".join(f"{x} {y}" for x, y in vals))
    for ch in s["children"]:
        model_rows(I, ch, rows, nid)
    return nid


def view_row(I, s):
    ents = [(I("node", a), I("din", b)) for a, b, cur in s.get("ioview", []) if cur]
    return "view " + " ".join(f"{a} {b}" for a, b in ents) if ents else None


def render(I, s, path=()):
    """the observation lines of a snapshot, character for character what the Lean driver prints"""
    q = list(path) + [I("node", s["label"])]
    ps = "/" + "/".join(map(str, q))
    det = "-" if s["det"] is None else "/" + "/".join(map(str, _path(I, s["det"])))
    cached = "-" if s["cached"] is None else "[" + _val(I, s["cached"]) + "]"
    ex = "-" if s["exec"] == "live" else _exec(I, s["exec"])
    bex = "-" if s["bexec"] == "live" else _exec(I, s["bexec"])

    def L(space, xs):
        return ",".join(str(I(space, x)) for x in xs)

    out = [
        f"N {ps} {q[-1]} {I('cls', s['cls'])} {s['kind']} {int(s['running'])} {int(s['failed'])} {ex} {bex} "
        f"det={det} start={L('node', s['start'])} prov={L('node', s['prov'])} recv={L('scoped', s['recv'])} "
        f"cached={cached} auto={int(s.get('auto', True))} maps={_maps(I, s.get('maps'))}",
        f"I {ps} " + " ".join(f"{I('din', k)}={_val(I, v)}/{int(st)}" for k, v, st in s["ins"]),
        f"O {ps} " + " ".join(f"{I('dout', k)}={_val(I, v)}/{int(st)}" for k, v, st in s["outs"]),
        f"S {ps} in={L('sin', s['sin'])} out={L('sout', s['sout'])}",
        f"L {ps} " + " ".join(
            [f"i:{I('din', k)}>{I('node', cl)}.{I('din', cx)}" for k, cl, cx, _ in s["ilinks"]]
            + [f"o:{I('node', cl)}.{I('dout', co)}>{I('dout', o)}" for cl, co, o in s["olinks"]]),
    ]
    for side, tag in (("di", "DI"), ("do", "DO"), ("si", "SI"), ("so", "SO")):
        # the driver prints in panel order child → channel; the snapshot was collected in that order per side
        for key, lst in s[side]:
            a = _addr(I, side, key)
            out.append(f"{tag} {ps} {a[0]}.{a[1]} " + " ".join("%d.%d" % _addr(I, _CONJ[side], x) for x in lst))
    for ch in s["children"]:
        out.extend(render(I, ch, q))
    return out


# ----------------------------------------------------------------------------- which variant is the library?

_VARIANT = None


def variant():
    """(revIter, firing, pushIn, pushOut, pushFor, keepCache, skipForeign, rebindOwners, noView, keepPlace) of the
    library under test, probed on tiny real graphs"""
    global _VARIANT
    if _VARIANT is not None:
        return _VARIANT
    import pickle

    from pyiron_workflow import Workflow

    from . import nodes
    from . import nodes_c07 as N

    wf = Workflow("pv", autoload=None)
    wf.a = nodes.F1()
    wf.b = nodes.F2()
    wf.c = nodes.F3()
    wf.c.inputs.a.connect(wf.a.outputs.o)
    wf.c.inputs.a.connect(wf.b.outputs.o)
    wf.a.signals.input.run.connect(wf.c.signals.output.ran)  # c.ran -> [a]
    wf.b.signals.input.run.connect(wf.c.signals.output.ran)  # c.ran -> [b, a]   (canonical would be [b, a] too)
    wf.c.signals.input.run.connect(wf.a.signals.output.ran)
    wf.b.signals.input.run.connect(wf.a.signals.output.ran)  # a.ran -> [b, c]   (canonical: [c, b])
    w2 = pickle.loads(pickle.dumps(wf))
    rev = [c.owner.label for c in w2.c.inputs.a.connections] == ["b", "a"]
    fir = [c.owner.label for c in w2.a.signals.output.ran.connections] == ["b", "c"]
    N.CUR.append({"children": [{"label": "k", "kind": "F", "i": 1}], "data": [["k", "a", ["arg", "x"]]],
                  "returns": [["k", "o"]]})
    try:
        m = N.M1(label="pm")
    finally:
        N.CUR.pop()
    m.inputs.x.value = 1
    m.k.inputs.a._value = 2  # out of step on purpose
    m.outputs.out._value = "stale"
    m2 = pickle.loads(pickle.dumps(m))
    push = m2.k.inputs.a.value == 1
    push_out = m2.outputs.out.value != "stale"
    fl = N.ForF1(label="pf", a=[1], b=5)
    fl.run()
    fl.body_0.inputs.b._value = "stale"
    push_for = pickle.loads(pickle.dumps(fl)).body_0.inputs.b.value == 5
    wf.run()
    keep = pickle.loads(pickle.dumps(wf))._cached_inputs is not None
    ext = nodes.F4(label="stranger")
    wf.a.inputs.c.connect(ext.outputs.o)
    try:
        pickle.loads(pickle.dumps(wf))
        skip = True
    except Exception:  # noqa: BLE001
        skip = False
    fn = os.path.join(os.getcwd(), "pv_probe_dir", "pv_probe")  # own directory: storage removes emptied directories
    m.save(backend="pickle", filename=fn)
    N.CUR.append({"children": [{"label": "k", "kind": "F", "i": 1}], "data": [["k", "a", ["arg", "x"]]],
                  "returns": [["k", "o"]]})
    try:
        m3 = N.M1(label="pm")
    finally:
        N.CUR.pop()
    m3.load(backend="pickle", filename=fn)
    rebind = m3.inputs.x.owner is m3
    m.outputs.out._value = m.k.outputs.o.value
    wv = Workflow("pvv", autoload=None)
    N.CUR.append({"children": [{"label": "k", "kind": "F", "i": 1}], "data": [["k", "a", ["arg", "x"]]],
                  "returns": [["k", "o"]]})
    try:
        wv.mm = N.M1(label="mm")
    finally:
        N.CUR.pop()
    wv.pl = nodes.F2()
    wv.replace_child(wv.pl, nodes.F3(label="repl"))
    noview = pickle.loads(pickle.dumps(wv)).mm.inputs.x.value_receiver is not None
    fn2 = os.path.join(os.getcwd(), "pv_probe_dir", "pv_inplace")
    wv.pl.save(backend="pickle", filename=fn2)
    wv.pl.load(backend="pickle", filename=fn2)
    keepplace = int(wv.pl.parent is wv)  # 0: orphaned, 1: parent kept, 2: connections kept too
    wk = Workflow("pvk", autoload=None)
    wk.a = nodes.F1()
    wk.b = nodes.F2(a=wk.a)
    fn3 = os.path.join(os.getcwd(), "pv_probe_dir", "pv_inplace2")
    wk.b.save(backend="pickle", filename=fn3)
    wk.b.load(backend="pickle", filename=fn3)
    if keepplace and wk.b.inputs.a.connections and wk.a.outputs.o.connections[0] is wk.b.inputs.a:
        keepplace = 2
    fresh_b = nodes.F2(label="b")
    fresh_b.load(backend="pickle", filename=fn3)
    owndet = fresh_b.detached_parent_path is None
    here = os.getcwd()
    os.makedirs(os.path.join(here, "pv_probe_dir", "al"), exist_ok=True)
    os.chdir(os.path.join(here, "pv_probe_dir", "al"))
    try:
        wa = Workflow("pva", autoload=None, automate_execution=False)
        wa.a = nodes.F1()
        wa.save(backend="pickle")
        ctorlast = Workflow("pva").automate_execution is True  # the constructor's default beat the stored False
    finally:
        os.chdir(here)
    wh = Workflow("pvh", autoload=None)
    wh.a = nodes.TypedOut()
    wh.b = nodes.Typed()
    wh.b.inputs.i.strict_hints = False
    wh.b.inputs.i.connect(wh.a.outputs.os)
    wh.b.inputs.i.strict_hints = True
    try:
        pickle.loads(pickle.dumps(wh))
        reval = False
    except Exception:  # noqa: BLE001
        reval = True
    _VARIANT = (int(rev), int(fir), int(push), int(push_out), int(push_for), int(keep), int(skip), int(rebind),
                int(noview), int(keepplace), int(reval), int(owndet), int(ctorlast))
    return _VARIANT


# ----------------------------------------------------------------------------- building and driving real graphs


def _build_root(case):
    from pyiron_workflow import Workflow

    from . import nodes_c07 as N

    r = case["root"]
    if r["kind"] == "wf":
        wf = Workflow(r["label"], autoload=None, automate_execution=r["spec"].get("auto", True),
                      inputs_map=r["spec"].get("imap"), outputs_map=r["spec"].get("omap"))
        spec = r["spec"]
        if case.get("foreign"):
            # a node OUTSIDE the workflow feeds one of its children
            from . import nodes

            spec = copy.deepcopy(spec)
            ext = nodes.term_node(30, label=case["foreign"]["label"])
            spec["data"] = list(spec.get("data", [])) + [
                [case["foreign"]["dst"], case["foreign"]["dst_in"], ["ext", ext.outputs.o]]]
            N.populate(wf, spec)
            return wf, ext
        N.populate(wf, spec)
        return wf, None
    return N.make_child(r), None


def _descend(node, path):
    for lab in path:
        node = node.children[lab]
    return node


def _spec_at(case, path):
    s = case["root"]
    for lab in path:
        s = next(c for c in s["spec"]["children"] if c["label"] == lab)
    return s


def _fresh_like(case, path, autoload=False):
    """a new, never run instance of the same class and label (what `load()` is called on); with `autoload`: the
    constructor itself finds the save file — `Workflow(label)` the usual way, with whatever constructor arguments
    `case["ctor"]` says (none = all defaults)"""
    from pyiron_workflow import Workflow

    from . import nodes_c07 as N

    s = _spec_at(case, path)
    if s["kind"] == "wf":
        if autoload:
            ctor = dict(case.get("ctor") or {})
            kw = {}
            if "auto" in ctor:
                kw["automate_execution"] = ctor["auto"]
            if "imap" in ctor:
                kw["inputs_map"] = ctor["imap"]
            if ctor.get("explicit"):
                kw["autoload"] = "pickle"
            return Workflow(s["label"], **kw)  # autoload="pickle" is the default of a workflow
        return Workflow(s["label"], autoload=None, automate_execution=s["spec"].get("auto", True))
    s = dict(s)
    s["const"] = {}
    if autoload:
        s["_ctor"] = {"autoload": "pickle"}
    return N.make_child(s)


_COUNTER = [0]


class _Remote:
    """stands for a copy that lives in ANOTHER interpreter: only its snapshot (and re-run record) came back"""

    def __init__(self, snapshot, rerun):
        self.snapshot = snapshot
        self.rerun = rerun


def _roundtrip_newproc(obj, case, path):
    """save() here, load() in a NEW interpreter with another hash seed (a restart), snapshot taken there"""
    import json
    import subprocess
    import sys

    _COUNTER[0] += 1
    fn = os.path.join(os.getcwd(), f"np{_COUNTER[0]}")
    obj.save(backend="pickle", filename=fn)
    job = {"case": case, "path": path, "file": fn, "rerun": case.get("rerun") if not path else None}
    jf = fn + ".job.json"
    with open(jf, "w") as f:
        json.dump(job, f)
    env = dict(os.environ)
    env["PYTHONHASHSEED"] = str(case.get("hashseed", 4242))
    r = subprocess.run([sys.executable, "-m", "pwh.c07", "--child", jf], env=env, capture_output=True, text=True,
                       timeout=120, cwd=os.getcwd())
    out = [ln for ln in r.stdout.splitlines() if ln.startswith("C07CHILD ")]
    if not out:
        raise RuntimeError("newproc:" + (r.stderr.strip().splitlines() or ["no output"])[-1][:150])
    ans = json.loads(out[-1][len("C07CHILD "):])
    if "error" in ans:
        e = {"KeyError": KeyError, "AttributeError": AttributeError, "RuntimeError": RuntimeError,
             "TypeError": TypeError}.get(ans["error"], RuntimeError)
        raise e(ans.get("msg", ""))
    return _Remote(ans["snap"], ans.get("rerun"))


def _child_main(jobfile):
    """the other side of `_roundtrip_newproc`"""
    import json

    from . import nodes
    from . import nodes_c07 as N

    job = json.load(open(jobfile))
    case, path = job["case"], job["path"]
    nodes.reset()
    _CTL["choices"] = list(case["schedule"]) if case.get("ctl") else None
    N.SCHED[:] = [N.SnapScheduler(case.get("schedule", []))]
    try:
        fresh = _fresh_like(case, path)
        fresh.load(backend="pickle", filename=job["file"])
    except BaseException as e:  # noqa: BLE001
        print("C07CHILD " + json.dumps({"error": type(e).__name__, "msg": str(e)[:200]}))
        return
    ans = {"snap": snap(fresh)}
    if job.get("rerun"):
        if not case.get("rerun_clear_fail"):
            for i in case.get("fail", []):
                nodes.FAIL[i] = {0}
        if case.get("rerun_eq_cache"):
            from pyiron_workflow.nodes.composite import Composite

            for n in _all_nodes(fresh):
                if isinstance(n, Composite):
                    n._cached_inputs = None
        ans["rerun"] = _rerun(fresh, job["rerun"])
    print("C07CHILD " + json.dumps(ans, default=str))


def _roundtrip(obj, backend, case, path):
    from . import nodes_c07 as N

    if backend == "newproc":
        return _roundtrip_newproc(obj, case, path)
    if backend == "autoload":
        obj.save(backend="pickle")  # the canonical place: <cwd>/<lexical path>/picklestorage.*
        return _fresh_like(case, path, autoload=True)
    if backend in ("pickle", "cloudpickle"):
        return N.loads(N.dumps(obj, backend), backend)
    _COUNTER[0] += 1
    fn = os.path.join(os.getcwd(), f"sv{_COUNTER[0]}")
    obj.save(backend="pickle", filename=fn)
    fresh = _fresh_like(case, path)
    fresh.load(backend="pickle", filename=fn)
    return fresh


def _resave(root, case, res, stats):
    """save; edit; save AGAIN at the same place; load: what comes back must be the graph as it was saved last"""
    fn = os.path.join(os.getcwd(), "resave_dir", "here")
    stats["resave"] = 1
    res["resave"] = True
    try:
        root.save(backend="pickle", filename=fn)
        res["edits2"] = [_edit(root, e) for e in case["resave"]]
        res["before"] = snap(root)
        root.save(backend="pickle", filename=fn)
        stats["resave:files:" + "+".join(sorted(x.rsplit(".", 1)[-1] for x in os.listdir(os.path.dirname(fn))))] = 1
        fresh = _fresh_like(case, [])
        fresh.load(backend="pickle", filename=fn)
        return fresh
    except BaseException as e:  # noqa: BLE001
        if res.get("before") is None:
            res["before"] = snap(root)
        res["error"] = {"round": 0, "cls": type(e).__name__, "msg": str(e)[:200]}
        return None


def _edit(root, e):
    """an edit of the graph between building it and saving it; returns what happened"""
    from . import nodes

    try:
        comp = _descend(root, e[1])
        if e[0] == "replace":
            comp.replace_child(comp.children[e[2]], nodes.term_node(e[3], label="repl"))
        elif e[0] == "readd":
            n = comp.remove_child(e[2])
            comp.add_child(n)
        elif e[0] == "relabel":
            comp.add_child(comp.children[e[2]], label=e[3])  # re-labelling through the parent
        elif e[0] == "remove":
            comp.remove_child(e[2])
        elif e[0] == "addloc":
            from . import nodes_c07 as N

            n = N.Loc(label=e[2])  # a node whose class cannot be imported: plain pickle will refuse the graph
            comp.add_child(n)
            if e[3]:
                n.inputs.a.connect(comp.children[e[3]].outputs[e[4]])
        elif e[0] == "setval":
            comp.children[e[2]].inputs[e[3]].value = e[4]
        elif e[0] == "strict":
            comp.children[e[2]].inputs[e[3]].strict_hints = bool(e[4])
        elif e[0] == "strictall":
            comp.activate_strict_hints() if e[2] else comp.deactivate_strict_hints()
        return "ok"
    except BaseException as ex:  # noqa: BLE001
        return type(ex).__name__


def json_roundtrip(x):
    """what came back from the other interpreter went through JSON (tuples → lists): same treatment for ours"""
    import json

    return json.loads(json.dumps(x, default=str))


def _all_nodes(n):
    from pyiron_workflow.nodes.composite import Composite

    yield n
    if isinstance(n, Composite):
        for c in list(n.children.values()):
            yield from _all_nodes(c)


_CTL = {"choices": None, "snap_at": None}


class _RunTimeout(BaseException):
    """a run of the real scheduler did not come back (harness backstop)"""


def _run(node, snap_at=None):
    """run; when the case works with controllable executors: under a fresh scheduler with the case's choice list"""
    from . import execsim
    from . import nodes_c07 as N

    if _CTL["choices"] is None:
        # backstop (not a verdict): a hand-wired loop that a shrinking step has robbed of its exit would spin forever
        import signal
        import threading

        guard = threading.current_thread() is threading.main_thread() and hasattr(signal, "SIGALRM")
        if guard:
            def _alarm(*_a):
                raise _RunTimeout()

            old = signal.signal(signal.SIGALRM, _alarm)
            signal.alarm(25)
        try:
            node.run()
            return "ok"
        except BaseException as e:  # noqa: BLE001
            return type(e).__name__
        finally:
            if guard:
                signal.alarm(0)
                signal.signal(signal.SIGALRM, old)
    sched = N.SCHED[0]
    sched.choices = list(_CTL["choices"])
    sched.snap_at = snap_at
    sched.count = 0
    sched.points = 0
    sched.jobs.clear()
    try:
        with execsim.Instrument(sched):
            node.run()
        res = "ok"
    except BaseException as e:  # noqa: BLE001
        res = type(e).__name__
    try:
        with execsim.Instrument(sched):
            sched.drain()
    except BaseException as e:  # noqa: BLE001
        res += "+late:" + type(e).__name__
    return res


def _settle(node):
    # wait for executor children, if any
    if _CTL["choices"] is not None:
        return  # controllable executors were drained by `_run`
    for n in _all_nodes(node):
        f = getattr(n, "future", None)
        if f is not None:
            try:
                f.result(timeout=30)
            except Exception:  # noqa: BLE001
                pass


def _rerun(node, how):
    """run again; returns what happened as plain data"""
    from . import nodes

    steps = []
    for step in how:
        if step == "reset":
            for n in _all_nodes(node):
                n.failed = False
                n.running = False
            continue
        if isinstance(step, list) and step[0] == "set":
            try:
                tgt = _descend(node, step[1])
                tgt.inputs[step[2]].value = step[3]
            except Exception as e:  # noqa: BLE001
                steps.append({"res": "set:" + type(e).__name__})
            continue
        from . import nodes_c07 as N

        k0 = len(nodes.CALL_LOG)
        s0 = len(N.SUBMITS)
        res = _run(node)
        _settle(node)
        calls = [repr(c) for c in nodes.CALL_LOG[k0:]]
        s = snap(node)
        steps.append({"res": res, "calls": calls, "state": _rerun_view(s),
                      "submits": [list(x) for x in N.SUBMITS[s0:]]})
    return steps


def _resume(copy):
    """what a user does after the process died while children were out with `_serialize_result`"""
    from pyiron_workflow.nodes.composite import Composite

    out = {"steps": []}
    try:
        # original and copy share one working directory here, a real broken process does not: what the ORIGINAL's
        # jobs wrote is not there for the copy …
        for n in _all_nodes(copy):
            if not isinstance(n, Composite):
                n._temporary_result_file.unlink(missing_ok=True)
        for n in _all_nodes(copy):
            if n.running and not isinstance(n, Composite):
                # … except that each job that was out finishes on its own and leaves its result where the node
                # will look for it
                args, kwargs = n.run_args
                n.on_run(*args, **kwargs)
                out["steps"].append("job:" + n.label)
        for n in _all_nodes(copy):
            if isinstance(n, Composite):
                n.running = False
        out["res"] = _run(copy)
    except BaseException as e:  # noqa: BLE001
        out["res"] = "resume:" + type(e).__name__ + ":" + str(e)[:120]
    out["state"] = _rerun_view(snap(copy))
    return out


def _rerun_view(s, path=""):
    p = path + "/" + s["label"]
    out = [[p, s["running"], s["failed"], [[k, v] for k, v, _ in s["outs"]], [[k, v] for k, v, _ in s["ins"]],
            s["prov"]]]
    for c in s["children"]:
        out.extend(_rerun_view(c, p))
    return out


def run_impl(case):
    from . import nodes
    from . import nodes_c07 as N

    nodes.reset()
    N.SNAPS.clear()
    N.ROOT.clear()
    N.CUR.clear()
    N.SNAP_HOOK.clear()
    stats = {}
    backend = case["backend"]
    path = list(case.get("target", []))
    _CTL["choices"] = list(case["schedule"]) if case.get("ctl") else None
    N.SCHED[:] = [N.SnapScheduler(case.get("schedule", []))]
    root, ext = _build_root(case)
    N.ROOT.append(root)
    res = {"variant": variant(), "rounds": [], "before": None, "error": None, "stats": stats, "rerun": None}

    def hook(r):
        tgt = _descend(r, path)
        before = snap(tgt)
        try:
            if backend == "file":
                _COUNTER[0] += 1
                fn = os.path.join(os.getcwd(), f"mid{_COUNTER[0]}")
                tgt.save(backend="pickle", filename=fn)
                return {"before": before, "file": fn}
            return {"before": before, "blob": N.dumps(tgt, backend)}
        except BaseException as e:  # noqa: BLE001
            return {"before": before, "dump_error": type(e).__name__}

    res["edits"] = [_edit(root, e) for e in case.get("edits", [])]
    state = case["state"]
    for i in case.get("fail", []):
        nodes.FAIL[i] = {0}
    if state in ("midrun", "ctlmid"):
        N.SNAP_HOOK.append(hook)
    if state in ("run", "fail", "midrun", "ctlmid"):
        res["state_res"] = _run(root, snap_at=case.get("snap_at") if state == "ctlmid" else None)
        _settle(root)
    elif state == "partial":
        try:
            _descend(root, case["pull"]).pull()
            res["state_res"] = "ok"
        except BaseException as e:  # noqa: BLE001
            res["state_res"] = type(e).__name__
        _settle(root)
    N.SNAP_HOOK.clear()
    stats[f"state:{state}"] = 1
    stats[f"backend:{backend}"] = 1
    stats[f"target:{'root' if not path else 'child'}"] = 1

    if case.get("inplace") and path:
        return _run_inplace(case, root, path, res, stats)
    target = _descend(root, path)
    mid = N.SNAPS[0] if (state in ("midrun", "ctlmid") and N.SNAPS) else None
    if state in ("midrun", "ctlmid") and mid is None:
        stats["midrun:not-reached"] = 1
    pre_loaded = None
    if case.get("resave") and not path and mid is None and backend == "file":
        pre_loaded = _resave(root, case, res, stats)
    before = res["before"] if case.get("resave") and res.get("before") else (mid["before"] if mid else snap(target))
    res["before"] = before
    if mid:
        nrun = sum(1 for _p, x in _walk(before) if x["running"] and not x["children"])
        stats["mid:leaf-running"] = int(nrun > 0)
        stats["mid:out-on-executor"] = int(any(x["running"] and x["exec"] != "-" for _p, x in _walk(before)))
    cur = target
    loaded = None
    for r in range(case.get("rounds", 1)):
        if res.get("resave"):
            loaded = pre_loaded
            if loaded is not None:
                res["rounds"].append(snap(loaded))
            break
        try:
            if mid is not None and r == 0:
                if "dump_error" in mid:
                    raise RuntimeError("dump:" + mid["dump_error"])
                if "file" in mid:
                    fresh = _fresh_like(case, path)
                    fresh.load(backend="pickle", filename=mid["file"])
                    loaded = fresh
                else:
                    loaded = N.loads(mid["blob"], backend)
            else:
                loaded = _roundtrip(cur, backend, case, path)
        except BaseException as e:  # noqa: BLE001
            res["error"] = {"round": r, "cls": type(e).__name__, "msg": str(e)[:200]}
            stats[f"load-error:{type(e).__name__}"] = 1
            loaded = None
            break
        res["rounds"].append(loaded.snapshot if isinstance(loaded, _Remote) else snap(loaded))
        cur = loaded
    stats["loaded"] = int(loaded is not None)

    # a broken process: the original went on to its end; the copy taken mid-run is RESUMED (the parents' `running`
    # flags cleared, the jobs that were out have left their result files) and must reach the same end
    n_out = sum(1 for _p, x in _walk(before) if x["running"] and not x["children"]) if mid else 0
    # (resumed only from an IDLE point with exactly one job out: with deliveries still queued the library's resume
    # drops them, with two jobs out it never ends — `running_children` is mutated while iterated —: both are the
    # subject of C08 and were reported there)
    if (case.get("resume") and mid is not None and loaded is not None and not path and case.get("snap_at") == -1
            and n_out == 1):
        res["resume"] = {"orig": _rerun_view(snap(root)), "copy": _resume(loaded)}
        stats["resume"] = 1

    # run both again
    how = case.get("rerun")
    if how and isinstance(loaded, _Remote) and not path and mid is None:
        if case.get("rerun_clear_fail"):
            nodes.FAIL.clear()
        if case.get("rerun_eq_cache"):
            from pyiron_workflow.nodes.composite import Composite

            for n in _all_nodes(root):
                if isinstance(n, Composite):
                    n._cached_inputs = None
        if loaded.rerun is not None:
            res["rerun"] = json_roundtrip({"orig": _rerun(root, how), "copy": loaded.rerun})
            stats["rerun"] = 1
    elif how and loaded is not None and not path and mid is None:
        # a LIVE executor object is not state (the copy has none): run both again without it; executor
        # INSTRUCTIONS are state and are used by both
        from concurrent.futures import Executor

        for n in _all_nodes(root):
            if isinstance(n.executor, Executor):
                n.executor = None
        if case.get("rerun_clear_fail"):
            nodes.FAIL.clear()
        if case.get("rerun_eq_cache"):
            # same cache conditions on both sides: no composite remembers its last run
            from pyiron_workflow.nodes.composite import Composite

            for g in (root, loaded):
                for n in _all_nodes(g):
                    if isinstance(n, Composite):
                        n._cached_inputs = None
        res["rerun"] = {"orig": _rerun(root, how), "copy": _rerun(loaded, how)}
        stats["rerun"] = 1

    # the two renderings (one interner per case)
    I = Intern(foreign_by_identity=bool(res["variant"][6]))
    rows = []
    rid = model_rows(I, before, rows)
    rows.append(f"build {rid}")
    if view_row(I, before):
        rows.append(view_row(I, before))
    vr = res["variant"]
    v = "%d%d%d%d%d%d%d %d %d %d" % (*vr[:6], vr[10], *vr[6:9])
    obs = ["built"]
    if before["has_parent"]:
        # the driver starts from the parent's path: describe the child as a root whose detached path is the parent's
        pass
    op = ("fileloadown" if res["variant"][11] else "fileload") if backend in ("file", "newproc") else "pickle"
    ctor = dict(case.get("ctor") or {})
    ctor_maps = "-" if "imap" not in ctor else str(_maps(I, "m:" + repr((sorted(ctor["imap"].items(), key=repr), []))))
    auto_row = "autoload %d%d%d%d%d%d%d %d %d %d %s" % (*vr_pre(res)[:6], vr_pre(res)[10], vr_pre(res)[11],
                                                        vr_pre(res)[12], int(ctor.get("auto", True)), ctor_maps)
    n_ops = len(res["rounds"]) + (1 if res["error"] else 0)
    for _ in range(n_ops):
        rows.append(auto_row if backend == "autoload" and before["kind"] == "w" else
                    (f"{op} {v}" if backend != "autoload" else f"{'fileloadown' if vr[11] else 'fileload'} {v}"))
    for s in res["rounds"]:
        obs.extend(render(I, s))
    if res["error"]:
        cls = res["error"]["cls"]
        obs.append("error " + {"KeyError": "key", "AttributeError": "attr", "RuntimeError": "runtime", "TypeError": "type",
                               "ChannelConnectionError": "conn"}.get(cls, "other:" + cls))
    if case.get("malformed"):
        junk = ["conn 0 x i 1 0", "pickle 2 0 0", "flags 99 0 0 - -", "din 0 a b c", "node 0 - 0 0 q", "frobnicate",
                "conn 0 d i 1 0 2", "fileload 0 0"]
        rows = junk + rows
        obs = ["bad-op"] * len(junk) + obs
    res["model"] = rows
    res["obs"] = obs
    # a child pickled on its own: the model is told the parent's path through `det`
    if before["has_parent"]:
        res["model"] = _as_detached(I, before, res)
    for n in _all_nodes(root):
        try:
            n.executor_shutdown(wait=False)
        except Exception:  # noqa: BLE001
            pass
    return res


def _run_inplace(case, root, path, res, stats):
    """a child saves its state and loads it again IN PLACE; the composite around it is observed before and after"""
    parent = _descend(root, path[:-1])
    child = parent.children[path[-1]]
    root_before = snap(root)
    before = snap(parent)
    _COUNTER[0] += 1
    fn = os.path.join(os.getcwd(), "inplace_dir", f"ip{_COUNTER[0]}")
    stats["inplace"] = 1
    try:
        child.save(backend="pickle", filename=fn)
        child.load(backend="pickle", filename=fn)
    except BaseException as e:  # noqa: BLE001
        res["error"] = {"round": 0, "cls": type(e).__name__, "msg": str(e)[:200]}
    res["before"] = before
    res["inplace"] = True
    if not res["error"]:
        res["rounds"].append(snap(parent))
    I = Intern(foreign_by_identity=bool(res["variant"][6]))
    rows = []
    rid = model_rows(I, root_before, rows)
    rows.append(f"build {rid}")
    obs = ["built"]
    for lab in path[:-1]:
        rows.append(f"descend {I('node', lab)}")
        obs.append("descended")
    vr = res["variant"]
    rows.append("inplace %d %s %d" % (I("node", path[-1]), "%d%d%d%d%d%d%d" % (*vr[:6], vr[10]), vr[9]))
    if res["error"]:
        cls = res["error"]["cls"]
        obs.append("error " + {"KeyError": "key", "AttributeError": "attr", "RuntimeError": "runtime",
                               "TypeError": "type"}.get(cls, "other:" + cls))
    else:
        obs.extend(render(I, res["rounds"][0]))
    res["model"] = rows
    res["obs"] = obs
    return res


def vr_pre(res):
    return res["variant"]


def _as_detached(I, before, res):
    """a child with a live parent: `Lexical.__getstate__` writes the parent's lexical path into the state; the
    model gets the same effect from a root whose `_detached_parent_path` already is that path"""
    b = dict(before)
    b["det"] = before["parent_path"]
    rows = []
    rid = model_rows(I, b, rows)
    rows.append(f"build {rid}")
    tail = [r for r in res["model"] if r.split()[0] in ("pickle", "fileload", "fileloadown")]
    return rows + tail


def model_input(case, impl):
    return impl.get("model", [])


def nontrivial(case, impl):
    b = impl.get("before") or {}

    def has_conn(s):
        return bool(s["di"]) or any(has_conn(c) for c in s["children"])

    return bool(b) and has_conn(b)


# ----------------------------------------------------------------------------- the oracle (independent of the model)


def _walk(s, path=""):
    p = path + "/" + s["label"]
    yield p, s
    for c in s["children"]:
        yield from _walk(c, p)


def _cause(before, rnd=0, backend="pickle"):
    """structural facts about the graph that was pickled, read off the BEFORE snapshot"""
    if rnd >= 1 and backend == "file" and before["kind"] in ("m", "f") and before["ilinks"]:
        # second generation of a node that came out of load(): its channels belong to the unpickled twin
        return "twin-owner"
    if any(s.get("refused") for _p, s in _walk(before)):
        return "refused-connection"
    for p, s in _walk(before):
        labels = {c["label"] for c in s["children"]}
        for k, cl, cx, inside in s["ilinks"]:
            if not inside or cl not in labels:
                return "dangling-link"
    for p, s in _walk(before):
        labels = {c["label"] for c in s["children"]}
        for side in ("di", "si", "do", "so"):
            for key, lst in s[side]:
                if any(x[0] not in labels or not x[2] for x in lst):
                    return "foreign-connection"
    for p, s in _walk(before):
        kids = {c["label"]: c for c in s["children"]}
        for k, cl, cx, inside in s["ilinks"]:
            c = kids.get(cl)
            while c is not None:
                if c["running"]:
                    return "running-linked-child"
                nxt = [l for l in c["ilinks"] if l[0] == cx]
                if not nxt:
                    break
                cx = nxt[0][2]
                c = {x["label"]: x for x in c["children"]}.get(nxt[0][1])
    return "other"


def _fail(clause, detail, **sig):
    s = {"clause": clause}
    s.update(sig)
    return {"clause": clause, "detail": detail, "signature": s}


def _inside(s):
    """the snapshot without the connections that leave the pickled composite: a copy cannot have them (the
    partner is not in the pickle), exactly as a child on its own comes back without its siblings"""
    t = dict(s)
    for side in ("di", "do", "si", "so"):
        t[side] = [[k, [x for x in l if x[2]]] for k, l in s[side]]
        t[side] = [[k, l] for k, l in t[side] if l]
    t["children"] = [_inside(c) for c in s["children"]]
    return t


def _compare(before, after, child_alone):
    """first clause of the statement that `after` violates w.r.t. `before` (None = identical)"""
    B = dict(_walk(_inside(before)))
    A = dict(_walk(after))
    if list(B) != list(A):
        return _fail("children", f"labels/nesting differ: {list(B)} vs {list(A)}")
    for p in B:
        b, a = B[p], A[p]
        if b["cls"] != a["cls"] or b["kind"] != a["kind"]:
            return _fail("class", f"{p}: {b['cls']} -> {a['cls']}")
        if [x[:2] for x in b["ins"]] != [x[:2] for x in a["ins"]]:
            return _fail("input-values", f"{p}: {b['ins']} -> {a['ins']}")
        if [x[:2] for x in b["outs"]] != [x[:2] for x in a["outs"]]:
            return _fail("output-values", f"{p}: {b['outs']} -> {a['outs']}")
        if (b["running"], b["failed"]) != (a["running"], a["failed"]):
            return _fail("flags", f"{p}: running/failed {b['running']},{b['failed']} -> {a['running']},{a['failed']}")
        if (b.get("auto", True), b.get("maps")) != (a.get("auto", True), a.get("maps")):
            return _fail("workflow-options", f"{p}: automate_execution/maps {b.get('auto')},{b.get('maps')} -> "
                                             f"{a.get('auto')},{a.get('maps')}")
        if b["recv"] != a["recv"]:
            return _fail("trigger-state", f"{p}: what the all-of trigger has heard: {b['recv']} -> {a['recv']}")
        if b.get("parent_ok", True) and not a.get("parent_ok", True):
            return _fail("ownership", f"{p}: listed by its parent but its own parent is {a['det']!r}/None")
    for p in B:
        b, a = B[p], A[p]
        for side, name in (("di", "data"), ("do", "data"), ("si", "signal"), ("so", "signal")):
            sb = {tuple(k): sorted(map(tuple, l)) for k, l in b[side]}
            sa = {tuple(k): sorted(map(tuple, l)) for k, l in a[side]}
            if sb != sa:
                return _fail(f"{name}-connections", f"{p} {side}: {b[side]} -> {a[side]}")
    for p in B:
        b, a = B[p], A[p]
        if b["di"] != a["di"]:
            return _fail("data-input-order", f"{p}: {b['di']} -> {a['di']}")
    for p in B:
        b, a = B[p], A[p]
        if b["so"] != a["so"]:
            return _fail("firing-order", f"{p}: {b['so']} -> {a['so']}")
    for p in B:
        b, a = B[p], A[p]
        if [l[:3] for l in b["ilinks"]] != [l[:3] for l in a["ilinks"]] or b["olinks"] != a["olinks"]:
            # is the missing link the one of the first input of this node that its workflow's IO view lists?
            lost = [l[0] for l in b["ilinks"] if l[:3] not in [x[:3] for x in a["ilinks"]]]
            first = next((x[1] for x in before.get("ioview", []) if x[2] and "/" + before["label"] + "/" + x[0] == p),
                         None)
            cause = "cached-io-view" if (lost and lost == [first] and b["olinks"] == a["olinks"]) else "other"
            return _fail("value-links", f"{p}: {b['ilinks']},{b['olinks']} -> {a['ilinks']},{a['olinks']}",
                         cause=cause)
        if b["start"] != a["start"]:
            return _fail("starting-nodes", f"{p}: {b['start']} -> {a['start']}")
        be = "-" if b["exec"] == "live" else b["exec"]
        bb = "-" if b["bexec"] == "live" else b["bexec"]
        if a["exec"] not in (be, b["exec"]) or a["bexec"] not in (bb, b["bexec"]):
            return _fail("executor", f"{p}: {b['exec']} -> {a['exec']}")
    if child_alone:
        if after["has_parent"]:
            return _fail("child-alone", "the unpickled child has a parent")
        if after["own_conns"]:
            return _fail("child-alone", "the unpickled child is still connected to something")
    else:
        if after["has_parent"] != before["has_parent"] or (after["det"] != before["det"] and not before["has_parent"]):
            return _fail("root", f"parent/detached path changed: {before['det']} -> {after['det']}")
        if not before["has_parent"] and before.get("lexical_path") != after.get("lexical_path"):
            return _fail("root", f"lexical path {before.get('lexical_path')} -> {after.get('lexical_path')}")
    return None


def oracle(case, impl):
    before = impl.get("before")
    if before is None:
        return []
    child_alone = bool(before["has_parent"]) and not impl.get("inplace")
    # the rounds that did come back first (a later failure to load may only be their consequence)
    for r, after in enumerate(impl["rounds"]):
        if r >= 1 and child_alone:
            # a lone child saved and loaded AGAIN: now it is the root that is stored; where it lived (detached path,
            # hence lexical path and storage location) is part of what it is
            prev = impl["rounds"][r - 1]
            g = _compare(prev, after, False)
            if g is None and (prev["lexical_path"], prev["storage_path"]) != (after["lexical_path"], after["storage_path"]):
                g = _fail("root", f"lexical path {prev['lexical_path']} -> {after['lexical_path']}, storage "
                                  f"{prev['storage_path']} -> {after['storage_path']}")
            if g is not None:
                g["detail"] = f"generation {r} -> {r + 1} ({case['backend']}): " + g["detail"]
                return [g]
        f = _compare(before, after, child_alone)
        if f is not None:
            f["detail"] = f"round {r + 1} ({case['backend']}): " + f["detail"]
            if impl.get("inplace"):
                f["signature"]["cause"] = "load-in-place"
            if f["clause"] in ("data-connections", "signal-connections") and _cause(before) == "foreign-connection":
                f["signature"]["cause"] = "foreign-connection"
            return [f]
    if impl.get("error"):
        e = impl["error"]
        if e["cls"].startswith("dump:") or e["msg"].startswith("dump:"):
            return [_fail("dump-error", f"the graph could not be pickled: {e}")]
        return [_fail("load-error", f"round {e['round']}: {e['cls']}: {e['msg']}", error=e["cls"],
                      cause=_cause(before, e["round"], case["backend"]))]
    rs = impl.get("resume")
    if rs:
        o, c = rs["orig"], rs["copy"]["state"]
        strip = lambda st: [x[:4] for x in st]  # path, running, failed, outputs  # noqa: E731
        if not str(rs["copy"].get("res", "")).startswith("ok") or strip(o) != strip(c):
            d = next(((x, y) for x, y in zip(strip(o), strip(c)) if x != y), None)
            return [_fail("resume-outputs", f"the copy taken mid-run, resumed ({rs['copy'].get('steps')}, "
                                            f"{rs['copy'].get('res')}), does not reach the original's end: {d}")]
    rr = impl.get("rerun")
    if rr:
        # did a composite that remembered its last run come back without that memory?
        last = impl["rounds"][-1]
        A = dict(_walk(last))
        lost = any(s["children"] and s["cached"] is not None and A[p]["cached"] is None
                   for p, s in _walk(before) if p in A)
        cause = "composite-cache-lost" if (lost and not case.get("rerun_eq_cache")) else "other"
        o, c = rr["orig"], rr["copy"]
        for k, (so, sc) in enumerate(zip(o, c)):
            if so.get("res") != sc.get("res"):
                return [_fail("rerun-outcome", f"step {k}: original {so.get('res')} vs copy {sc.get('res')}",
                              cause=cause)]
            calls_o, calls_c = so.get("calls", []), sc.get("calls", [])
            if case.get("has_executor") or case["backend"] == "newproc":
                # the order among INDEPENDENT nodes comes from iterating Python sets (starting nodes of a DAG layer):
                # it depends on the interpreter's hash seed, not on the graph — compared as multisets there
                calls_o, calls_c = sorted(calls_o), sorted(calls_c)
            threads = "spec" in case["root"] and any(c.get("exec") == "instr" for _p, c in _paths(case["root"]["spec"]))
            if case["backend"] == "newproc" or threads:
                # (real thread executors: which of two independent branches registers first is wall-clock time)
                so = dict(so, state=[x[:5] + [sorted(x[5])] for x in so.get("state", [])])
                sc = dict(sc, state=[x[:5] + [sorted(x[5])] for x in sc.get("state", [])])
            if calls_o != calls_c:
                return [_fail("rerun-execution-order", f"step {k}: calls {calls_o} vs {calls_c}", cause=cause)]
            if sorted(map(tuple, so.get("submits", []))) != sorted(map(tuple, sc.get("submits", []))):
                # where the work is sent: which executor (by its instructions) gets whose job
                return [_fail("rerun-submissions", f"step {k}: jobs submitted {so.get('submits')} vs "
                                                   f"{sc.get('submits')}", cause=cause)]
            if so.get("state") != sc.get("state"):
                d = next(((x, y) for x, y in zip(so["state"], sc["state"]) if x != y), None)
                return [_fail("rerun-outputs", f"step {k}: {d}", cause=cause)]
    return []


# ----------------------------------------------------------------------------- generation

CONSTS = [1, 2, 3, "s", "t", None, True]


def _gen_graph(rng, depth, opts, in_macro_args=None):
    """a graph spec; `in_macro_args` = names of the creator's arguments when generated for a macro"""
    from .nodes_c07 import KIND_IO, MACRO_ARGS

    n = rng.randint(2, 4) if depth > 0 else rng.randint(2, 3)
    kinds = []
    for j in range(n):
        r = rng.random()
        if r < 0.55:
            k = "F"
        elif r < 0.72 and depth > 0:
            k = rng.choice(["M1", "M2", "M3"])
        elif r < 0.80:
            k = "for"
        elif r < 0.87:
            k = "i2l"
        elif r < 0.91 and j > 0:
            k = "l2o"
        elif r < 0.95:
            k = "ui"
        elif opts.get("allow_loc"):
            k = "loc"
        else:
            k = "F"
        kinds.append(k)
    if opts.get("snap") == depth:
        kinds[rng.randrange(len(kinds))] = rng.choice(["snap", "snap", "forsnap"])
        opts["snap"] = None
    children, data = [], []
    used_args = set()
    list_outs = []  # outputs that hold lists
    for j, k in enumerate(kinds):
        lab = f"n{j}"
        cs = {"label": lab, "kind": k, "const": {}}
        if k == "F":
            cs["i"] = opts["next_f"]
            opts["next_f"] = (opts["next_f"] + 1) % 28
        if k in MACRO_ARGS:
            cs["spec"] = _gen_graph(rng, depth - 1, opts, MACRO_ARGS[k])
        if rng.random() < 0.08 and k == "F":
            cs["nocache"] = True
        if opts.get("ctl") and k in ("F", "M1", "M2", "M3") and rng.random() < 0.55:
            cs["exec"] = rng.choice(["ctl", "ctl", "ctli", "ctlik", "ctlp", "ctlp", "ctlpk"])
            cs["exec_name"] = rng.choice(["p", "p", "q"])
        elif rng.random() < opts.get("p_exec", 0.0) and k == "F" and not opts.get("has_executor"):
            cs["exec"] = "instr"
            opts["has_executor"] = True
        ins, outs = KIND_IO[k]
        sources = [["child", f"n{i}", o] for i in range(j) for o in KIND_IO[kinds[i]][1]]
        if in_macro_args:
            sources += [["arg", a] for a in in_macro_args]
        for x in ins:
            need_list = (k in ("for", "forsnap") and x == "a") or (k == "l2o" and x == "list")
            r = rng.random()
            if need_list:
                ls = [s for s in list_outs]
                if ls and r < 0.5:
                    data.append([lab, x, rng.choice(ls)])
                else:
                    cs["const"][x] = [rng.choice([1, 2, 3]) for _ in range(rng.randint(1, 2))]
                continue
            required = k in MACRO_ARGS and x == "x" or k in ("ui", "i2l", "snap", "forsnap")
            if sources and r < (0.75 if required else 0.45):
                nconn = 1
                if opts["multi"] and rng.random() < 0.45:
                    nconn = rng.randint(2, 3)
                picks = []
                for _ in range(nconn):
                    s = rng.choice(sources)
                    if s not in picks:
                        picks.append(s)
                args_in = [s for s in picks if s[0] == "arg"]
                if args_in and len(picks) > 1:
                    picks = [s for s in picks if s[0] != "arg"] or args_in[:1]
                for s in picks:
                    data.append([lab, x, s])
                    if s[0] == "arg":
                        used_args.add(s[1])
            elif required or r < 0.75:
                cs["const"][x] = rng.choice(CONSTS) if not (k == "F" and rng.random() < 0.1) else "__ND__"
        children.append(cs)
        if k in ("for", "forsnap"):
            list_outs += [["child", lab, "o"], ["child", lab, "a"]]
        if k == "i2l":
            list_outs.append(["child", lab, "list"])
    spec = {"children": children, "data": data}
    if in_macro_args:
        if not opts.get("allow_unused"):
            # every argument is used by somebody (else the macro cannot be unpickled: KF-C07-3)
            for a in in_macro_args:
                if a not in used_args:
                    tgt = next((c for c in children if c["kind"] == "F"
                                and not any(d[0] == c["label"] and d[1] == "c" for d in data)), None)
                    if tgt is None:
                        tgt = {"label": f"n{len(children)}", "kind": "F", "i": opts["next_f"], "const": {}}
                        opts["next_f"] = (opts["next_f"] + 1) % 28
                        children.append(tgt)
                        kinds.append("F")
                    slot = next(s for s in ("c", "b", "a")
                                if not any(d[0] == tgt["label"] and d[1] == s for d in data))
                    tgt["const"].pop(slot, None)
                    data.append([tgt["label"], slot, ["arg", a]])
                    used_args.add(a)
        last = children[-1]
        outs = KIND_IO[last["kind"]][1]
        spec["returns"] = [[last["label"], outs[0]]]
    # hand-made signals
    if opts["signals"] and rng.random() < 0.6 and len(children) >= 2:
        labs = [c["label"] for c in children]
        sig = []
        if len(labs) >= 3 and opts["multi"] and rng.random() < 0.7:
            # fan-out from the first child, wired in a random order (= firing order), then a chain
            rest = labs[1:]
            order = rest[:]
            rng.shuffle(order)
            for r_ in order:
                sig.append([labs[0], "ran", r_, "run"])
        else:
            for a, b in zip(labs, labs[1:]):
                sig.append([a, "ran", b, rng.choice(["run", "accumulate_and_run"])])
        spec["signals"] = sig
        spec["starting"] = [labs[0]]
        spec["auto"] = False
        # a hand-wired flow does not wait for a node that is out on an executor: what its neighbours fetch would
        # depend on wall-clock time. Executors only where the DAG wiring makes every consumer wait.
        for c in children:
            if c.get("exec") == "instr":
                c.pop("exec")
    return spec


def _fix_returns(kind, spec):
    """M3 returns two channels"""
    from .nodes_c07 import KIND_IO

    if kind == "M3":
        cs = spec["children"]
        a = cs[-1]
        b = cs[0] if len(cs) > 1 else cs[-1]
        spec["returns"] = [[a["label"], KIND_IO[a["kind"]][1][0]], [b["label"], KIND_IO[b["kind"]][1][0]]]
    for c in spec["children"]:
        if "spec" in c:
            _fix_returns(c["kind"], c["spec"])


def _cyclic_spec(rng, limit):
    """while-loop: add feeds itself until lt says stop; wired by hand"""
    return {
        "auto": False,
        "children": [
            {"label": "add", "kind": "add", "const": {"obj": 0, "other": 1}},
            {"label": "lt", "kind": "lt", "const": {"other": limit}},
            {"label": "sw", "kind": "if", "const": {}},
            {"label": "post", "kind": "F", "i": 9, "const": {}},
        ],
        "data": [["add", "obj", ["child", "add", "add"]], ["lt", "obj", ["child", "add", "add"]],
                 ["sw", "condition", ["child", "lt", "lt"]], ["post", "a", ["child", "add", "add"]]],
        "signals": [["add", "ran", "lt", "run"], ["lt", "ran", "sw", "run"], ["sw", "true", "add", "run"],
                    ["sw", "false", "post", "run"]],
        "starting": ["add"],
    }


def _paths(spec, prefix=()):
    for c in spec["children"]:
        yield list(prefix) + [c["label"]], c
        if "spec" in c:
            yield from _paths(c["spec"], list(prefix) + [c["label"]])


def _f_indices(spec):
    for _p, c in _paths(spec):
        if c["kind"] == "F":
            yield c["i"]
        if c["kind"] == "for":
            yield 1


def _mk_case(rng, tier, mode):
    backend = rng.choice(["pickle", "pickle", "cloudpickle", "file", "file"])
    opts = {"multi": mode != "atmost1", "signals": True, "next_f": rng.randrange(28), "snap": None,
            "allow_unused": mode == "unused", "p_exec": 0.04, "allow_loc": backend != "pickle"}
    state = rng.choice(["fresh", "run", "run", "run", "fail", "fail", "partial", "midrun", "midrun"])
    if mode != "foreign" and rng.random() < 0.2:
        # controllable executors: children out on the executor at exactly known points of the run
        opts["ctl"] = True
        opts["p_exec"] = 0.0
        state = rng.choice(["run", "fail", "ctlmid", "ctlmid", "ctlmid"])
    depth = rng.choice([0, 1, 1, 2, 2, 3] if tier == "thorough" else [0, 1, 1, 2])
    r = rng.random()
    if state == "midrun":
        opts["snap"] = rng.randint(0, depth)
        opts["p_exec"] = 0.0  # nothing may move between the snapshot and the pickle taken inside the run
    if r < 0.10:
        root = {"kind": "wf", "label": "w", "spec": _cyclic_spec(rng, rng.randint(2, 4))}
        if state == "midrun":
            state = "run"
    elif r < 0.25 and depth > 0:
        k = rng.choice(["M1", "M2", "M3"])
        from .nodes_c07 import MACRO_ARGS

        spec = _gen_graph(rng, depth - 1, opts, MACRO_ARGS[k])
        root = {"kind": k, "label": "m", "spec": spec, "const": {"x": rng.choice(CONSTS)}}
    elif r < 0.30:
        k = rng.choice(["F", "for", "i2l"] + (["forsnap"] * 3 if state == "midrun" else []))
        root = {"kind": k, "label": "leaf", "const": {}}
        if k == "F":
            root["i"] = rng.randrange(28)
            root["const"] = {"a": rng.choice(CONSTS)}
        elif k == "for":
            root["const"] = {"a": [1, 2], "b": 5}
        elif k == "forsnap":
            root["const"] = {"a": [rng.choice([1, 2])] * rng.randint(1, 2), "b": 5}
            opts["snap"] = None
        else:
            root["const"] = {"item_0": 1, "item_1": 2}
        if state == "partial" or (state == "midrun" and k != "forsnap"):
            state = "run"
    else:
        root = {"kind": "wf", "label": "w", "spec": _gen_graph(rng, depth, opts)}
        if rng.random() < 0.1:
            f0 = next((c for c in root["spec"]["children"] if c["kind"] == "F" and not any(
                d[0] == c["label"] and d[1] == "c" for d in root["spec"]["data"])), None)
            if f0 is not None:
                root["spec"]["imap"] = {f"{f0['label']}__c": "alias_c"}
        if mode == "atmost1":
            root["spec"].pop("signals", None)
            root["spec"].pop("starting", None)
            root["spec"]["auto"] = True
    if "spec" in root:
        _fix_returns(root["kind"], root["spec"])
    if opts["snap"] is not None and state == "midrun":
        state = "run"  # no place for the snap node was found
    opts["has_executor"] = any(c.get("exec") for _p, c in _paths(root["spec"])) if "spec" in root else False
    if opts.get("ctl"):
        if "spec" not in root or state == "midrun":
            opts["ctl"] = False
            if state == "ctlmid":
                state = "run"
    case = {"root": root, "state": state, "mode": mode,
            "backend": backend,
            "rounds": rng.choice([1, 1, 2]), "target": [], "fail": [], "has_executor": bool(opts.get("has_executor"))}
    if backend == "file" and state not in ("midrun", "ctlmid") and not case.get("inplace") and rng.random() < (0.03 if tier == "quick" else 0.04):
        # a restart: the file is read back by a NEW interpreter with another hash seed
        case["backend"] = "newproc"
        case["rounds"] = 1
        case["hashseed"] = rng.randrange(1, 10**6)
    if (backend == "file" and case["backend"] == "file" and root["kind"] == "wf" and not case["target"]
            and state not in ("midrun", "ctlmid") and mode != "foreign" and rng.random() < 0.15):
        # save, edit, save again at the same place (the second save may need the other file format), load
        tops = [c for c in root["spec"]["children"] if c["kind"] == "F"]
        ed = []
        k = rng.random()
        if k < 0.6:
            src = rng.choice(tops) if tops and rng.random() < 0.7 else None
            ed.append(["addloc", [], "zloc", src["label"] if src else None, "o"])
        if tops and (k >= 0.4):
            ed.append(["setval", [], rng.choice(tops)["label"], "c", "resaved"])
        if ed:
            case["resave"] = ed
            case["rounds"] = 1
            case.pop("rerun", None)
    if opts.get("ctl"):
        case["ctl"] = True
        # 0 at an emission point = let the jobs stay out; the idle point must complete one anyway
        case["schedule"] = [rng.choice([0, 0, 0, 1, 2, 3]) for _ in range(14)]
        if state == "ctlmid":
            case["snap_at"] = rng.randint(1, 5)
    paths = list(_paths(root["spec"])) if "spec" in root else []
    if paths and rng.random() < 0.2:
        p, c = rng.choice(paths)
        if c["kind"] not in ("snap", "forsnap"):
            case["target"] = p
    if case["target"] and backend == "file" and state not in ("midrun", "ctlmid") and rng.random() < 0.5:
        case["inplace"] = True
        case["rounds"] = 1
    if state == "fail":
        fs = sorted(set(_f_indices(root["spec"]))) if "spec" in root else ([root["i"]] if root["kind"] == "F" else [])
        if fs:
            case["fail"] = [rng.choice(fs)]
        else:
            case["state"] = "run"
    if state == "partial":
        top = [c for c in root["spec"]["children"]] if "spec" in root else []
        if top:
            case["pull"] = [rng.choice(top)["label"]]
        else:
            case["state"] = "run"
    if not case["target"] and state not in ("midrun", "ctlmid"):
        rr = rng.random()
        if case["state"] == "fail":
            case["rerun"] = ["run", "reset", "run"]
            case["rerun_clear_fail"] = rng.random() < 0.6
        elif rr < 0.5:
            case["rerun"] = ["run"]
        elif rr < 0.8 and "spec" in root:
            tgt = next((c for c in root["spec"]["children"] if c["kind"] == "F"
                        and not any(d[0] == c["label"] and d[1] == "b" for d in root["spec"]["data"])), None)
            if tgt is not None:
                case["rerun"] = [["set", [tgt["label"]], "b", "new"], "run"]
            else:
                case["rerun"] = ["run"]
    # edits between building and saving (top level of a workflow, sometimes inside its first macro child)
    if "spec" in root and rng.random() < 0.3 and not case["target"] and mode != "foreign":
        edits = []
        for _ in range(rng.randint(1, 2)):
            comp_path, sp = [], root["spec"]
            inner = [c for c in sp["children"] if c["kind"] in ("M1", "M2", "M3")]
            if inner and rng.random() < 0.35:
                comp_path, sp = [inner[0]["label"]], inner[0]["spec"]
            fs = [c for c in sp["children"] if c["kind"] == "F" and c["label"] not in [e[2] for e in edits]]
            if not fs:
                continue
            tgt = rng.choice(fs)["label"]
            in_macro = bool(comp_path) or root["kind"] != "wf"
            if in_macro and rng.random() < 0.6:
                # a value given to a child input directly, behind the back of the macro input that is linked to it
                linked = [d[1] for d in sp.get("data", []) if d[0] == tgt and d[2][0] == "arg"]
                edits.append(["setval", comp_path, tgt, rng.choice(linked or ["a", "b", "c"]), "direct"])
                continue
            if root["kind"] != "wf" and not comp_path:
                continue
            kind = rng.choice(["replace", "replace", "replace", "readd", "relabel"])
            if kind == "replace":
                edits.append(["replace", comp_path, tgt, rng.randrange(28)])
            elif kind == "readd":
                edits.append(["readd", comp_path, tgt])
            else:
                edits.append(["relabel", comp_path, tgt, tgt + "x"])
        if edits:
            case["edits"] = edits
            if case.get("rerun") and any(isinstance(st, list) for st in case["rerun"]):
                case["rerun"] = ["run"]
            if case.get("pull") and case["pull"][0] in [e[2] for e in edits]:
                case["state"] = "run"
                case.pop("pull")
    if case.get("rerun") and rng.random() < 0.5:
        case["rerun_eq_cache"] = True
    if mode == "foreign" and root["kind"] == "wf":
        tgt = next((c for c in root["spec"]["children"] if c["kind"] == "F"), None)
        if tgt is not None:
            case["foreign"] = {"label": rng.choice(["zz", root["spec"]["children"][0]["label"]]),
                               "dst": tgt["label"], "dst_in": "c"}
            case["target"] = []
            case.pop("rerun", None)  # the copy has lost the outside feed: its re-run is another computation
    if (case["backend"] == "file" and not case["target"] and case["state"] not in ("midrun", "ctlmid") and not case.get("resave")
            and not case.get("inplace") and mode != "foreign" and rng.random() < 0.3):
        # the usual way of picking a saved graph up again: construct it where the file is (autoload at construction)
        case["backend"] = "autoload"
        k = rng.random()
        if root["kind"] == "wf":
            case["ctor"] = ({} if k < 0.5 else {"explicit": True} if k < 0.65 else {"auto": rng.random() < 0.5}
                            if k < 0.9 else {"imap": {"zz__a": "alias"}})
            tgt = next((c for c in root["spec"]["children"] if c["kind"] == "F" and not any(
                d[0] == c["label"] and d[1] == "b" for d in root["spec"]["data"])), None)
            if tgt is not None and not case.get("edits"):
                # run again on FRESH input (not answered from any cache)
                case["rerun"] = [["set", [tgt["label"]], "b", "fresh"], "run"]
                case["rerun_eq_cache"] = True
    return case


def _exhaustive():
    """small scope, complete: every order of wiring up to three sources to one input / up to three receivers to one
    signal output, flat and nested, every back end, never run and fully run"""
    import itertools

    srcs = [["child", "a", "o"], ["child", "b", "o"], ["child", "d", "o"]]
    kids = [_leafF("a", 1, a=1), _leafF("b", 2, a=2), _leafF("d", 4, a=4), _leafF("c", 3)]
    seqs = [list(p) for k in (1, 2, 3) for p in itertools.permutations(srcs, k)]
    for seq in seqs:
        data = [["c", "a", s] for s in seq]
        flat = {"kind": "wf", "label": "w", "spec": {"children": kids, "data": data}}
        nested = {"kind": "wf", "label": "w", "spec": {"children": [
            {"label": "m", "kind": "M1", "const": {"x": 1}, "spec": {
                "children": kids, "data": [["a", "b", ["arg", "x"]]] + data, "returns": [["c", "o"]]}}], "data": []}}
        for be in ("pickle", "cloudpickle", "file"):
            for st in ("fresh", "run"):
                yield {"root": flat, "state": st, "backend": be, "rounds": 1, "target": [], "fail": [],
                       "rerun": ["run"], "rerun_eq_cache": True, "mode": "exhaustive"}
            yield {"root": nested, "state": "run", "backend": be, "rounds": 2 if be == "file" else 1, "target": [],
                   "fail": [], "rerun": ["run"], "rerun_eq_cache": True, "mode": "exhaustive"}
        yield {"root": nested, "state": "run", "backend": "pickle", "rounds": 1, "target": ["m", "c"], "fail": [],
               "mode": "exhaustive"}
    recvs = [["b", "run"], ["c", "run"], ["c", "accumulate_and_run"], ["b", "accumulate_and_run"]]
    kids3 = [_leafF("a", 1, a=1), _leafF("b", 2), _leafF("c", 3)]
    for k in (1, 2, 3):
        for seq in itertools.permutations(recvs, k):
            sig = [["a", "ran", r[0], r[1]] for r in seq]
            g = {"kind": "wf", "label": "w", "spec": {"auto": False, "children": kids3,
                                                      "data": [["b", "a", ["child", "a", "o"]], ["c", "a", ["child", "b", "o"]]],
                                                      "signals": sig, "starting": ["a"]}}
            for be in ("pickle", "cloudpickle", "file"):
                yield {"root": g, "state": "fresh", "backend": be, "rounds": 1, "target": [], "fail": [],
                       "rerun": ["run"], "rerun_eq_cache": True, "mode": "exhaustive"}


EXHAUSTIVE = {"quick": False, "thorough": True}


def _resume_case(rng):
    """DAG workflow with joins; some nodes out on a controllable executor leaving their result in a file; pickled at
    an idle point of the run; the copy is resumed"""
    n = rng.randint(3, 5)
    kids, data = [], []
    for j in range(n):
        c = _leafF(f"n{j}", (7 * j + rng.randrange(5)) % 28)
        if j >= 1:
            ups = rng.sample(range(j), k=min(j, rng.choice([1, 2, 2])))
            for slot, u in zip(("a", "b"), ups):
                data.append([c["label"], slot, ["child", f"n{u}", "o"]])
        kids.append(c)
    outs = rng.sample(range(n), k=1)
    for j in outs:
        kids[j]["exec"] = "ctl"
        kids[j]["serialize"] = True
        kids[j]["nocache"] = rng.random() < 0.5
    root = {"kind": "wf", "label": "w", "spec": {"children": kids, "data": data}}
    return {"root": root, "state": "ctlmid", "mode": "resume", "ctl": True, "resume": True,
            "schedule": [rng.choice([0, 0, 1, 2]) for _ in range(12)], "snap_at": -1,
            "backend": rng.choice(["pickle", "cloudpickle", "file"]), "rounds": 1, "target": [], "fail": [],
            "has_executor": True}


def _hint_case(rng):
    """typed nodes whose strictness changes between connecting and saving"""
    kids = [{"label": "a", "kind": "TO", "const": {}}, {"label": "b", "kind": "T", "const": {}, "nonstrict": []},
            {"label": "c", "kind": "T", "const": {}, "nonstrict": []}]
    pairs = [("i", "oi"), ("i", "os"), ("s", "os"), ("s", "oi"), ("b", "ob"), ("u", "os"), ("i", "ob")]
    data, edits = [], []
    for tgt in ("b", "c"):
        for _ in range(rng.randint(1, 2)):
            inp, out = rng.choice(pairs)
            ok = (inp, out) in (("i", "oi"), ("s", "os"), ("b", "ob"), ("u", "os"), ("i", "ob"))
            child = next(k for k in kids if k["label"] == tgt)
            if any(d[0] == tgt and d[1] == inp for d in data):
                continue
            if not ok or rng.random() < 0.3:
                if inp not in child["nonstrict"]:
                    child["nonstrict"].append(inp)
            data.append([tgt, inp, ["child", "a", out]])
    r = rng.random()
    if r < 0.5:
        for k in kids:
            for inp in k.get("nonstrict", []):
                if rng.random() < 0.8:
                    edits.append(["strict", [], k["label"], inp, True])
    elif r < 0.8:
        edits.append(["strictall", [], True])
    root = {"kind": "wf", "label": "w", "spec": {"children": kids, "data": data}}
    return {"root": root, "state": "fresh", "mode": "hints", "backend": rng.choice(["pickle", "cloudpickle", "file"]),
            "rounds": rng.choice([1, 2]), "target": [], "fail": [], "has_executor": False, "edits": edits}


def gen_cases(rng, tier):
    n = 450 if tier == "quick" else 12000
    if tier == "thorough":
        yield from _exhaustive()
    for k in range(n):
        r = k % 20
        if k % 25 == 7:
            yield _hint_case(rng)
            continue
        if k % 25 == 13:
            yield _resume_case(rng)
            continue
        if r < 10:
            mode = "atmost1"
        elif r < 18:
            mode = "multi"
        elif r == 18:
            mode = "unused"
        else:
            mode = "foreign"
        yield _mk_case(rng, tier, mode)
    # malformed stream for the driver: the model must refuse, never default
    yield {"malformed": True, "root": {"kind": "F", "label": "leaf", "i": 0, "const": {}}, "state": "fresh",
           "backend": "pickle", "rounds": 1, "target": [], "fail": [], "mode": "malformed"}


def _leafF(label, i, **const):
    return {"label": label, "kind": "F", "i": i, "const": const}


def corpus():
    # KF-C07-1 witness: c.a <- a.o, then c.a <- b.o; plain pickle of the workflow
    w1 = {"kind": "wf", "label": "w", "spec": {"children": [_leafF("a", 1, a=1), _leafF("b", 2, a=2), _leafF("c", 3)],
                                                "data": [["c", "a", ["child", "a", "o"]], ["c", "a", ["child", "b", "o"]]]}}
    yield {"root": w1, "state": "run", "backend": "pickle", "rounds": 1, "target": [], "fail": [], "rerun": ["run"],
           "mode": "corpus"}
    yield {"root": w1, "state": "run", "backend": "file", "rounds": 1, "target": [], "fail": [], "rerun": ["run"],
           "mode": "corpus"}
    # the same inside a macro, through the file back end (nested composites are re-stated only once)
    m1 = {"kind": "wf", "label": "w", "spec": {"children": [
        {"label": "m", "kind": "M1", "const": {"x": 1}, "spec": {
            "children": [_leafF("a", 1), _leafF("b", 2), _leafF("c", 3)],
            "data": [["a", "a", ["arg", "x"]], ["b", "a", ["arg", "x"]], ["c", "a", ["child", "a", "o"]],
                     ["c", "a", ["child", "b", "o"]]],
            "returns": [["c", "o"]]}}], "data": []}}
    yield {"root": m1, "state": "run", "backend": "file", "rounds": 1, "target": [], "fail": [], "rerun": ["run"],
           "mode": "corpus"}
    # KF-C07-2 witness: a.ran fires b then c (wired c first), hand-made flow in a workflow
    m2 = {"kind": "wf", "label": "w", "spec": {
        "auto": False,
        "children": [_leafF("a", 1), _leafF("b", 2), _leafF("c", 3)],
        "data": [["b", "a", ["child", "a", "o"]], ["c", "a", ["child", "a", "o"]]],
        "signals": [["a", "ran", "c", "run"], ["a", "ran", "b", "run"]], "starting": ["a"]}}
    yield {"root": m2, "state": "fresh", "backend": "pickle", "rounds": 1, "target": [], "fail": [],
           "rerun": ["run"], "mode": "corpus"}
    # KF-C07-5 witness: a composite that ran (and so remembers its inputs) is pickled; run both again
    w5 = {"kind": "wf", "label": "w", "spec": {"children": [{"label": "a", "kind": "F", "i": 1, "const": {},
                                                                  "nocache": True}], "data": []}}
    yield {"root": w5, "state": "run", "backend": "pickle", "rounds": 1, "target": [], "fail": [],
           "rerun": ["run"], "mode": "corpus"}
    # KF-C07-3 witness: a macro argument nobody uses
    m3 = {"kind": "M2", "label": "m", "const": {"x": 1}, "spec": {
        "children": [_leafF("a", 1)], "data": [["a", "a", ["arg", "x"]]], "returns": [["a", "o"]]}}
    yield {"root": m3, "state": "fresh", "backend": "pickle", "rounds": 1, "target": [], "fail": [], "mode": "corpus"}
    # pickled from inside the run of a macro whose running child has a linked input (loads since 60885c9)
    m4 = {"kind": "M1", "label": "m", "const": {"x": 1}, "spec": {
        "children": [{"label": "s", "kind": "snap", "const": {}}, _leafF("b", 2)],
        "data": [["s", "a", ["arg", "x"]], ["b", "a", ["child", "s", "o"]]], "returns": [["b", "o"]]}}
    yield {"root": m4, "state": "midrun", "backend": "pickle", "rounds": 1, "target": [], "fail": [], "mode": "corpus"}
    # KF-C07-4 witness: the same in a for-node: the running body node's broadcast input is value-linked
    yield {"root": {"kind": "forsnap", "label": "leaf", "const": {"a": [1], "b": 5}}, "state": "midrun",
           "backend": "pickle", "rounds": 1, "target": [], "fail": [], "mode": "corpus"}
    # KF-C07-6 witness: a parentless node feeds a workflow child
    yield {"root": {"kind": "wf", "label": "w", "spec": {"children": [_leafF("n0", 6)], "data": []}},
           "state": "fresh", "mode": "foreign", "backend": "pickle", "rounds": 1, "target": [], "fail": [],
           "foreign": {"label": "zz", "dst": "n0", "dst_in": "c"}}
    # KF-C07-7 witness: a macro saved, loaded, saved again, loaded again
    yield {"root": {"kind": "M1", "label": "m", "const": {"x": 1}, "spec": {
        "children": [_leafF("a", 1)], "data": [["a", "a", ["arg", "x"]]], "returns": [["a", "o"]]}},
        "state": "fresh", "mode": "corpus", "backend": "file", "rounds": 2, "target": [], "fail": []}
    # KF-C07-8 witness: replace_child leaves the workflow a view of its IO; the sibling macro loses a value link
    w8 = {"kind": "wf", "label": "w", "spec": {"children": [
        {"label": "m0", "kind": "M1", "const": {"x": "a1"}, "spec": {
            "children": [_leafF("inner", 3)], "data": [["inner", "a", ["arg", "x"]]], "returns": [["inner", "o"]]}},
        _leafF("n1", 8)], "data": [["n1", "a", ["child", "m0", "out"]]]}}
    yield {"root": w8, "state": "fresh", "backend": "pickle", "rounds": 1, "target": [], "fail": [],
           "edits": [["replace", [], "n1", 15]], "mode": "corpus"}
    yield {"root": w8, "state": "run", "backend": "file", "rounds": 2, "target": [], "fail": [],
           "edits": [["replace", [], "n1", 15], ["relabel", [], "n1", "n1x"]], "rerun": ["run"], "mode": "corpus"}
    # KF-C07-9 witness: a workflow child saves and loads in place; a macro child with a linked input likewise
    yield {"root": w1, "state": "run", "backend": "file", "rounds": 1, "target": ["c"], "inplace": True, "fail": [],
           "mode": "corpus"}
    yield {"root": m1, "state": "run", "backend": "file", "rounds": 1, "target": ["m", "a"], "inplace": True,
           "fail": [], "mode": "corpus"}
    yield {"root": m1, "state": "fresh", "backend": "file", "rounds": 1, "target": ["m"], "inplace": True,
           "fail": [], "mode": "corpus"}
    # KF-C07-10 witness: connected while not strict, strict again when saved
    yield {"root": {"kind": "wf", "label": "w", "spec": {"children": [
        {"label": "a", "kind": "TO", "const": {}}, {"label": "b", "kind": "T", "const": {}, "nonstrict": ["i"]}],
        "data": [["b", "i", ["child", "a", "os"]]]}}, "state": "fresh", "mode": "hints", "backend": "pickle",
        "rounds": 1, "target": [], "fail": [], "edits": [["strict", [], "b", "i", True]]}
    # a child OUT on a (controllable) executor when the workflow is pickled at its idle point; live executor object
    # and executor instructions; plain pickle and save()/load()
    for ex, be in (("ctl", "pickle"), ("ctli", "file"), ("ctli", "cloudpickle")):
        g = {"kind": "wf", "label": "w", "spec": {"children": [dict(_leafF("a", 1, a=1), exec=ex), _leafF("b", 2)],
                                                   "data": [["b", "a", ["child", "a", "o"]]]}}
        yield {"root": g, "state": "ctlmid", "ctl": True, "schedule": [0, 0, 0, 0], "snap_at": 1, "backend": be,
               "rounds": 2, "target": [], "fail": [], "has_executor": True, "mode": "corpus"}
    # a restart: saved here, loaded by a new interpreter with another hash seed (for-loop: injected node labels)
    yield {"root": {"kind": "wf", "label": "w", "spec": {"children": [
        _leafF("a", 1, a=1), {"label": "f", "kind": "for", "const": {"a": [1, 2]}}, m1["spec"]["children"][0]],
        "data": [["f", "b", ["child", "a", "o"]]]}}, "state": "run", "backend": "newproc", "hashseed": 77, "rounds": 1,
        "target": [], "fail": [], "rerun": ["run"], "rerun_eq_cache": True, "mode": "corpus"}
    # the doubly connected input at EVERY nesting depth (workflow ⊃ macro ⊃ macro), every back end, round trip of the
    # round trip; Node.load restates only the top composite twice (C07_file_double_restore)
    def lvl(inner):
        kids = [_leafF("a", 1), _leafF("b", 2), _leafF("c", 3)]
        data = [["a", "a", ["arg", "x"]], ["b", "a", ["arg", "x"]], ["c", "a", ["child", "a", "o"]],
                ["c", "a", ["child", "b", "o"]]]
        if inner is not None:
            kids.append({"label": "m", "kind": "M1", "const": {}, "spec": inner})
            data.append(["m", "x", ["child", "c", "o"]])
            return {"children": kids, "data": data, "returns": [["m", "out"]]}
        return {"children": kids, "data": data, "returns": [["c", "o"]]}

    deep = {"kind": "wf", "label": "w", "spec": {"children": [
        _leafF("a", 1, a=1), _leafF("b", 2, a=2), _leafF("c", 3),
        {"label": "m", "kind": "M1", "const": {}, "spec": lvl(lvl(None))}],
        "data": [["c", "a", ["child", "a", "o"]], ["c", "a", ["child", "b", "o"]], ["m", "x", ["child", "c", "o"]]]}}
    for be in ("pickle", "cloudpickle", "file"):
        yield {"root": deep, "state": "run", "backend": be, "rounds": 2, "target": [], "fail": [], "rerun": ["run"],
               "rerun_eq_cache": True, "mode": "corpus"}
        yield {"root": deep, "state": "fresh", "backend": be, "rounds": 2, "target": ["m", "m"], "fail": [],
               "mode": "corpus"}
    yield {"root": deep, "state": "run", "backend": "file", "rounds": 1, "target": ["m", "m", "c"], "inplace": True,
           "fail": [], "mode": "corpus"}
    # a broken process resumed: y ran, x is out on the executor (result to file), the join j has heard y
    rz = {"kind": "wf", "label": "w", "spec": {"children": [
        _leafF("y", 1, a=1), dict(_leafF("x", 2, a=2), exec="ctl", serialize=True, nocache=True), _leafF("j", 3)],
        "data": [["j", "a", ["child", "x", "o"]], ["j", "b", ["child", "y", "o"]]]}}
    for be in ("pickle", "file"):
        yield {"root": rz, "state": "ctlmid", "ctl": True, "resume": True, "schedule": [0, 0, 0, 0], "snap_at": -1,
               "backend": be, "rounds": 1, "target": [], "fail": [], "has_executor": True, "mode": "corpus"}
    # a linked child input given a value directly (out of step with the macro input): the round trip keeps it
    yield {"root": {"kind": "M1", "label": "m", "const": {"x": 1}, "spec": {
        "children": [_leafF("a", 1)], "data": [["a", "a", ["arg", "x"]]], "returns": [["a", "o"]]}},
        "state": "fresh", "mode": "corpus", "backend": "pickle", "rounds": 1, "target": [], "fail": [],
        "edits": [["setval", [], "a", "a", "direct"]], "rerun": ["run"]}
    # every form of executor instructions `_parse_executor` accepts — by class, by class with arguments, by provider
    # function with positional / keyword arguments — on a top-level child, inside nested macros, on a macro itself and
    # on a lone child; every back end; both copies run again: the same jobs go to the same executors
    inner_x = {"children": [dict(_leafF("a", 1), exec="ctlp", exec_name="in"), dict(_leafF("b", 2), exec="ctlik")],
               "data": [["a", "a", ["arg", "x"]], ["b", "a", ["child", "a", "o"]]], "returns": [["b", "o"]]}
    outer_x = {"children": [dict(_leafF("pre", 3), exec="ctlpk", exec_name="in"),
                            {"label": "inner", "kind": "M1", "const": {}, "spec": inner_x, "exec": "ctlp",
                             "exec_name": "mac"}],
               "data": [["pre", "a", ["arg", "x"]], ["inner", "x", ["child", "pre", "o"]]], "returns": [["inner", "out"]]}
    gx = {"kind": "wf", "label": "w", "spec": {"children": [
        dict(_leafF("top", 4, a=1), exec="ctlp", exec_name="top"),
        {"label": "outer", "kind": "M1", "const": {}, "spec": outer_x},
        dict(_leafF("last", 5), exec="ctli")],
        "data": [["outer", "x", ["child", "top", "o"]], ["last", "a", ["child", "outer", "out"]]]}}
    for be in ("pickle", "cloudpickle", "file"):
        yield {"root": gx, "state": "fresh", "ctl": True, "schedule": [0, 1, 0, 2, 0, 1, 0, 0], "backend": be,
               "rounds": 2, "target": [], "fail": [], "has_executor": True, "rerun": ["run"], "rerun_eq_cache": True,
               "mode": "corpus"}
        yield {"root": gx, "state": "run", "ctl": True, "schedule": [0, 0, 1, 0, 0, 0], "backend": be, "rounds": 2,
               "target": ["outer", "inner", "a"], "fail": [], "has_executor": True, "mode": "corpus"}
    # AUTOLOAD AT CONSTRUCTION of hand-wired workflows (automation off): saved, picked up with `Workflow(label)`, run again
    # on fresh input — a conditional flow through `If`, and a custom firing order
    yield {"root": {"kind": "wf", "label": "w", "spec": _cyclic_spec(None, 3)}, "state": "run", "backend": "autoload",
           "ctor": {}, "rounds": 2, "target": [], "fail": [], "rerun": [["set", ["post"], "b", "fresh"], "run"],
           "rerun_eq_cache": True, "mode": "corpus"}
    yield {"root": m2, "state": "run", "backend": "autoload", "ctor": {}, "rounds": 1, "target": [], "fail": [],
           "rerun": [["set", ["a"], "b", "fresh"], "run"], "rerun_eq_cache": True, "mode": "corpus"}
    yield {"root": m2, "state": "fresh", "backend": "autoload", "ctor": {"auto": True, "imap": {"zz__a": "al"}},
           "rounds": 1, "target": [], "fail": [], "rerun": ["run"], "mode": "corpus"}
    yield {"root": m1["spec"]["children"][0] | {"label": "m", "const": {"x": 1}}, "state": "run", "backend": "autoload",
           "rounds": 2, "target": [], "fail": [], "rerun": ["run"], "rerun_eq_cache": True, "mode": "corpus"}
    # a child on its own, nested, all three back ends
    for be in ("pickle", "cloudpickle", "file"):
        yield {"root": m1, "state": "run", "backend": be, "rounds": 2, "target": ["m", "c"], "fail": [], "mode": "corpus"}
    # failed midway, then run again after resetting the flags
    yield {"root": w1, "state": "fail", "backend": "cloudpickle", "rounds": 2, "target": [], "fail": [3],
           "rerun": ["run", "reset", "run"], "rerun_clear_fail": True, "mode": "corpus"}
    # the cyclic flow
    yield {"root": {"kind": "wf", "label": "w", "spec": _cyclic_spec(None, 3)}, "state": "run", "backend": "pickle",
           "rounds": 2, "target": [], "fail": [], "rerun": ["run"], "mode": "corpus"}
    # a node class that cannot be imported: cloudpickle, and the .cpckl fallback of the file back end
    loc = {"kind": "wf", "label": "w", "spec": {"children": [_leafF("a", 1, a=1), {"label": "l", "kind": "loc", "const": {}}],
                                                 "data": [["l", "a", ["child", "a", "o"]]]}}
    for be in ("cloudpickle", "file"):
        yield {"root": loc, "state": "run", "backend": be, "rounds": 2, "target": [], "fail": [], "rerun": ["run"],
               "rerun_eq_cache": True, "mode": "corpus"}
    # save (plain pickle works), add a node class that cannot be imported, save again at the same place (cloudpickle
    # fallback), load: the LAST save must come back
    yield {"root": w1, "state": "run", "backend": "file", "rounds": 1, "target": [], "fail": [],
           "resave": [["addloc", [], "zloc", "a", "o"], ["setval", [], "b", "c", "resaved"]], "mode": "corpus"}
    yield {"root": loc, "state": "run", "backend": "file", "rounds": 1, "target": [], "fail": [],
           "resave": [["setval", [], "a", "c", "resaved"]], "mode": "corpus"}


def shrink_candidates(case):
    c = copy.deepcopy(case)
    if c.get("rounds", 1) > 1:
        c["rounds"] = 1
        yield c
    if case.get("rerun"):
        c = copy.deepcopy(case)
        c.pop("rerun")
        yield c
    root = case["root"]
    if "spec" not in root:
        return

    def specs(node, trail=()):
        yield trail
        for i, ch in enumerate(node["spec"]["children"]):
            if "spec" in ch:
                yield from specs(ch, trail + (i,))

    def at(r, trail):
        for i in trail:
            r = r["spec"]["children"][i]
        return r

    for trail in specs(root):
        sp = at(root, trail)["spec"]
        if any(c["kind"] == "if" for c in sp["children"]):
            continue  # a while-loop: every wire is part of its exit condition
        for j in range(len(sp.get("data", []))):
            c = copy.deepcopy(case)
            at(c["root"], trail)["spec"]["data"].pop(j)
            yield c
        for j in range(len(sp.get("signals", []))):
            c = copy.deepcopy(case)
            at(c["root"], trail)["spec"]["signals"].pop(j)
            yield c
        for j, ch in enumerate(sp["children"]):
            lab = ch["label"]
            used = any(d[0] == lab or (d[2][0] == "child" and d[2][1] == lab) for d in sp.get("data", []))
            used = used or any(lab in (s[0], s[2]) for s in sp.get("signals", [])) or lab in sp.get("starting", [])
            used = used or any(r[0] == lab for r in sp.get("returns", []))
            used = used or (case.get("target") and lab in case["target"]) or lab in (case.get("pull") or [])
            if not used and len(sp["children"]) > 1:
                c = copy.deepcopy(case)
                at(c["root"], trail)["spec"]["children"].pop(j)
                yield c
    if case["state"] != "fresh":
        c = copy.deepcopy(case)
        c["state"] = "fresh"
        c["fail"] = []
        c.pop("pull", None)
        yield c
    if case["backend"] != "pickle":
        c = copy.deepcopy(case)
        c["backend"] = "pickle"
        yield c


if __name__ == "__main__":
    import sys as _sys

    if len(_sys.argv) == 3 and _sys.argv[1] == "--child":
        _child_main(_sys.argv[2])
