"""
Importable macro definitions for C09, produced from a small description of body shapes.

A definition is a nested JSON-able dict (the same shape as the Lean `Node`):

    leaf  {"t": "L", "f": 3, "srcs": [src, src, src]}              term node nodes.F3(a=…, b=…, c=…)
    macro {"t": "M", "id": 7, "args": [{"d": value|None, "h": 0..3}], "body": [node…], "rets": [ret…],
           "oh": [hint code per return], "srcs": [src per arg], "flow": "auto"|"wired",
           "lab": "scrape"|"declare", "style": "deco"|"class",
           "base": macro|absent  (the class extends the class of this other definition and overrides graph_creator)}
    src   ["a", k]  the creator's k-th parameter (a UI node)      ["o", j, o]  output o of child j
          ["k", value]  a plain value                             ["n"]        not given
    ret   ["a", k] | ["o", j, o]
    value "d" | "cN" | ["fN", value, value, value]   (tuples are lists in JSON)

`render(defn)` gives the source of a module defining every macro class of the definition, innermost
first, as real `def`s so that `inspect.getsource` (label scraping, validation) works; the harness writes
it to a file in its scratch directory and imports it. Names: parameters `x0, x1, …`, children `c0, c1, …`,
classes `M<id>`, declared output labels `o0, o1, …`, scraped ones whatever the library scrapes
(`c2`, `x1`).
"""

from __future__ import annotations

HINT_SRC = {0: None, 1: "str | tuple", 2: "str | tuple | int", 3: "object"}
LEAF_IN = ("a", "b", "c")


def to_py(v):
    """JSON value -> the Python object the real nodes see"""
    if isinstance(v, (list, tuple)):
        return tuple(to_py(x) for x in v)
    return v


def macros_of(defn, acc=None):
    """all macro definitions, innermost first, each once (by id)"""
    acc = [] if acc is None else acc
    if defn["t"] == "M":
        for ch in defn["body"]:
            macros_of(ch, acc)
        if defn.get("base") is not None:
            macros_of(defn["base"], acc)  # a parent class is defined before the class that extends it
        if all(m["id"] != defn["id"] for m in acc):
            acc.append(defn)
    return acc


def nout(node):
    return 1 if node["t"] == "L" else len(node["rets"])


def selfarg(m):
    """the name of the creator's first parameter"""
    return m.get("selfarg", "self")


def ret_expr(m, ret):
    """source text of the returned expression (before an optional local alias)"""
    sa = selfarg(m)
    if ret[0] == "a":
        return f"x{ret[1]}"
    ch = m["body"][ret[1]]
    if nout(ch) == 1:
        return f"{sa}.c{ret[1]}"
    return f"{sa}.c{ret[1]}.outputs.{out_labels(ch)[ret[2]]}"


def ret_texts(m):
    """what the return statement names: a local variable where the creator made one, else the expression"""
    loc = m.get("loc") or [None] * len(m["rets"])
    return [loc[r] if loc[r] else ret_expr(m, ret) for r, ret in enumerate(m["rets"])]


def out_labels(node):
    """the output labels the definition is expected to get"""
    if node["t"] == "L":
        return ["o"]
    if node["lab"] == "declare":
        return [f"o{r}" for r in range(len(node["rets"]))]
    loc = node.get("loc") or [None] * len(node["rets"])
    labs = []
    for r, ret in enumerate(node["rets"]):
        if loc[r]:
            labs.append(loc[r])  # a returned local variable is labelled by its own name
        else:
            labs.append(f"x{ret[1]}" if ret[0] == "a" else f"c{ret[1]}")
    return labs


def can_scrape(m):
    """scraped labels must be dot-free and distinct"""
    loc = m.get("loc") or [None] * len(m["rets"])
    labs = []
    for r, ret in enumerate(m["rets"]):
        if loc[r]:
            labs.append(("loc", loc[r]))
            continue
        if ret[0] == "o" and nout(m["body"][ret[1]]) != 1:
            return False
        labs.append(tuple(ret[:2]))
    return len(set(labs)) == len(labs)


def src_expr(m, child_index, s):
    if s[0] == "a":
        return f"x{s[1]}"
    if s[0] == "o":
        sa = selfarg(m)
        ch = m["body"][s[1]]
        if nout(ch) == 1:
            return f"{sa}.c{s[1]}"
        return f"{sa}.c{s[1]}.outputs.{out_labels(ch)[s[2]]}"
    if s[0] == "k":
        return repr(to_py(s[1]))
    raise ValueError(s)


def is_fwd(j, s):
    """a keyword argument naming the child itself or a later child: wired after all children exist"""
    return s[0] == "o" and s[1] >= j


def child_ctor(m, j, ch):
    kws = []
    if ch["t"] == "L":
        for lab, s in zip(LEAF_IN, ch["srcs"]):
            if s[0] != "n" and not is_fwd(j, s):
                kws.append(f"{lab}={src_expr(m, j, s)}")
        return f"nodes.F{ch['f']}({', '.join(kws)})"
    for k, s in enumerate(ch["srcs"]):
        if s[0] != "n" and not is_fwd(j, s):
            kws.append(f"x{k}={src_expr(m, j, s)}")
    return f"M{ch['id']}({', '.join(kws)})"


def late_wiring(m):
    sa = selfarg(m)
    out = []
    for j, ch in enumerate(m["body"]):
        for i, s in enumerate(ch["srcs"]):
            if is_fwd(j, s):
                lab = LEAF_IN[i] if ch["t"] == "L" else f"x{i}"
                out.append(f"{sa}.c{j}.inputs.{lab} = {src_expr(m, j, s)}")
    return out


def signature(m):
    ps = [selfarg(m)]
    for k, a in enumerate(m["args"]):
        p = f"x{k}"
        if a["h"]:
            p += f": {HINT_SRC[a['h']]}"
        if a["d"] is not None:
            p += (" = " if a["h"] else "=") + repr(to_py(a["d"]))
        ps.append(p)
    ann = ""
    oh = m["oh"]
    if oh and any(oh):
        if len(oh) == 1:
            ann = f" -> {HINT_SRC[oh[0]]}"
        else:
            ann = " -> tuple[" + ", ".join(HINT_SRC[h] for h in oh) + "]"
    return f"({', '.join(ps)}){ann}"


def render_macro(m):
    name = m.get("name") or f"M{m['id']}"
    sa = selfarg(m)
    body = []
    for j, ch in enumerate(m["body"]):
        body.append(f"{sa}.c{j} = {child_ctor(m, j, ch)}")
    body += late_wiring(m)
    flow = m.get("flow", "auto")
    n = len(m["body"])
    if flow == "wired":
        body.append(" >> ".join(f"{sa}.c{j}" for j in range(n)))
        body.append(f"{sa}.starting_nodes = [{sa}.c0]")
    elif flow == "signals-only":
        body.append(" >> ".join(f"{sa}.c{j}" for j in range(n)))
    elif flow == "starters-only":
        body.append(f"{sa}.starting_nodes = [{sa}.c0]")
    if m["rets"]:
        loc = m.get("loc") or [None] * len(m["rets"])
        for r, ret in enumerate(m["rets"]):
            if loc[r]:
                body.append(f"{loc[r]} = {ret_expr(m, ret)}")
        body.append("return " + ", ".join(ret_texts(m)))
    elif not body:
        body.append("pass")
    labels = out_labels(m) if m["lab"] == "declare" else None
    lines = []
    if m.get("base") is not None:
        # a macro class extending another concrete macro class and overriding its graph creator
        lines.append(f"class {name}(M{m['base']['id']}):")
        if labels is not None:
            lines.append(f"    _output_labels = {tuple(labels)!r}")
        lines.append("")
        lines.append(f"    def graph_creator{signature(m)}:")
        lines += ["        " + b for b in body]
    elif m.get("style", "deco") == "plain":
        # the bare creator (handed to `macro_node` by the caller)
        lines.append(f"def {name}{signature(m)}:")
        lines += ["    " + b for b in body]
    elif m.get("style", "deco") == "deco":
        deco = "@as_macro_node"
        if labels is not None:
            deco += "(" + ", ".join(repr(x) for x in labels) + ")"
        lines.append(deco)
        lines.append(f"def {name}{signature(m)}:")
        lines += ["    " + b for b in body]
    else:
        lines.append(f"class {name}(Macro):")
        if labels is not None:
            lines.append(f"    _output_labels = {tuple(labels)!r}")
        lines.append("")
        lines.append(f"    def graph_creator{signature(m)}:")
        lines += ["        " + b for b in body]
    return "\n".join(lines)


def render(defn):
    parts = [
        "from __future__ import annotations",
        "",
        "from pyiron_workflow import Macro, as_macro_node",
        "",
        "from pwh import nodes",
        "",
    ]
    for m in macros_of(defn):
        parts.append("")
        parts.append(render_macro(m))
        parts.append("")
    return "\n".join(parts) + "\n"


def render_family(defs):
    """creators that all carry the same bare name `Model`, each defined in the local scope of its own
    function: `make_k()` returns the class the decorator made of creator k, `node_k()` an instance made by
    `macro_node(creator_k, …)`. Leaves only."""
    parts = [
        "from __future__ import annotations",
        "",
        "from pyiron_workflow import Macro, as_macro_node, macro_node",
        "",
        "from pwh import nodes",
        "",
    ]
    for k, d in enumerate(defs):
        deco = dict(d, name="Model", style="deco")
        plain = dict(d, name="Model", style="plain")
        parts.append("")
        parts.append(f"def make_{k}():")
        parts += ["    " + line for line in render_macro(deco).split("\n")]
        parts.append("    return Model")
        parts.append("")
        parts.append("")
        parts.append(f"def node_{k}(**kwargs):")
        parts += ["    " + line for line in render_macro(plain).split("\n")]
        labels = out_labels(d) if d["lab"] == "declare" and d["rets"] else None
        parts.append(f"    return macro_node(Model, output_labels={tuple(labels) if labels else None!r}, **kwargs)")
        parts.append("")
    return "\n".join(parts) + "\n"
