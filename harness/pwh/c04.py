"""C04 — an accepted typed connection is sound, and comparing hints never crashes."""

from __future__ import annotations

import functools
import inspect
import operator
import sys
import types
import typing

PROP = "C04"
PROP_FILE = "PwVerif/Props/C04.lean"
DRIVER = "Driver/C04.lean"
THEOREMS = [
    "C04_sound",
    "C04_sound_partial",
    "C04_sound_patched",
    "C04_total",
    "C04_total_partial",
    "C04_fuel_irrelevant",
    "C04_refl",
    "C04_refl_partial",
    "C04_connect",
    "C04_receiver",
    "C04_connect_unchecked",
    "C04_connection_sound",
    "C04_old_union_diverges",
    "C04_old_union_diverges_right",
    "C04_old_union_not_reflexive",
    "C04_total_witness",
    "C04_refl_witness",
    "C04_sound_witness",
    "C04_sound_witness_literal",
    "C04_sound_witness_float",
    "C04_sound_witness_float_union",
    "C04_sound_witness_frozenset",
    "C04_sound_witness_empty_tuple",
    "C04_patched_still_unsound",
    "C04_patched_literal_fixed",
    "C04_litclean_needed",
    "C04_gate_is_receiver_rule",
    "C04_gate_consults",
    "C04_gate_waived",
    "C04_gate_sender_flag_irrelevant",
    "C04_gate_initiator_irrelevant",
    "C04_gate_sound",
    "C04_gate_sound_partial",
    "C04_rule_sound_iff",
    "C04_tree_rule_sound",
    "C04_both_flags_rule_unsound",
    "C04_initiator_rule_unsound",
    "C04_history_checked",
    "C04_history_sound",
    "C04_push_through_accepted",
    "C04_now_checked_without_activation",
    "C04_activation_not_rechecked",
    "C04_activation_value_refused",
    "C04_sound_now",
    "C04_sound_args_fixed",
    "C04_total_now",
    "C04_refl_now",
    "C04_sound_witness_mapping",
    "C04_now_needs_no_empty_tuple",
    "C04_now_needs_litclean",
    "C04_now_needs_isinstance_agrees",
    "C04_args_fixed_behaviour",
    "C04_gate_sound_now",
    "C04_link_local",
    "C04_link_outcome",
    "C04_end_of_chain_witness",
    "C04_end_of_chain_unsound",
    "C04_chain_sound",
    "C04_deliver_checks_head",
]
RULE = (
    "(1) pair cases: ordered pairs of REAL hint objects from the grammar cls | None | typing.Any | X|Y | Union/Optional | "
    "Literal (also mixing 1/True) | Annotated | list/set/dict/tuple[...]/tuple[X, ...]/tuple[()]/type/Callable/"
    "Sequence[X]/Mapping[K, V] generics | the bare typing aliases List/Set/Dict/Tuple/Type/Callable/Sequence/Mapping, "
    "each generic also spelled with its typing alias (typing.List[int] ...), over the class lattice "
    "object, int>bool, float, str, list, set, frozenset, dict, tuple, type, NoneType, Callable, Sequence>list,tuple,str, "
    "Mapping>dict, A>B>C, D; "
    "quick: ~2500 pairs = exhaustive-depth-1 sample + random depth<=2 + related pairs (input derived from the output "
    "by generalising steps, so that accepted pairs are frequent); thorough: ALL ordered pairs of the depth<=1 "
    "enumeration over the small alphabet + 65000 random/related pairs to depth 3. Each pair: comparison both ways of "
    "reflexivity, valid_value of a witness pool (>=6 values incl. near misses) against both hints, and the ACCEPTANCE "
    "GATE on bare channels for every initiator (out.connect(inp), inp.connect(out), value_receiver between two inputs, "
    "between two outputs) x sender strict_hints x receiver strict_hints, plus the three other hint presences (28 gate "
    "evaluations per pair); half of the random pairs come from the restricted grammar on which no failure is "
    "excusable. (2) gate cases on REAL nodes in a Workflow (function nodes / macros whose annotations are the "
    "generated hints): 17 API paths (connect from either side, IO-panel assignment of a channel / of a node, "
    "set_input_values keyword, run keyword, constructor keyword, copy_connections from either side, replace_child of "
    "the receiving / the sending node, value_receiver in->in / out->out, macro construction links in and out, "
    "macro.replace_child re-linking in and out) x sender flag x receiver flag x hint presence x how the flag was "
    "switched (channel, node, IO panel, parent workflow) x a value held by the sender when the link is made x up to 5 "
    "later steps (flag toggles on either side, witness values pushed through the link, the link asked for again); "
    "quick: every via x flags with one incompatible and one compatible hand-picked pair + presence block + 450 random "
    "(~650); thorough: the full cross product with 12+11 pairs and 4 switch mechanisms + 7000 random. "
    "(2b) chain cases on REAL nodes: the channel the link is made to HAS value receivers (1-3 links below it; plain "
    "function nodes linked by hand or really nested macros Outer -> Inner -> leaf), hints along the chain widening "
    "(ladders), narrowing or unrelated (behind lax members) or missing, the sender's hint on or between the rungs, "
    "flags of every member set before or after the chain was forged, the sender forwarding to 0-2 outputs of its "
    "own, 7 vias, witness values pushed all the way down; quick ~280, thorough 5000. "
    "(3) exotic cases, oracle only (no model): ~115 named hints beyond the modelled grammar (TypeVar bound/constrained, "
    "NewType, Protocol, TypedDict, ForwardRef and plain strings, Self/Never/LiteralString/Final/ClassVar, user Generic "
    "classes, collections.abc / collections generics, Callable with hinted parameters / Concatenate / ParamSpec, "
    "type[generic], Annotated[Any], tuple[int, *tuple[str, ...]], numpy scalar types / ndarray / NDArray, pint Quantity) "
    "x an adversarial witness pool (C03's: look-alikes of pint quantities, lying numbers, subclasses with odd "
    "__eq__/__hash__, real pint quantities, numpy scalars and arrays; + plain near misses): quick = all pairs inside "
    "each of 10 families + 500 random pairs, thorough = all ordered pairs. "
    "non-trivial = the comparison answered and at least one side is not a bare class (pairs); both hinted and the link "
    "attempt answered ok/refused (gate cases); the comparison answered (exotic)"
)
TRUSTED = [
    "Model/Hint.lean transcribes type_hint_is_as_or_more_specific_than / type_hint_to_tuple / _get_type_hints / "
    "valid_value and typeguard 4.4.2's checkers (FIRST_ITEM collection strategy, check_literal's index-then-type "
    "test, check_number, check_set, check_class, check_callable's arity test); validated on every generated pair "
    "and witness",
    "Model/HintGate.lean transcribes DataChannel._valid_connection (_both_typed, _figure_out_who_is_who, the INPUT's "
    "strict_hints), the value_receiver setter (the PARTNER's strict_hints, then the push of the current value), "
    "Channel.connect's already-connected shortcut, _type_check_new_value and the order of checks in the value setters; "
    "validated on every gate evaluation and every history step",
    "the mapping of the 17 API paths onto the four mechanisms oc/ic/ri/ro (c04.GATE_VIAS), validated by the "
    "correspondence of every gate case",
    "the abstraction hint object -> model term uses only typing.get_origin/get_args/isinstance (c04.abstract)",
    "RecursionError under a lowered recursion limit stands for non-termination (model: no answer for any fuel)",
]
ASSUMPTIONS = [
    "hints outside the modelled grammar (TypeVar/NewType/Protocol/TypedDict/forward references/Self, type[generic], "
    "hints as Callable parameters, collections.abc generics other than Sequence/Mapping, numpy/pint types) are checked by "
    "the oracle only (exotic cases), not against the model; Annotated[Any] is excluded from the modelled generator "
    "because valid_value raises for it (KF-C04-7)",
    "Literal[...] listing both 1 and True (or 0 and False) is rejected by typeguard itself for one of them (known "
    "finding KF-C04-5); generated in the unrestricted half only",
    "adversarial witnesses whose own overridden __eq__/__len__/... raise are used for soundness judgements when "
    "valid_value answers; an exception they raise themselves is not counted as a crash of valid_value",
    "strict_hints is read as the documented opt-out of the RECEIVING channel: a link accepted while the receiver's "
    "flag is off is outside the guarantee (also after the flag is switched on again: connections are not re-validated, "
    "values are then refused one by one - theorem C04_activation_not_rechecked); the sender's flag and the identity of "
    "the initiator never waive it",
    "histories have one link at a time between the two observed channels; value-link chains of more than one hop, "
    "several data-carrying connections into one input (fetch priority) and a type_hint attribute re-assigned after "
    "linking are not explored",
]
EXHAUSTIVE = {"quick": False, "thorough": True}
EXPLANATION = (
    "The tree's behaviour on four distinguishing probes (old-union expansion, literal leaf equality, isinstance-first "
    "admission, args rule = tuple[int] vs tuple[()]) selects the model Cfg the correspondence is checked against; it is "
    "recorded as histogram key variant:<abcd> (0000 = pinned, 1100 = Cfg.now, 1101 = with fixes/C04-args-rule.patch, "
    "1111 = Cfg.repaired). A tree that matches no Cfg diverges."
)


# ----------------------------------------------------------------------------- the class lattice (real classes)


class A:
    pass


class B(A):
    pass


class C(B):
    pass


class D:
    pass


def _classes():
    from collections.abc import Callable, Mapping, Sequence

    return {
        "Sequence": Sequence, "Mapping": Mapping,
        "object": object, "int": int, "bool": bool, "float": float, "str": str, "list": list, "set": set,
        "frozenset": frozenset, "dict": dict, "tuple": tuple, "type": type, "NoneType": type(None),
        "Callable": Callable, "function": types.FunctionType, "A": A, "B": B, "C": C, "D": D,
    }


CLS = _classes()
CLS_NAME = {id(v): k for k, v in CLS.items()}

FUNCS = {
    (0, 0, 0): lambda: 0,
    (1, 1, 0): lambda x: 0,
    (2, 2, 0): lambda x, y: 0,
    (1, 2, 0): lambda x, y=1: 0,
    (0, 0, 1): lambda *a: 0,
    (3, 3, 0): lambda x, y, z: 0,
}
FLOATS = {0: 1.0, 1: 2.5}


class Unsupported(Exception):
    pass


class HarnessBug(Exception):
    pass


# ----------------------------------------------------------------------------- hints: term -> object -> term


ALIASES = {"list": "List", "set": "Set", "dict": "Dict", "tuple": "Tuple", "type": "Type", "Callable": "Callable",
           "Sequence": "Sequence", "Mapping": "Mapping"}


def build(t, sp=0):
    """hint term -> real Python hint object; sp=1 spells generics with the `typing` aliases (typing.List[int], ...),
    which have the same origin and arguments"""
    import collections.abc as abc
    from collections.abc import Callable

    k = t[0]
    if k == "c":
        return CLS[t[1]]
    if k == "N":
        return None
    if k == "any":
        return typing.Any
    if k == "ba":
        return getattr(typing, ALIASES[t[1]])
    if k == "sq":
        return (typing.Sequence if sp else abc.Sequence)[build(t[1], sp)]
    if k == "mp":
        return (typing.Mapping if sp else abc.Mapping)[build(t[1], sp), build(t[2], sp)]
    if k == "un":
        ms = [build(x, sp) for x in t[1]]
        return functools.reduce(operator.or_, ms)
    if k == "uo":
        return typing.Union[tuple(build(x, sp) for x in t[1])]  # noqa: UP007
    if k == "lit":
        return typing.Literal[tuple(build_lit(x) for x in t[1])]
    if k == "an":
        return typing.Annotated[build(t[1], sp), "meta"]
    if k == "li":
        return (typing.List if sp else list)[build(t[1], sp)]
    if k == "se":
        return (typing.Set if sp else set)[build(t[1], sp)]
    if k == "di":
        return (typing.Dict if sp else dict)[build(t[1], sp), build(t[2], sp)]
    if k == "tf":
        T = typing.Tuple if sp else tuple
        return T[tuple(build(x, sp) for x in t[1])] if t[1] else T[()]
    if k == "tv":
        return (typing.Tuple if sp else tuple)[build(t[1], sp), ...]
    if k == "ty":
        return (typing.Type if sp else type)[build(t[1], sp)]
    if k == "caE":
        return (typing.Callable if sp else Callable)[..., build(t[1], sp)]
    if k == "caP":
        return (typing.Callable if sp else Callable)[[CLS[c] for c in t[1]], build(t[2], sp)]
    raise Unsupported(str(t))


def build_lit(x):
    return {"i": lambda: int(x[1]), "b": lambda: bool(x[1]), "s": lambda: str(x[1]), "n": lambda: None}[x[0]]()


def abstract_lit(v):
    if v is None:
        return ["n"]
    if isinstance(v, bool):
        return ["b", v]
    if isinstance(v, int):
        return ["i", v]
    if isinstance(v, str):
        return ["s", v]
    raise Unsupported(repr(v))


def abstract(o):
    """real hint object -> canonical term, by typing introspection only"""
    import collections.abc

    if o is None:
        return ["N"]
    if o is typing.Any:
        return ["any"]
    if id(o) in CLS_NAME:
        return ["c", CLS_NAME[id(o)]]
    g = typing.get_origin(o)
    if g is None:
        raise Unsupported(repr(o))
    if not hasattr(o, "__args__"):
        # a bare alias of `typing`: an origin, no arguments
        names = {list: "list", set: "set", dict: "dict", tuple: "tuple", type: "type",
                 collections.abc.Callable: "Callable", collections.abc.Sequence: "Sequence",
                 collections.abc.Mapping: "Mapping"}
        if g in names and o is getattr(typing, ALIASES[names[g]]):
            return ["ba", names[g]]
        raise Unsupported(repr(o))
    if g is typing.Annotated:
        return ["an", abstract(o.__origin__)]
    args = typing.get_args(o)
    if g is types.UnionType:
        return ["un", [abstract(a) for a in args]]
    if g is typing.Union:
        return ["uo", [abstract(a) for a in args]]
    if g is typing.Literal:
        return ["lit", [abstract_lit(a) for a in args]]
    if g is collections.abc.Sequence and len(args) == 1:
        return ["sq", abstract(args[0])]
    if g is collections.abc.Mapping and len(args) == 2:
        return ["mp", abstract(args[0]), abstract(args[1])]
    if g is list and len(args) == 1:
        return ["li", abstract(args[0])]
    if g is set and len(args) == 1:
        return ["se", abstract(args[0])]
    if g is dict and len(args) == 2:
        return ["di", abstract(args[0]), abstract(args[1])]
    if g is tuple:
        if len(args) == 2 and args[1] is Ellipsis:
            return ["tv", abstract(args[0])]
        if any(a is Ellipsis for a in args):
            raise Unsupported(repr(o))
        return ["tf", [abstract(a) for a in args]]
    if g is type and len(args) == 1:
        return ["ty", abstract(args[0])]
    if g is collections.abc.Callable and len(args) == 2:
        if args[0] is Ellipsis:
            return ["caE", abstract(args[1])]
        if isinstance(args[0], list) and all(id(c) in CLS_NAME for c in args[0]):
            return ["caP", [CLS_NAME[id(c)] for c in args[0]], abstract(args[1])]
    raise Unsupported(repr(o))


def tok_lit(x):
    if x[0] == "n":
        return "n"
    if x[0] == "b":
        return "bT" if x[1] else "bF"
    return f"{x[0]}{x[1]}"


def tok(t) -> list[str]:
    k = t[0]
    if k == "c":
        return ["c", t[1]]
    if k == "N":
        return ["N"]
    if k == "any":
        return ["any"]
    if k == "ba":
        return ["ba", t[1]]
    if k == "sq":
        return ["sq"] + tok(t[1])
    if k == "mp":
        return ["mp"] + tok(t[1]) + tok(t[2])
    if k in ("un", "uo", "tf"):
        return [k, str(len(t[1]))] + [w for x in t[1] for w in tok(x)]
    if k == "lit":
        return ["lit", str(len(t[1]))] + [tok_lit(x) for x in t[1]]
    if k in ("an", "li", "se", "tv", "ty", "caE"):
        return [k] + tok(t[1])
    if k == "di":
        return ["di"] + tok(t[1]) + tok(t[2])
    if k == "caP":
        return ["caP", str(len(t[1])), *t[1]] + tok(t[2])
    raise Unsupported(str(t))


def subterms(t):
    yield t
    k = t[0]
    if k in ("un", "uo", "tf"):
        for x in t[1]:
            yield from subterms(x)
    elif k in ("an", "li", "se", "tv", "ty", "caE", "sq"):
        yield from subterms(t[1])
    elif k in ("di", "mp"):
        yield from subterms(t[1])
        yield from subterms(t[2])
    elif k == "caP":
        yield from subterms(t[2])


def _annotated_any(t) -> bool:
    return any(x[0] == "an" and x[1] == ["any"] for x in subterms(t))


def depth(t) -> int:
    if t[0] in ("c", "N", "any", "ba"):
        return 0
    return 1 + max((depth(x) for x in _children(t)), default=0)


def _children(t):
    k = t[0]
    if k in ("un", "uo", "tf"):
        return list(t[1])
    if k in ("an", "li", "se", "tv", "ty", "caE", "sq"):
        return [t[1]]
    if k in ("di", "mp"):
        return [t[1], t[2]]
    if k == "caP":
        return [t[2]]
    return []


# ----------------------------------------------------------------------------- values


def build_val(v):
    k = v[0]
    if k == "i":
        return int(v[1])
    if k == "b":
        return bool(v[1])
    if k == "f":
        return FLOATS[v[1]]
    if k == "s":
        return str(v[1])
    if k == "n":
        return None
    if k == "l":
        return [build_val(x) for x in v[1]]
    if k == "t":
        return tuple(build_val(x) for x in v[1])
    if k == "st":
        return {build_val(x) for x in v[1]}
    if k == "fs":
        return frozenset(build_val(x) for x in v[1])
    if k == "d":
        return {build_val(a): build_val(b) for a, b in v[1]}
    if k == "k":
        return CLS[v[1]]
    if k == "fn":
        return FUNCS[(v[1], v[2], v[3])]
    if k == "o":
        return CLS[v[1]]()
    raise Unsupported(str(v))


def abstract_val(x):
    """real value -> model value term; sets in their real iteration order"""
    if x is None:
        return ["n"]
    if isinstance(x, bool):
        return ["b", x]
    if isinstance(x, int):
        return ["i", x]
    if isinstance(x, float):
        return ["f", {v: k for k, v in FLOATS.items()}[x]]
    if isinstance(x, str):
        return ["s", x]
    if isinstance(x, list):
        return ["l", [abstract_val(y) for y in x]]
    if isinstance(x, tuple):
        return ["t", [abstract_val(y) for y in x]]
    if isinstance(x, frozenset):
        return ["fs", [abstract_val(y) for y in x]]
    if isinstance(x, set):
        return ["st", [abstract_val(y) for y in x]]
    if isinstance(x, dict):
        return ["d", [[abstract_val(a), abstract_val(b)] for a, b in x.items()]]
    if isinstance(x, type):
        if id(x) in CLS_NAME:
            return ["k", CLS_NAME[id(x)]]
        raise Unsupported(repr(x))
    if isinstance(x, types.FunctionType):
        mand = npos = 0
        va = 0
        for p in inspect.signature(x).parameters.values():
            if p.kind in (p.POSITIONAL_ONLY, p.POSITIONAL_OR_KEYWORD):
                npos += 1
                mand += p.default is p.empty
            elif p.kind == p.VAR_POSITIONAL:
                va = 1
        return ["fn", mand, npos, va]
    if type(x) in (A, B, C, D):
        return ["o", type(x).__name__]
    raise Unsupported(repr(x))


def tok_val(v) -> list[str]:
    k = v[0]
    if k == "n":
        return ["n"]
    if k == "b":
        return ["bT" if v[1] else "bF"]
    if k in ("i", "f", "s"):
        return [f"{k}{v[1]}"]
    if k in ("l", "t", "st", "fs"):
        return [k, str(len(v[1]))] + [w for x in v[1] for w in tok_val(x)]
    if k == "d":
        return ["d", str(len(v[1]))] + [w for a, b in v[1] for w in tok_val(a) + tok_val(b)]
    if k in ("k", "o"):
        return [k, v[1]]
    if k == "fn":
        return ["fn", str(v[1]), str(v[2]), str(v[3])]
    raise Unsupported(str(v))


def _hashable(v) -> bool:
    return v[0] not in ("l", "st", "d") and all(_hashable(x) for x in (v[1] if v[0] in ("t", "fs") else []))


CLS_POOL = {
    "object": [["i", 1], ["n"], ["s", "a"]],
    "int": [["i", 1], ["b", True], ["f", 0], ["s", "a"]],
    "bool": [["b", True], ["i", 1], ["i", 0]],
    "float": [["f", 1], ["i", 1], ["b", True], ["s", "a"]],
    "str": [["s", "a"], ["i", 1]],
    "list": [["l", []], ["l", [["i", 1]]], ["t", [["i", 1]]]],
    "set": [["st", [["i", 1]]], ["fs", [["i", 1]]], ["l", []]],
    "frozenset": [["fs", [["i", 1]]], ["st", [["i", 1]]]],
    "dict": [["d", []], ["d", [[["s", "a"], ["i", 1]]]], ["l", []]],
    "tuple": [["t", []], ["t", [["i", 1]]], ["l", [["i", 1]]]],
    "type": [["k", "int"], ["k", "A"], ["i", 1]],
    "NoneType": [["n"], ["i", 0]],
    "Callable": [["fn", 1, 1, 0], ["k", "A"], ["i", 1]],
    "function": [["fn", 0, 0, 0], ["k", "int"]],
    "Sequence": [["l", [["i", 1]]], ["t", []], ["s", "ab"], ["d", []], ["st", [["i", 1]]]],
    "Mapping": [["d", []], ["d", [[["s", "a"], ["i", 1]]]], ["l", []]],
    "A": [["o", "A"], ["o", "B"], ["o", "D"]],
    "B": [["o", "B"], ["o", "C"], ["o", "A"]],
    "C": [["o", "C"], ["o", "B"]],
    "D": [["o", "D"], ["o", "A"]],
}
GLOBAL_POOL = [["i", 1], ["b", True], ["s", "a"], ["n"], ["l", [["i", 1], ["s", "a"]]], ["t", [["i", 1]]], ["d", []],
               ["f", 1]]


def pool(t, cap=10):
    """witness values for a hint term: members and near misses"""
    out = []
    k = t[0]
    if k == "c":
        out = list(CLS_POOL[t[1]])
    elif k == "N":
        out = [["n"], ["i", 0]]
    elif k == "any":
        out = list(GLOBAL_POOL)
    elif k == "ba":
        out = list(CLS_POOL[t[1]]) + ([["fs", [["i", 1]]]] if t[1] == "set" else [])
    elif k == "sq":
        p = pool(t[1], 5)
        out = [["l", []]] + [["l", [x]] for x in p[:3]] + [["t", [p[0]]], ["t", [["s", "q"], p[0]]], ["s", "ab"], ["s", ""],
                                                             ["l", [p[0], ["s", "a"]]], ["st", [["i", 1]]], ["d", []]]
    elif k == "mp":
        pk = [x for x in pool(t[1], 5) if _hashable(x)]
        pv = pool(t[2], 5)
        out = [["d", []]]
        if pk and pv:
            out += [["d", [[pk[0], pv[0]]]], ["d", [[pk[0], pv[-1]]]], ["d", [[["s", "zz"], pv[0]]]]]
            if _hashable(pv[0]):
                out.append(["d", [[pv[0], pk[0]]]])
        out.append(["l", []])
    elif k in ("un", "uo"):
        subs = [pool(x, 4) for x in t[1]]
        for i in range(4):
            for s in subs:
                if i < len(s):
                    out.append(s[i])
    elif k == "lit":
        for x in t[1]:
            out.append(list(x) if x[0] != "n" else ["n"])
        out += [["b", True], ["i", 1], ["i", 0], ["b", False], ["s", "zz"], ["f", 0]]
    elif k == "an":
        out = pool(t[1], cap)
    elif k == "li":
        p = pool(t[1], 5)
        out = [["l", []]] + [["l", [x]] for x in p[:4]] + [["l", [p[0], ["s", "a"]]], ["l", [["s", "q"], p[0]]],
                                                           ["t", [p[0]]]]
    elif k == "se":
        p = [x for x in pool(t[1], 6) if _hashable(x)]
        out = [["st", []]] + [["st", [x]] for x in p[:3]] + [["fs", [x]] for x in p[:2]] + [["l", p[:1]]]
    elif k == "di":
        pk = [x for x in pool(t[1], 5) if _hashable(x)]
        pv = pool(t[2], 5)
        out = [["d", []]]
        for i in range(min(3, max(len(pk), 1))):
            if pk and pv:
                out.append(["d", [[pk[i % len(pk)], pv[i % len(pv)]]]])
        if pk and pv:
            out.append(["d", [[pk[0], pv[-1]]]])
            out.append(["d", [[["s", "zz"], pv[0]]]])
            out.append(["d", [[pk[0], pv[0]], [["s", "zz"], ["s", "zz"]]]])
        out.append(["l", []])
    elif k == "tf":
        ps = [pool(x, 4) for x in t[1]]
        if all(ps):
            out.append(["t", [p[0] for p in ps]])
            for i in range(len(ps)):
                for alt in ps[i][1:3]:
                    out.append(["t", [alt if j == i else p[0] for j, p in enumerate(ps)]])
            out.append(["t", [p[0] for p in ps] + [["i", 1]]])
            out.append(["t", [p[0] for p in ps][:-1]])
            out.append(["l", [p[0] for p in ps]])
        out += [["t", []], ["t", [["i", 1]]]]
    elif k == "tv":
        p = pool(t[1], 5)
        out = [["t", []]] + [["t", [x]] for x in p[:3]] + [["t", [p[0], ["s", "a"]]], ["t", [["s", "q"], p[0]]],
                                                          ["l", [p[0]]], ["t", [p[0], p[0], p[0]]]]
    elif k == "ty":
        out = [["k", c] for c in ("int", "bool", "str", "float", "A", "B", "C", "D", "NoneType", "list")] + [["i", 1]]
        cap = max(cap, 11)
    elif k in ("caE", "caP"):
        out = [["fn", 0, 0, 0], ["fn", 1, 1, 0], ["fn", 2, 2, 0], ["fn", 1, 2, 0], ["fn", 0, 0, 1], ["k", "A"],
               ["k", "int"], ["k", "list"], ["i", 1]]
    res, seen = [], set()
    for v in out:
        key = repr(v)
        if key not in seen:
            seen.add(key)
            res.append(v)
    return res[:cap]


# ----------------------------------------------------------------------------- generation

LEAVES_SMALL = ["int", "bool", "float", "str", "NoneType", "A", "B"]
LEAVES_ALL = list(CLS)
LITS = [["i", 1], ["i", 0], ["i", 2], ["b", True], ["b", False], ["s", "a"], ["s", "b"], ["n"]]


def _clean_lits(ls):
    """no Literal listing two ==-equal values of different type (typeguard's own quirk)"""
    out = []
    for x in ls:
        vx = build_lit(x)
        if all(not (vx == build_lit(y) and type(vx) is not type(build_lit(y))) for y in out) and x not in out:
            out.append(x)
    return out


def gen_hint(rng, d, restricted=False, top=True, leaves=None):
    leaves = leaves or LEAVES_ALL
    if restricted:
        leaves = [c for c in leaves if c not in ("float", "set")]
    if d <= 0 or rng.random() < 0.15:
        if not top and rng.random() < 0.05:
            return ["N"]
        r0 = rng.random()
        if r0 < 0.06:
            return ["any"]
        if r0 < 0.14:
            return ["ba", rng.choice([a for a in ALIASES if not (restricted and a == "set")])]
        return ["c", rng.choice(leaves)]
    r = rng.random()
    sub = lambda dd=d - 1: gen_hint(rng, dd, restricted, False, leaves)  # noqa: E731
    if r < 0.16:
        ms = [sub() for _ in range(rng.choice([2, 2, 3]))]
        ms = [m for m in ms if m[0] in ("c", "li", "se", "di", "tf", "tv", "ty", "caE", "caP", "any", "sq", "mp")] \
            or [["c", "int"]]
        if rng.random() < 0.3:
            ms.append(["c", "NoneType"])
        return ["un", ms] if len(ms) > 1 else ["un", ms + [["c", "str"]]]
    if r < 0.26 and not restricted:
        ms = [sub() for _ in range(rng.choice([1, 2, 2, 3]))]
        ms = [m for m in ms if m[0] != "N"] or [["c", "int"]]
        if len(ms) == 1 or rng.random() < 0.3:
            ms.append(["c", "NoneType"])
        return ["uo", ms]
    if r < 0.36:
        ls = rng.sample(LITS, rng.choice([1, 1, 2, 3]))
        if restricted:
            ls = [x for x in ls if x[0] != "b"] or [["s", "a"]]
        elif rng.random() < 0.12:
            return ["lit", ls]  # may list 1 next to True: typeguard's own quirk (KF-C04-5)
        return ["lit", _clean_lits(ls)]
    if r < 0.43:
        x = sub()
        return ["an", x if x[0] not in ("an", "N", "any") else ["c", "int"]]
    if r < 0.47:
        return ["sq", sub()]
    if r < 0.50 and not restricted:
        return ["mp", gen_hint(rng, 0, restricted, True, ["str", "int", "bool", "A"]), sub()]
    if r < 0.56:
        return ["li", sub()]
    if r < 0.60:
        return ["se", sub()]
    if r < 0.70:
        return ["di", gen_hint(rng, 0, restricted, True, ["str", "int", "bool", "A"]) if rng.random() < 0.7 else sub(),
                sub()]
    if r < 0.80:
        n = rng.choice([0, 1, 2, 2, 3]) if not restricted else rng.choice([1, 2, 2, 3])
        return ["tf", [sub() for _ in range(n)]]
    if r < 0.87:
        return ["tv", sub()]
    if r < 0.93:
        k = rng.random()
        cl = lambda: ["c", rng.choice(leaves)]  # noqa: E731
        if k < 0.6:
            return ["ty", cl()]
        if k < 0.8 or restricted:
            return ["ty", ["un", [["c", "int"], cl()]]]
        return ["ty", ["uo", [["c", "str"], cl()]]]
    ps = [rng.choice(leaves) for _ in range(rng.choice([0, 1, 1, 2]))]
    return ["caP", ps, sub()] if rng.random() < 0.75 else ["caE", sub()]


SUPER = {"bool": ["int", "object"], "int": ["object"], "C": ["B", "A"], "B": ["A", "object"], "A": ["object"],
         "type": ["Callable"], "function": ["Callable"], "float": ["object"], "str": ["object", "Sequence"],
         "list": ["Sequence", "object"], "tuple": ["Sequence"], "dict": ["Mapping"]}
GEN_ORIGIN = {"li": "list", "se": "set", "di": "dict", "tf": "tuple", "tv": "tuple", "ty": "type", "caE": "Callable",
              "caP": "Callable", "sq": "Sequence", "mp": "Mapping"}


def generalise(rng, t, restricted=False):
    """a hint that should admit at least what `t` admits (so the comparison often says yes)"""
    k = t[0]
    r = rng.random()
    if k == "any":
        return rng.choice([["any"], ["c", "object"], ["un", [["any"], ["c", "NoneType"]]]] +
                          ([] if restricted else [["uo", [["any"], ["c", "NoneType"]]]]))
    if k == "ba":
        return rng.choice([t, ["c", t[1]], ["c", "object"]])
    if r < 0.12 and k != "N":
        return ["an", t] if k != "an" else t
    if r < 0.3 and k != "N":
        extra = ["c", rng.choice(["str", "NoneType", "A", "int"])]
        if k == "un":
            return ["un", t[1] + [extra]]
        if k == "uo" or (rng.random() < 0.3 and not restricted):
            return ["uo", (t[1] if k == "uo" else [t]) + [extra]]
        if k in ("lit", "an"):
            return t if restricted else ["uo", [t, extra]]
        return ["un", [t, extra]]
    if k == "c":
        return ["c", rng.choice(SUPER[t[1]])] if t[1] in SUPER and rng.random() < 0.7 else t
    if k in ("un", "uo"):
        ms = [generalise(rng, x, restricted) if rng.random() < 0.5 else x for x in t[1]]
        rng.shuffle(ms)
        if k == "uo" and rng.random() < 0.3:
            ms2 = [m for m in ms if m[0] in ("c", "li", "se", "di", "tf", "tv", "ty", "caE", "caP")]
            if len(ms2) == len(ms) and len(ms) > 1:
                return ["un", ms]
        return [k, ms]
    if k == "lit":
        more = [x for x in LITS if x not in t[1] and (not restricted or x[0] != "b")]
        return ["lit", _clean_lits(t[1] + rng.sample(more, min(len(more), rng.choice([0, 1, 2]))))]
    if k == "an":
        return generalise(rng, t[1], restricted) if rng.random() < 0.5 else ["an", generalise(rng, t[1], restricted)]
    if k in GEN_ORIGIN and r < 0.38:
        return ["c", GEN_ORIGIN[k]]
    if k in GEN_ORIGIN and r < 0.47 and not (restricted and GEN_ORIGIN[k] == "set"):
        return ["ba", GEN_ORIGIN[k]]
    if k == "sq":
        return ["sq", generalise(rng, t[1], restricted)]
    if k == "mp":
        return ["mp", t[1], generalise(rng, t[2], restricted)] if rng.random() < 0.7 else ["mp", t[2], t[1]]
    if k in ("li", "se", "tv", "ty"):
        if k == "ty":
            return t
        return [k, generalise(rng, t[1], restricted)]
    if k == "di":
        return ["di", t[1], generalise(rng, t[2], restricted)]
    if k == "tf":
        if r < 0.55 and not restricted:
            return ["tf", []]
        return ["tf", [generalise(rng, x, restricted) if rng.random() < 0.6 else x for x in t[1]]]
    if k == "caE":
        return ["caE", generalise(rng, t[1], restricted)]
    if k == "caP":
        return ["caP", t[1], generalise(rng, t[2], restricted)]
    return t


def enum_depth1(leaves=None):
    """the depth<=1 enumeration over the small alphabet (deterministic)"""
    L = leaves or LEAVES_SMALL
    cl = [["c", c] for c in L]
    out = list(cl) + [["c", "list"], ["c", "tuple"], ["c", "dict"], ["c", "set"], ["c", "type"], ["c", "Callable"],
                      ["c", "object"]]
    pairs = [(a, b) for i, a in enumerate(cl) for b in cl[i + 1:]]
    out += [["un", [a, b]] for a, b in pairs]
    out += [["uo", [a, b]] for a, b in pairs]
    out += [["un", [cl[0], cl[1], cl[3]]], ["uo", [cl[0], cl[2], cl[4]]]]
    out += [["lit", [x]] for x in LITS] + [["lit", [["i", 1], ["s", "a"]]], ["lit", [["b", True], ["b", False]]],
                                            ["lit", [["i", 1], ["i", 0], ["n"]]]]
    out += [["an", c] for c in cl]
    out += [["li", c] for c in cl] + [["li", ["N"]]]
    out += [["se", c] for c in cl[:4]]
    out += [["di", ["c", "str"], c] for c in cl] + [["di", ["c", "int"], ["c", "int"]]]
    out += [["tf", []]] + [["tf", [c]] for c in cl[:4]] + [["tf", [a, b]] for a in cl[:3] for b in cl[:3]]
    out += [["tv", c] for c in cl]
    out += [["ty", c] for c in cl]
    out += [["any"], ["c", "Sequence"], ["c", "Mapping"]] + [["ba", a] for a in ALIASES]
    out += [["sq", c] for c in cl[:4]] + [["mp", ["c", "str"], c] for c in cl[:3]] + [["mp", ["c", "int"], ["c", "str"]]]
    out += [["li", ["any"]], ["tf", [cl[0], ["any"]]], ["un", [["any"], cl[4]]], ["uo", [["any"], cl[4]]]]
    out += [["caE", c] for c in cl[:3]] + [["caP", [], cl[0]], ["caP", ["int"], cl[0]], ["caP", ["int"], cl[1]],
                                           ["caP", ["bool"], cl[0]], ["caP", ["int", "str"], cl[0]],
                                           ["caP", ["int"], ["N"]]]
    return out


def _pair(h, o, rng, mode):
    c = {"kind": "pair", "h": h, "o": o, "strict": 0 if rng.random() < 0.1 else 1, "mode": mode}
    k = rng.random()
    if k < 0.2:
        c["sp"] = [1, 1] if k < 0.08 else ([1, 0] if k < 0.14 else [0, 1])  # spelled with the typing aliases
    return c


def gen_cases(rng, tier):
    yield {"kind": "malformed", "lines": ["cmp c int", "adm", "cmp c nosuch c int", "cfg 1 2 3 4", "frob 1",
                                          "adm c int q", "cmp un x c int c int", "conn - -"]}
    E1 = enum_depth1()
    if tier == "quick":
        n_enum, n_rand, n_rel, maxd = 700, 700, 1100, 2
        for _ in range(n_enum):
            yield _pair(rng.choice(E1), rng.choice(E1), rng, "enum")
    else:
        n_rand, n_rel, maxd = 25000, 40000, 3
        for h in E1:
            for o in E1:
                yield _pair(h, o, rng, "enum")
    for i in range(n_rand):
        restricted = i % 2 == 0
        d = rng.choice([1, 2, 2, maxd])
        yield _pair(gen_hint(rng, d, restricted), gen_hint(rng, d, restricted), rng,
                    "restricted" if restricted else "full")
    for i in range(n_rel):
        restricted = i % 2 == 0
        d = rng.choice([1, 1, 2, maxd])
        h = gen_hint(rng, d, restricted) if rng.random() < 0.8 else rng.choice(E1)
        if restricted and any(x[0] in ("uo", "mp") or x == ["tf", []] or x in (["c", "float"], ["c", "set"], ["ba", "set"]) or
                              (x[0] == "lit" and any(l[0] == "b" for l in x[1])) for x in subterms(h)):
            restricted = False
        o = generalise(rng, h, restricted)
        if rng.random() < 0.3:
            o = generalise(rng, o, restricted)
        if rng.random() < 0.08:
            h, o = o, h
        yield _pair(h, o, rng, "restricted" if restricted else "full")
    yield from gen_gate_cases(rng, tier)
    yield from gen_exotic_cases(rng, tier)
    yield from gen_chain_cases(rng, tier)


# hand-picked pairs for the systematic part of the gate cases: (sending hint, receiving hint)
_I, _S, _B, _F = ["c", "int"], ["c", "str"], ["c", "bool"], ["c", "float"]
GATE_BAD = [(_S, _I), (_I, _B), (["un", [_I, _S]], _I), (["li", _S], ["li", _I]), (_F, _I), (["c", "A"], ["c", "B"]),
            (["lit", [["s", "a"]]], ["lit", [["s", "b"]]]), (["di", _S, _I], ["di", _S, _S]), (_I, ["c", "NoneType"]),
            (["tv", _S], ["tf", [_S]]), (["c", "object"], _S), (["an", _S], ["an", _I])]
GATE_GOOD = [(_B, _I), (_I, ["un", [_I, _S]]), (["li", _B], ["li", _I]), (["c", "C"], ["c", "A"]),
             (["lit", [["s", "a"]]], ["lit", [["s", "a"], ["s", "b"]]]), (["tv", _B], ["c", "tuple"]), (_I, ["an", _I]),
             (_S, _S), (["di", _S, _B], ["di", _S, _I]), (_I, ["uo", [_I, ["c", "NoneType"]]]), (_S, ["c", "object"])]


def _members(t, n=3):
    return pool(t)[:n] if t is not None else GLOBAL_POOL[:n]


def _gate_case(rng, h, o, via, ss, sr, mode, lax=None, pre="auto", post="auto"):
    value_link = GATE_VIAS[via] in ("ri", "ro")
    cand = _members(h, 3) + _members(o, 2) + GLOBAL_POOL[:2]
    if pre == "auto":
        pre = rng.choice(cand) if rng.random() < (0.6 if value_link else 0.25) else None
    if post == "auto":
        post = []
        for _ in range(rng.choice([0, 1, 2, 3, 4, 5])):
            k = rng.random()
            if k < 0.45:
                post.append(["push", rng.choice(cand)])
            elif k < 0.75:
                post.append(["strict", "r", rng.choice([0, 1]), rng.choice(LAX_HOW[:3])])
            elif k < 0.88:
                post.append(["strict", "s", rng.choice([0, 1]), rng.choice(LAX_HOW[:3])])
            elif via in REPEATABLE:
                post.append(["relink"])
    return {"kind": "gate", "h": h, "o": o, "via": via, "ss": ss, "sr": sr, "lax": lax or rng.choice(LAX_HOW),
            "pre": pre, "post": post, "mode": mode}


def gen_gate_cases(rng, tier):
    """links between REAL nodes: every API path x sender flag x receiver flag x hint presence x how the flag was
    switched x a value held by the sender x what happens afterwards (toggles, values pushed, link asked again)"""
    vias = list(GATE_VIAS)
    quick = tier == "quick"
    # systematic: each via x flags with an incompatible and a compatible pair
    for via in vias:
        for ss in (0, 1):
            for sr in (0, 1):
                for table in (GATE_BAD, GATE_GOOD):
                    pairs = [rng.choice(table)] if quick else table
                    for h, o in pairs:
                        for lax in ([None] if quick else LAX_HOW):
                            yield _gate_case(rng, h, o, via, ss, sr, "gate-systematic", lax=lax)
    # hint presence
    for via in vias:
        for ph, po in ((0, 1), (1, 0), (0, 0)):
            for ss, sr in ([(rng.choice([0, 1]), rng.choice([0, 1]))] if quick else [(0, 0), (0, 1), (1, 0), (1, 1)]):
                h, o = rng.choice(GATE_BAD)
                yield _gate_case(rng, h if ph else None, o if po else None, via, ss, sr, "gate-presence")
    # random: hints from the pair generators
    E1 = enum_depth1()
    for i in range(450 if quick else 7000):
        restricted = i % 2 == 0
        d = rng.choice([0, 1, 1, 2])
        h = gen_hint(rng, d, restricted) if rng.random() < 0.7 else rng.choice(E1)
        k = rng.random()
        if k < 0.45:
            o = generalise(rng, h, restricted and _restricted(h, h))
        elif k < 0.6:
            o = h
        else:
            o = gen_hint(rng, d, restricted) if rng.random() < 0.7 else rng.choice(E1)
        if rng.random() < 0.1:
            h, o = o, h
        if h[0] == "N" or o[0] == "N":
            continue
        ss = 0 if rng.random() < 0.45 else 1
        sr = 0 if rng.random() < 0.3 else 1
        yield _gate_case(rng, h, o, rng.choice(vias), ss, sr, "gate-random")


def corpus():
    I, F, S = ["c", "int"], ["c", "float"], ["c", "str"]
    NT = ["c", "NoneType"]
    P = lambda h, o, s=1: {"kind": "pair", "h": h, "o": o, "strict": s, "mode": "corpus"}  # noqa: E731
    # the five confirmed defects (known findings / fixes), minimal
    yield P(["uo", [I, F]], I)
    yield P(I, ["uo", [I, F]])
    yield P(["uo", [I, NT]], ["uo", [I, NT]])
    yield P(["lit", [["b", True]]], ["lit", [["i", 1]]])
    yield P(["an", F], F)
    yield P(["un", [F, ["li", I]]], ["un", [F, ["c", "list"]]])
    yield P(["se", I], ["c", "set"])
    yield P(["tf", [I]], ["tf", []])
    yield P(["tv", I], ["tf", []])
    # the enlarged grammar: Mapping's arguments under the subset rule, typing.Tuple vs tuple[()], Any inside typing.Union
    yield P(["mp", S, I], ["mp", I, S])
    yield {**P(["mp", S, ["c", "bool"]], ["mp", S, I]), "sp": [1, 0]}
    yield P(["ba", "tuple"], ["tf", []])
    yield {**P(["tf", [I]], ["tf", []]), "sp": [1, 1]}
    yield P(["any"], ["uo", [["any"], NT]])
    yield P(["any"], ["un", [["any"], NT]])
    yield P(["li", I], ["ba", "list"])
    yield P(["tf", [I, S]], ["ba", "tuple"])
    yield P(["sq", ["c", "bool"]], ["sq", ["un", [I, S]]])
    yield P(["c", "str"], ["c", "Sequence"])
    yield {**P(["se", I], ["ba", "set"]), "sp": [1, 0]}
    yield {**P(["ty", ["c", "list"]], ["ty", ["c", "Sequence"]]), "vals": [["k", c] for c in CLS]}
    yield P(["lit", [["b", True]]], ["lit", [["i", 1], ["b", True]]])
    # lazy evaluation: an old union behind an earlier False is never reached
    yield P(["tf", [I, ["uo", [I, S]]]], ["tf", [S, ["uo", [I, S]]]])
    yield P(["tf", [I, ["uo", [I, S]]]], ["tf", [I, ["uo", [I, S]]]])
    yield P(["an", ["uo", [I, S]]], ["un", [I, S]])
    # sound, accepted pairs of some depth (non-vacuity)
    yield P(["di", S, ["un", [["tv", ["c", "bool"]], ["li", ["lit", [["i", 1], ["s", "a"]]]]]]],
            ["an", ["di", S, ["un", [["li", ["lit", [["s", "a"], ["i", 1], ["n"]]]], ["tv", I], NT]]]])
    yield P(["un", [["c", "bool"], ["li", ["c", "C"]], ["caP", ["int"], ["c", "B"]]]],
            ["un", [I, ["li", ["un", [["c", "A"], S]]], ["caP", ["int"], ["c", "A"]], ["lit", [["s", "x"]]]]])
    yield P(["ty", ["c", "bool"]], ["ty", ["un", [I, S]]])
    yield P(["caP", ["int"], ["N"]], ["caP", ["int"], ["N"]])
    yield P(["tv", ["c", "bool"]], ["tv", I], 0)
    # every class object against Callable arities (inspect.signature table of the model) and type[...]
    allk = [["k", c] for c in CLS]
    yield {**P(["caP", [], I], ["caP", ["int"], I]), "vals": allk}
    yield {**P(["caP", ["int", "int"], I], ["caE", I]), "vals": allk}
    yield {**P(["ty", ["c", "object"]], ["ty", ["uo", [["c", "Callable"], ["c", "A"], I]]]), "vals": allk}
    yield {**P(["c", "Callable"], ["c", "type"]), "vals": allk + [["fn", 3, 3, 0], ["o", "A"]]}
    # isinstance over unions walks the members in order and stops at the first hit
    yield {**P(["un", [["li", I], S]], ["uo", [["li", I], S]]), "vals": [["s", "a"], ["i", 1], ["l", [["i", 1]]]]}
    yield {**P(["un", [S, ["li", I]]], ["uo", [S, ["li", F]]]), "vals": [["s", "a"], ["i", 1], ["l", [["i", 1]]]]}
    yield {**P(["uo", [F, ["lit", [["i", 1]]]]], ["uo", [F, I]]), "vals": [["i", 1], ["i", 2], ["b", True]]}
    # the acceptance gate on real nodes: the upstream node alone has switched its hint checking off, the downstream
    # one still insists (str -> int must be refused from either side, through every API, as value link and in macros)
    G = lambda via, ss, sr, h=S, o=I, **kw: {"kind": "gate", "h": h, "o": o, "via": via, "ss": ss, "sr": sr,  # noqa: E731
                                             "lax": kw.pop("lax", "node"), "pre": kw.pop("pre", None),
                                             "post": kw.pop("post", []), "mode": "corpus"}
    for via in GATE_VIAS:
        yield G(via, 0, 1, post=[["push", ["s", "a"]]])
    yield G("ri", 0, 1, pre=["s", "a"])
    yield G("mi", 0, 1, pre=["s", "a"], lax="chan")
    yield G("rep_mi", 0, 1, pre=["s", "a"], lax="panel")
    yield G("ic", 1, 0, post=[["push", ["s", "a"]], ["strict", "r", 1, "node"], ["push", ["s", "a"]], ["relink"]])
    yield G("oc", 1, 1, h=["c", "bool"], o=I, post=[["strict", "r", 0, "chan"], ["push", ["b", True]],
                                                     ["strict", "r", 1, "panel"], ["push", ["b", True]], ["relink"]])
    yield G("ro", 0, 0, lax="parent", pre=["s", "a"], post=[["strict", "r", 1, "chan"], ["relink"], ["push", ["s", "b"]]])
    yield G("mo", 1, 1, h=["an", F], o=F, pre=["i", 1])
    yield G("kw", 0, 1, h=None, o=I, post=[["push", ["s", "a"]]])
    yield G("io", 0, 1, h=S, o=None, post=[["push", ["i", 1]]])
    IF = ["un", [I, F]]
    CH = lambda h, rc, via="ic", **kw: {"kind": "chain", "h": h, "ss": kw.pop("ss", 1), "rc": rc, "sc": kw.pop("sc", []),  # noqa: E731
                                       "via": via, "build": kw.pop("build", "plain"), "late": kw.pop("late", []),
                                       "vals": kw.pop("vals", []), "mode": "corpus"}
    # Outer(x: int) -> Inner(x: int) -> Halve(x: int | float), upstream output hinted float: must be refused by outer.x
    for via in CHAIN_VIAS:
        yield CH(F, [[I, 1], [I, 1], [IF, 1]], via, build="macro", vals=[["f", 1], ["i", 1]])
        yield CH(F, [[I, 1], [IF, 1]], via, vals=[["f", 1]])
    yield CH(F, [[I, 1], [I, 1], [IF, 0]], "oc", build="macro")          # the end of the chain has opted out
    yield CH(F, [[I, 0], [I, 1], [IF, 1]], "ic", build="macro", vals=[["f", 1]])  # the head has opted out: waived
    yield CH(I, [[IF, 1], [I, 0]], "ic", vals=[["f", 1], ["i", 1]])      # narrowing chain behind a lax member
    yield CH(["c", "bool"], [[I, 1], [IF, 1], ["c", "object"], 1][:3] and [[I, 1], [IF, 1], [["c", "object"], 1]], "kw",
             build="macro", sc=[[I, 1], [IF, 1]], vals=[["b", True]])
    yield CH(F, [[None, 1], [I, 1]], "io", build="macro", vals=[["f", 1]])  # hint-less macro argument: nothing compared
    yield CH(F, [[I, 1], [None, 1], [IF, 1]], "ion", vals=[["f", 1]])
    yield CH(S, [[I, 1], [S, 0]], "ic", late=[[2, 1]], vals=[["s", "a"]])
    yield CH(F, [[I, 1], [IF, 1]], "oc", sc=[[I, 0]], vals=[["f", 1]])  # the SENDER forwards to a narrower, lax output
    X = lambda a, b: {"kind": "exotic", "h": a, "o": b, "mode": "corpus"}  # noqa: E731
    yield X("type[list[int]]", "type")
    yield X("Annotated[Any]", "Any")
    yield X("Mapping[str,int]", "tMapping[str,int]")
    yield X("MutableMapping[str,int]", "MutableMapping[int,str]")
    yield X("Tuple", "Tuple[()]")
    yield X("Any", "Optional[Any]")
    yield X("G2[int,str]", "G2[str,int]")
    yield X("np.float64", "float")
    yield X("Quantity", "object")


# ----------------------------------------------------------------------------- implementation side

_VARIANT = None


def _depth_now() -> int:
    f, n = sys._getframe(), 0
    while f is not None:
        n += 1
        f = f.f_back
    return n


def _guarded(fn, margin=160):
    """run fn under a lowered recursion limit; 'REC' for RecursionError, 'EXC:<name>' otherwise"""
    old = sys.getrecursionlimit()
    sys.setrecursionlimit(_depth_now() + margin)
    try:
        return fn()
    except RecursionError:
        return "REC"
    except Exception as e:  # noqa: BLE001
        return f"EXC:{type(e).__name__}"
    finally:
        sys.setrecursionlimit(old)


def _cmp(h, o):
    from pyiron_workflow.type_hinting import type_hint_is_as_or_more_specific_than as ms

    r = _guarded(lambda: ms(h, o))
    if r is True:
        return "T"
    if r is False:
        return "F"
    return r if isinstance(r, str) else f"EXC:nonbool:{r!r}"


def _vv(v, h):
    from pyiron_workflow.type_hinting import valid_value

    try:
        r = valid_value(v, h)
    except Exception as e:  # noqa: BLE001
        return f"EXC:{type(e).__name__}"
    return "T" if r is True else "F" if r is False else f"EXC:nonbool:{r!r}"


def _tg_only(v, h):
    """pure typeguard verdict (no isinstance shortcut) — used only to classify an unsound pair"""
    from typeguard import TypeCheckError, check_type

    try:
        check_type(v, h)
        return True
    except TypeCheckError:
        return False
    except Exception:  # noqa: BLE001
        return None


def variant():
    """which behaviour the tree shows on the four distinguishing probes (model Cfg switches)"""
    global _VARIANT
    if _VARIANT is None:
        old = 0 if _cmp(typing.Union[int, float], int) == "REC" else 1  # noqa: UP007
        lit = 0 if _cmp(typing.Literal[True], typing.Literal[1]) == "T" else 1
        tg = 0 if _vv(1, float) == "F" else 1
        emp = 0 if _cmp(tuple[int], tuple[()]) == "T" else 1
        _VARIANT = [old, lit, tg, emp]
    return _VARIANT


class _Owner:
    label = "owner"
    full_label = "owner"

    def data_input_locked(self):
        return False


def _connect(hout, hinp, strict, flip):
    from pyiron_workflow.channels import ChannelConnectionError, InputData, OutputData

    out = OutputData("out", _Owner(), type_hint=hout)
    inp = InputData("inp", _Owner(), type_hint=hinp, strict_hints=bool(strict))

    def go():
        try:
            (out.connect(inp) if flip else inp.connect(out))
        except ChannelConnectionError:
            return "refused"
        ok = (inp in out.connections) and (out in inp.connections)
        return "ok" if ok else "EXC:not-connected"

    r = _guarded(go)
    if r in ("REC",) or str(r).startswith("EXC") or r == "refused":
        if out.connections or inp.connections:
            return str(r) + "+dangling"
    return r


def _receiver(hself, hpartner, strict):
    from pyiron_workflow.channels import InputData

    a = InputData("a", _Owner(), type_hint=hself)
    b = InputData("b", _Owner(), type_hint=hpartner, strict_hints=bool(strict))

    def go():
        try:
            a.value_receiver = b
        except ValueError:
            return "refused"
        return "ok" if a.value_receiver is b else "EXC:not-coupled"

    return _guarded(go)


RAW_VIAS = ("oc", "ic", "ri", "ro")


def _gate_raw(via, hs, hr, ss, sr):
    """the acceptance gate on bare channels: `hs`/`hr` real hints of the sending / receiving channel (None = no
    hint), `ss`/`sr` their strict_hints, `via` who asks"""
    from pyiron_workflow.channels import ChannelConnectionError, InputData, OutputData

    if via in ("oc", "ic"):
        s = OutputData("s", _Owner(), type_hint=hs, strict_hints=bool(ss))
        r = InputData("r", _Owner(), type_hint=hr, strict_hints=bool(sr))
    else:
        cls = InputData if via == "ri" else OutputData
        s = cls("s", _Owner(), type_hint=hs, strict_hints=bool(ss))
        r = cls("r", _Owner(), type_hint=hr, strict_hints=bool(sr))

    def linked():
        if via in ("oc", "ic"):
            a, b = r in s.connections, s in r.connections
            return "half" if a != b else a
        return s.value_receiver is r

    def go():
        try:
            if via == "oc":
                s.connect(r)
            elif via == "ic":
                r.connect(s)
            else:
                s.value_receiver = r
        except ChannelConnectionError:
            return "refused"
        except ValueError:
            return "refused" if via in ("ri", "ro") else "EXC:ValueError"
        return "ok" if linked() is True else "EXC:not-linked"

    res = _guarded(go)
    if res != "ok" and linked() is not False:
        res = str(res) + "+dangling"
    return res


def _gate_matrix(H, O):
    """every (initiator, sender flag, receiver flag) for the both-hinted pair + the three other hint presences"""
    rows = []
    for via in RAW_VIAS:
        for ss in (0, 1):
            for sr in (0, 1):
                rows.append([via, 1, 1, ss, sr])
    for via in RAW_VIAS:
        for ph, po in ((0, 1), (1, 0), (0, 0)):
            rows.append([via, ph, po, 1, 1])
    for row in rows:
        via, ph, po, ss, sr = row
        row.append(_gate_raw(via, H if ph else None, O if po else None, ss, sr))
    return rows


def run_impl(case):
    if case["kind"] == "gate":
        return run_gate(case)
    if case["kind"] == "exotic":
        return run_exotic(case)
    if case["kind"] == "chain":
        return run_chain(case)
    if case["kind"] == "malformed":
        return {"obs": ["bad-op"] * len(case["lines"]), "stats": {"malformed": 1}, "skip": False, "variant": variant()}
    try:
        sp = case.get("sp", [0, 0])
        H, O = build(case["h"], sp[0]), build(case["o"], sp[1])
        th, to = abstract(H), abstract(O)
    except (Unsupported, TypeError) as e:
        return {"obs": [], "skip": True, "why": repr(e), "stats": {"skipped-unbuildable": 1}}
    if _annotated_any(th) or _annotated_any(to):
        # typing collapses e.g. Union[Any, Any] to Any; valid_value raises for Annotated[Any, m] (KF-C04-7, exotic cases)
        return {"obs": [], "skip": True, "why": "Annotated[Any]", "stats": {"skipped-annotated-any": 1}}
    strict = case.get("strict", 1)
    vals = []
    seen = set()
    for v in list(case.get("vals", [])) + pool(th) + pool(to) + GLOBAL_POOL[:3]:
        try:
            real = build_val(v)
            av = abstract_val(real)
        except (Unsupported, TypeError, KeyError):
            continue
        if repr(av) in seen:
            continue
        seen.add(repr(av))
        vals.append((av, real))
    vals = vals[:22 + len(case.get("vals", []))]
    r_ho, r_hh, r_oo = _cmp(H, O), _cmp(H, H), _cmp(O, O)
    conn = _connect(H, O, strict, flip=False)
    conn2 = _connect(H, O, 1, flip=True)
    conn_u = _connect(None, O, 1, flip=False)
    recv = _receiver(H, O, strict)
    matrix = _gate_matrix(H, O)
    adm = []
    for av, real in vals:
        adm.append({"v": av, "h": _vv(real, H), "o": _vv(real, O), "tg_o": _tg_only(real, O)})
    obs = [f"cmp {r_ho}", f"cmp {r_hh}", f"cmp {r_oo}", f"conn {conn}", f"conn {conn2}", f"conn {conn_u}",
           f"recv {recv}"]
    obs += [f"gate {row[5]}" for row in matrix]
    for a in adm:
        obs.append(f"adm {a['h']}")
        obs.append(f"adm {a['o']}")
    stats = {f"cmp:{r_ho}": 1, f"refl:{r_hh}": 1, f"mode:{case.get('mode')}": 1, f"conn:{conn}": 1,
             "variant:" + "".join(map(str, variant())): 1,
             "admitted-by-output": sum(a["h"] == "T" for a in adm), "witnesses": len(adm),
             f"kind:{th[0]}>{to[0]}": 1, f"depth:{max(depth(th), depth(to))}": 1,
             f"spelling:{''.join(map(str, case.get('sp', [0, 0])))}": 1}
    if r_ho == "T":
        stats["accepted-with-admitted-witness"] = int(any(a["h"] == "T" for a in adm))
    for row in matrix:
        if row[1] and row[2]:
            stats[f"gate:{row[0]}:s{row[3]}r{row[4]}:{row[5]}"] = 1
    return {"obs": obs, "skip": False, "th": th, "to": to, "strict": strict, "cmp": [r_ho, r_hh, r_oo],
            "conn": [conn, conn2, conn_u], "recv": recv, "matrix": matrix, "adm": adm, "stats": stats,
            "variant": variant()}


def nontrivial(case, r):
    if r.get("skip"):
        return False
    if case["kind"] == "exotic":
        return r["cmp"][0] in ("T", "F")
    if case["kind"] == "chain":
        return r["link"] in ("ok", "refused") and r["th"] is not None and r["rct"][0] is not None and len(r["rct"]) > 1
    if case["kind"] == "gate":
        return r["link"] in ("ok", "refused", "receiver-rejects") and r["th"] is not None and r["to"] is not None
    return case["kind"] == "pair" and r["cmp"][0] in ("T", "F") and (r["th"][0] != "c" or r["to"][0] != "c")


# ----------------------------------------------------------------------------- gate cases: REAL nodes, API paths

# via -> (mechanism of the model, kind); the SENDER is the output / the channel whose value_receiver is set
GATE_VIAS = {
    "oc": "oc",       # a.outputs.y.connect(b.inputs.x)
    "ic": "ic",       # b.inputs.x.connect(a.outputs.y)
    "io": "ic",       # b.inputs.x = a.outputs.y            (IO panel assignment)
    "ion": "ic",      # b.inputs.x = a                      (a node standing for its single output)
    "kw": "ic",       # b.set_input_values(x=a.outputs.y)   (what node(...) / node.run(...) keywords do)
    "run": "ic",      # b.run(x=a.outputs.y) / b(x=...)     (call keyword; whether the run itself then succeeds is not observed)
    "ctor": "ic",     # B(x=a.outputs.y)                    (constructor keyword)
    "cc_in": "ic",    # b.inputs.x.copy_connections(p.inputs.x), p an unhinted sibling connected to a
    "cc_out": "oc",   # a.outputs.y.copy_connections(p.outputs.y), p an unhinted sibling connected to b
    "rep_r": "ic",    # wf.replace_child(p, b): the replacement's input re-makes p's connection to a
    "rep_s": "oc",    # wf.replace_child(p, a): the replacement's output re-makes p's connection to b
    "ri": "ri",       # a.inputs.x.value_receiver = b.inputs.x
    "ro": "ro",       # a.outputs.y.value_receiver = b.outputs.y
    "mi": "ri",       # macro construction: macro input -> child input
    "mo": "ro",       # macro construction: child output -> macro output
    "rep_mi": "ri",   # macro.replace_child(p, b): macro input re-linked to the replacement's input
    "rep_mo": "ro",   # macro.replace_child(p, a): the replacement's output re-linked to the macro output
}
REPEATABLE = ("oc", "ic", "io", "ion", "kw", "ri", "ro")
IN_WORKFLOW = ("oc", "ic", "io", "ion", "kw", "run", "ri", "ro", "cc_in", "cc_out")
LAX_HOW = ("chan", "node", "panel", "parent")
_CNT = [0]


def _annotate(f, name, hin, hout):
    f.__name__ = f.__qualname__ = name
    f.__module__ = __name__
    ann = {}
    if hin is not None:
        ann["x"] = hin
    if hout is not None:
        ann["return"] = hout
    f.__annotations__ = ann
    return f


def _mk_fn(hin, hout):
    """a function node class x -> y carrying the given real hints (None = unhinted)"""
    from pyiron_workflow.nodes.function import as_function_node

    _CNT[0] += 1

    def f(x):
        y = x
        return y

    return as_function_node("y", validate_output_labels=False)(_annotate(f, f"C04F{_CNT[0]}", hin, hout))


def _mk_macro(hin, hout, child_cls, setup):
    """a macro class x -> child -> y; `setup(macro)` runs inside the graph creator after the child exists"""
    from pyiron_workflow.nodes.macro import as_macro_node

    _CNT[0] += 1

    def m(self, x):
        self.child = child_cls()
        setup(self)
        self.child.inputs.x = x
        return self.child.outputs.y

    return as_macro_node("y", validate_output_labels=False)(_annotate(m, f"C04M{_CNT[0]}", hin, hout))


def _set_strict(ch, b, how):
    """switch strict_hints of one channel through the channel, its node, its IO panel"""
    from pyiron_workflow.nodes.composite import Composite

    owner = ch.owner
    if how == "node" and not isinstance(owner, Composite):
        (owner.activate_strict_hints if b else owner.deactivate_strict_hints)()
    elif how in ("panel", "node"):
        panel = owner.inputs if any(c is ch for c in owner.inputs) else owner.outputs
        (panel.activate_strict_hints if b else panel.deactivate_strict_hints)()
    else:
        (ch.activate_strict_hints if b else ch.deactivate_strict_hints)()


def _exc_outcome(e, value_link):
    from pyiron_workflow.channels import ChannelConnectionError

    chain, x = [], e
    while x is not None and len(chain) < 6:
        chain.append(x)
        x = x.__cause__
    if any(isinstance(x, RecursionError) for x in chain):
        return "REC"
    if any(isinstance(x, ChannelConnectionError) for x in chain):
        return "refused"
    if value_link and isinstance(e, TypeError):
        return "receiver-rejects"
    if value_link and type(e) is ValueError:
        return "refused"
    return f"EXC:{type(e).__name__}"


class _Scene:
    """the two channels of a gate case on real nodes"""

    def __init__(self, case, H, O):
        from pyiron_workflow import Workflow

        self.case, self.H, self.O = case, H, O
        self.via = case["via"]
        self.mech = GATE_VIAS[self.via]
        self.value_link = self.mech in ("ri", "ro")
        self.how = case.get("lax", "chan")
        self.wf = Workflow("w", autoload=None)
        self.Snd, self.Rcv, self.Plain = _mk_fn(H, H), _mk_fn(O, O), _mk_fn(None, None)
        self.s = self.r = None
        self.obs = []

    # -- flags and the sender's value before the link exists
    def _prepare(self, s, r, ss, sr, pre):
        how = self.how
        if how == "parent":
            if self.via in IN_WORKFLOW and (not ss or not sr):
                self.wf.deactivate_strict_hints()
                for ch, b in ((s, ss), (r, sr)):
                    if b and ch is not None:
                        ch.owner.activate_strict_hints()
                s_done = r_done = True
            else:
                how, s_done, r_done = "node", False, False
        else:
            s_done = r_done = False
        if s is not None and not ss and not s_done:
            _set_strict(s, False, how)
        if r is not None and not sr and not r_done:
            _set_strict(r, False, how)
        for ch, b in ((s, ss), (r, sr)):
            if ch is not None and bool(ch.strict_hints) != bool(b):
                raise HarnessBug(f"could not set strict_hints={b} via {how}")
        if pre is not None and s is not None:  # pre = (term, real value); the real value may be None
            self.obs.append("setval " + self._setval(s, pre[1]))

    @staticmethod
    def _setval(ch, v):
        try:
            ch.value = v
        except TypeError:
            return "rejected"
        except Exception as e:  # noqa: BLE001
            return f"EXC:{type(e).__name__}"
        return "ok"

    def linked(self):
        s, r = self.s, self.r
        if s is None or r is None:
            return False
        if self.value_link:
            return s.value_receiver is r
        a, b = any(c is r for c in s.connections), any(c is s for c in r.connections)
        return "half" if a != b else a

    # -- the link attempt
    def link(self, ss, sr, pre):
        via, wf = self.via, self.wf
        act = None
        if via in ("oc", "ic", "io", "ion", "kw", "run", "cc_in", "cc_out", "ri", "ro"):
            wf.a, wf.b = self.Snd(), self.Rcv()
            if via in ("ri",):
                self.s, self.r = wf.a.inputs.x, wf.b.inputs.x
            elif via == "ro":
                self.s, self.r = wf.a.outputs.y, wf.b.outputs.y
            else:
                self.s, self.r = wf.a.outputs.y, wf.b.inputs.x
            if via == "cc_in":
                wf.p = self.Plain()
                wf.p.inputs.x.connect(self.s)
            elif via == "cc_out":
                wf.p = self.Plain()
                self.r.connect(wf.p.outputs.y)
            self._prepare(self.s, self.r, ss, sr, pre)
            s, r = self.s, self.r

            def act_run():
                try:
                    wf.b.run(x=s)
                except RecursionError:
                    raise
                except Exception:  # noqa: BLE001
                    if self.linked() is not True:
                        raise  # refused before anything ran; otherwise the link exists and the run is not our business

            act = {
                "run": act_run,
                "oc": lambda: s.connect(r),
                "ic": lambda: r.connect(s),
                "io": lambda: setattr(wf.b.inputs, "x", s),
                "ion": lambda: setattr(wf.b.inputs, "x", wf.a),
                "kw": lambda: wf.b.set_input_values(x=s),
                "cc_in": lambda: r.copy_connections(wf.p.inputs.x),
                "cc_out": lambda: s.copy_connections(wf.p.outputs.y),
                "ri": lambda: setattr(s, "value_receiver", r),
                "ro": lambda: setattr(s, "value_receiver", r),
            }[via]
        elif via == "ctor":
            wf.a = self.Snd()
            self.s = wf.a.outputs.y
            self._prepare(self.s, None, ss, 1, pre)

            def act():
                wf.b = self.Rcv(x=self.s)
                self.r = wf.b.inputs.x
        elif via == "rep_r":
            wf.a, wf.p = self.Snd(), self.Plain()
            wf.p.inputs.x.connect(wf.a.outputs.y)
            b = self.Rcv()
            self.s, self.r = wf.a.outputs.y, b.inputs.x
            self._prepare(self.s, self.r, ss, sr, pre)
            act = lambda: wf.replace_child(wf.p, b)  # noqa: E731
        elif via == "rep_s":
            wf.p, wf.b = self.Plain(), self.Rcv()
            wf.b.inputs.x.connect(wf.p.outputs.y)
            a = self.Snd()
            self.s, self.r = a.outputs.y, wf.b.inputs.x
            self._prepare(self.s, self.r, ss, sr, pre)
            act = lambda: wf.replace_child(wf.p, a)  # noqa: E731
        elif via in ("mi", "mo"):
            def setup(macro):
                if via == "mi":
                    self.s, self.r = macro.inputs.x, macro.child.inputs.x
                else:
                    self.s, self.r = macro.child.outputs.y, macro.outputs.y
                self._prepare(self.s, self.r, ss, sr, pre)

            M = _mk_macro(self.H if via == "mi" else None, self.O if via == "mo" else None,
                          self.Rcv if via == "mi" else self.Snd, setup)

            def act():
                self.s = self.r = None
                wf.m = M()
        elif via in ("rep_mi", "rep_mo"):
            M = _mk_macro(self.H if via == "rep_mi" else None, self.O if via == "rep_mo" else None, self.Plain,
                          lambda macro: None)
            wf.m = M()
            new = self.Rcv() if via == "rep_mi" else self.Snd()
            if via == "rep_mi":
                self.s, self.r = wf.m.inputs.x, new.inputs.x
            else:
                self.s, self.r = new.outputs.y, wf.m.outputs.y
            self._prepare(self.s, self.r, ss, sr, pre)
            act = lambda: wf.m.replace_child(wf.m.child, new)  # noqa: E731
        else:
            raise Unsupported(via)
        self._act = act
        return self._attempt()

    def _attempt(self):
        def go():
            try:
                self._act()
            except Exception as e:  # noqa: BLE001
                return _exc_outcome(e, self.value_link)
            return "ok"

        res = _guarded(go, margin=500)
        st = self.linked()
        if res == "ok" and st is not True:
            res = "EXC:not-linked"
        elif res != "ok" and st is not False and not self._was_linked:
            res = str(res) + "+dangling"
        return res

    _was_linked = False

    def relink(self):
        self._was_linked = self.linked() is True
        try:
            return self._attempt()
        finally:
            self._was_linked = False

    def push(self, v):
        if self.linked() is not True:
            return "no-link"
        s, r = self.s, self.r
        try:
            s.value = v
        except TypeError as e:
            # who refused is decided from the channels' public state, never from the wording of the message:
            # the sender checks its own hint first (strict ∧ hinted ∧ data ∧ not valid_value)
            from pyiron_workflow.channels import NOT_DATA
            from pyiron_workflow.type_hinting import valid_value

            mine = bool(s.strict_hints and s.type_hint is not None and v is not NOT_DATA
                        and not valid_value(v, s.type_hint))
            return "sender-rejects" if (mine or not self.value_link) else "receiver-rejects"
        except Exception as e:  # noqa: BLE001
            return f"EXC:{type(e).__name__}"
        if not self.value_link:
            try:
                r.fetch()
            except TypeError:
                return "receiver-rejects"
            except Exception as e:  # noqa: BLE001
                return f"EXC:{type(e).__name__}"
        try:
            same = r.value is v or r.value == v
        except Exception:  # noqa: BLE001
            same = True
        return "ok" if same else "EXC:value-not-delivered"

    def links_line(self):
        st = self.linked()
        if st is True:
            return f"links {self.mech}:0>1"
        return "links" if st is False else "links EXC:half-connection"


def _guarded_build(t):
    return None if t is None else build(t)


def run_gate(case):
    try:
        H, O = _guarded_build(case.get("h")), _guarded_build(case.get("o"))
        th = None if H is None else abstract(H)
        to = None if O is None else abstract(O)
    except (Unsupported, TypeError) as e:
        return {"obs": [], "skip": True, "why": repr(e), "stats": {"skipped-unbuildable": 1}}
    if (th and _annotated_any(th)) or (to and _annotated_any(to)):
        return {"obs": [], "skip": True, "why": "Annotated[Any]", "stats": {"skipped-annotated-any": 1}}
    via = case["via"]
    ss, sr = int(case.get("ss", 1)), int(case.get("sr", 1))
    if via == "ctor":
        sr = 1  # a node is born strict
    # witness values: (model term, real value); sets keep their real iteration order
    vals, seen = [], set()

    def real_of(v):
        try:
            real = build_val(v)
            return abstract_val(real), real
        except (Unsupported, TypeError, KeyError):
            return None

    for v in list(case.get("vals", [])) + (pool(th) if th else []) + (pool(to) if to else []) + GLOBAL_POOL[:3]:
        rv = real_of(v)
        if rv is not None and repr(rv[0]) not in seen:
            seen.add(repr(rv[0]))
            vals.append(rv)
    vals = vals[:16 + len(case.get("vals", []))]
    pre = real_of(case["pre"]) if case.get("pre") is not None else None
    if pre is not None and via in ("mi",) and H is not None and _vv(pre[1], H) != "T":
        pre = None  # the macro's hidden UserInput hop (same hint, strict) would refuse it first
    sc = _Scene(case, H, O)
    trace = []  # structured twin of obs for the oracle
    try:
        link = sc.link(ss, sr, pre)
    except (HarnessBug, Unsupported):
        raise
    except Exception as e:  # noqa: BLE001  the scenery itself (an unhinted sibling, a macro with h -> h links) was refused
        link = "EXC:setup:" + _exc_outcome(e, False).replace("EXC:", "")
    pre_res = sc.obs[0].split(" ", 1)[1] if sc.obs else None
    obs = list(sc.obs) + [f"link {link}", sc.links_line()]
    flags = {"s": ss, "r": sr}
    trace.append({"op": "link", "res": link, "ss": ss, "sr": sr, "linked": sc.linked()})
    post_eff = []
    for op in case.get("post", []):
        if op[0] == "strict":
            side, b = op[1], int(op[2])
            ch = sc.s if side == "s" else sc.r
            if ch is None:
                continue
            how = op[3] if len(op) > 3 else "chan"
            if how == "parent":
                how = "node"
            if how == "node" and sc.s is not None and sc.r is not None and sc.s.owner is sc.r.owner:
                how = "chan"
            _set_strict(ch, bool(b), how)
            other = sc.r if side == "s" else sc.s
            if other is not None and bool(other.strict_hints) != bool(flags["r" if side == "s" else "s"]):
                other.strict_hints = bool(flags["r" if side == "s" else "s"])  # node-level switch hit both: undo
            flags[side] = b
            post_eff.append(["strict", side, b])
            trace.append({"op": "strict", "side": side, "b": b})
        elif op[0] == "push":
            rv = real_of(op[1])
            if rv is None:
                continue
            res = sc.push(rv[1])
            obs.append(f"push {res}")
            post_eff.append(["push", rv[0]])
            trace.append({"op": "push", "v": rv[0], "res": res, "h": None if H is None else _vv(rv[1], H),
                          "o": None if O is None else _vv(rv[1], O), "ss": flags["s"], "sr": flags["r"]})
        elif op[0] == "relink" and via in REPEATABLE:
            res = sc.relink()
            obs.append(f"link {res}")
            post_eff.append(["relink"])
            trace.append({"op": "link", "res": res, "ss": flags["s"], "sr": flags["r"], "linked": sc.linked(),
                          "again": True})
    obs.append(sc.links_line())
    adm = []
    for av, real in vals:
        a = {"v": av, "h": None if H is None else _vv(real, H), "o": None if O is None else _vv(real, O),
             "tg_o": None if O is None else _tg_only(real, O)}
        adm.append(a)
        if a["h"] is not None:
            obs.append(f"adm {a['h']}")
        if a["o"] is not None:
            obs.append(f"adm {a['o']}")
    pre_adm = None
    if pre is not None:
        pre_adm = {"v": pre[0], "h": None if H is None else _vv(pre[1], H), "o": None if O is None else _vv(pre[1], O),
                   "tg_o": None if O is None else _tg_only(pre[1], O)}
    stats = {f"gate-via:{via}": 1, f"gate-flags:s{ss}r{sr}": 1, f"gate-hinted:{int(H is not None)}{int(O is not None)}": 1,
             f"gate-link:{link}": 1, f"gate-lax:{case.get('lax', 'chan')}": 1, "mode:gate": 1,
             "variant:" + "".join(map(str, variant())): 1, "gate-post-ops": len(post_eff),
             "gate-with-pre-value": int(pre is not None)}
    if H is not None and O is not None and sr and link == "ok":
        stats[f"gate-accepted-by-strict-receiver:sender-strict={ss}"] = 1
    if H is not None and O is not None and sr and link == "refused":
        stats[f"gate-refused-by-strict-receiver:sender-strict={ss}"] = 1
    for t in trace:
        if t["op"] == "push":
            stats[f"gate-push:{t['res']}"] = stats.get(f"gate-push:{t['res']}", 0) + 1
    return {"obs": obs, "skip": False, "th": th, "to": to, "ss": ss, "sr": sr, "via": via, "mech": GATE_VIAS[via],
            "pre": None if pre is None else pre[0], "pre_res": pre_res, "pre_adm": pre_adm, "link": link,
            "post": post_eff, "trace": trace, "adm": adm, "stats": stats, "variant": variant()}


def _replace_validates_first():
    from pyiron_workflow.channels import DataChannel

    return hasattr(DataChannel, "_ensure_valid_value_receiver")


def gate_model_input(case, impl):
    th, to = impl["th"], impl["to"]
    h = " ".join(tok(th)) if th else "-"
    o = " ".join(tok(to)) if to else "-"
    mech = impl["mech"]
    lines = ["cfg " + " ".join(map(str, impl["variant"])), f"chan 0 {h} 1", f"chan 1 {o} 1"]
    if not impl["ss"]:
        lines.append("strict 0 0")
    if not impl["sr"]:
        lines.append("strict 1 0")
    if impl["pre"] is not None:
        lines.append("setval 0 " + " ".join(tok_val(impl["pre"])))
    # replace_child re-forges the value links of the replaced child: in the current tree the pair is validated
    # up front and a value the receiver does not take is simply not pushed (observed on the tree, not assumed)
    soft = case.get("via") in ("rep_mi", "rep_mo") and _replace_validates_first()
    lines += [f"{'relink' if soft else 'link'} {mech} 0 1", "links"]
    for op in impl["post"]:
        if op[0] == "strict":
            lines.append(f"strict {0 if op[1] == 's' else 1} {op[2]}")
        elif op[0] == "push":
            lines.append(f"push {mech} 0 1 " + " ".join(tok_val(op[1])))
        elif op[0] == "relink":
            lines.append(f"link {mech} 0 1")
    lines.append("links")
    for a in impl["adm"]:
        v = " ".join(tok_val(a["v"]))
        if th:
            lines.append(f"adm {h} {v}")
        if to:
            lines.append(f"adm {o} {v}")
    return lines


def gate_oracle(case, r):
    """C04 on a history: whenever a link between two hinted channels is accepted while the RECEIVING side checks
    its hints, every value the sending hint admits is admitted by the receiving hint -- whoever asked for the link,
    through whichever API, whatever the sender's flag, whatever is toggled afterwards"""
    th, to = r["th"], r["to"]
    fails = []
    both = th is not None and to is not None
    restricted = _restricted(th, to) if both else True

    def fail(clause, detail, **sig):
        fails.append({"clause": clause, "detail": f"{detail}  [via={r['via']} out={th} inp={to} case={case}]",
                      "signature": {"clause": clause, "trigger": "gate", "via": r["via"], "restricted": restricted, **sig}})

    wit = _unsound_witness([a for a in r["adm"] if a["h"] is not None and a["o"] is not None], th, to) if both else None
    accepted_strict = False  # is there a link that a strict receiver accepted
    for t in r["trace"]:
        res = t.get("res")
        if t["op"] in ("link", "push") and (str(res).startswith("EXC") or str(res).endswith("+dangling")):
            fail("crash", f"{t['op']} gave {res}", where=t["op"])
            return fails
        if t["op"] == "link":
            if res == "REC":
                fail("total", "the comparison did not come back while linking", exc="REC",
                     old_union=any(s[0] == "uo" for x in (th, to) if x for s in subterms(x)))
                return fails
            if t.get("again") and accepted_strict and res == "ok":
                continue
            if t.get("again") and t["linked"] is True and r["mech"] in ("oc", "ic") and not accepted_strict:
                continue  # connect() on an existing connection is a no-op, nothing is accepted anew
            if res == "ok":
                accepted_strict = bool(both and t["sr"])
                if accepted_strict and wit is not None:
                    fail("unsound", f"link accepted (sender strict={t['ss']}, receiver strict={t['sr']}) although witness "
                                    f"{wit[0]['v']} is admitted by the sending hint and rejected by the receiving hint",
                         cause=wit[1], sender_strict=t["ss"])
                    return fails
            elif res == "receiver-rejects" and both and t["sr"]:
                # the hint gate said yes, then the receiver refused the sender's current value
                pa = r.get("pre_adm")
                if pa and pa["h"] == "T":
                    cause = (_unsound_witness([pa], th, to) or (None, "other"))[1]
                    fail("unsound", f"value link passed the hint comparison (sender strict={t['ss']}), then the receiver "
                                    f"refused the sender's value {pa['v']} which the sending hint admits",
                         cause=cause, sender_strict=t["ss"], stage="link-push")
                    return fails
        elif t["op"] == "push":
            if res == "receiver-rejects" and accepted_strict and t["h"] == "T":
                cause = (_unsound_witness([{**t, "tg_o": None}], th, to) or (None, "other"))[1]
                if wit is not None:
                    cause = wit[1]
                fail("unsound", f"a link accepted by a strict receiver refuses value {t['v']} that the sending hint admits",
                     cause=cause, stage="push")
                return fails
    for a in r["adm"]:
        if a["h"] not in (None, "T", "F") or a["o"] not in (None, "T", "F"):
            fail("crash", f"valid_value raised on witness {a['v']}: {a['h']} / {a['o']}", where="valid_value")
            break
    return fails


# ----------------------------------------------------------------------------- chain cases: targets that forward their data

CHAIN_VIAS = {"oc": "oc", "ic": "ic", "io": "ic", "ion": "ic", "kw": "ic", "ri": "ri", "ro": "ro"}


def _mk_nested(hints):
    """Outer(x: hints[0]) -> ... -> leaf function node (x: hints[-1]): one macro per level above the leaf"""
    from pyiron_workflow.nodes.macro import as_macro_node

    inner = _mk_fn(hints[-1], None)
    def level(child_cls, h):
        _CNT[0] += 1

        def m(self, x):
            self.child = child_cls()
            self.child.inputs.x = x
            return self.child.outputs.y

        return as_macro_node("y", validate_output_labels=False)(_annotate(m, f"C04N{_CNT[0]}", h, None))

    for h in reversed(hints[:-1]):
        inner = level(inner, h)
    return inner


def run_chain(case):
    from pyiron_workflow import Workflow

    via = case["via"]
    mech = CHAIN_VIAS[via]
    value_link = mech in ("ri", "ro")
    out_chain = mech == "ro"  # the receiving chain consists of outputs
    try:
        H = _guarded_build(case.get("h"))
        th = None if H is None else abstract(H)
        rcH = [_guarded_build(t) for t, _ in case["rc"]]
        rct = [None if x is None else abstract(x) for x in rcH]
        scH = [_guarded_build(t) for t, _ in case.get("sc", [])]
        sct = [None if x is None else abstract(x) for x in scH]
    except (Unsupported, TypeError) as e:
        return {"obs": [], "skip": True, "why": repr(e), "stats": {"skipped-unbuildable": 1}}
    if any(t and _annotated_any(t) for t in [th] + rct + sct):
        return {"obs": [], "skip": True, "why": "Annotated[Any]", "stats": {"skipped-annotated-any": 1}}
    macro = case.get("build") == "macro" and not out_chain and len(rcH) >= 2
    wf = Workflow("w", autoload=None)
    obs, trace = [], []
    # --- channels: 0 = sender, 1.. = the receiving chain, then the channels the sender forwards to
    wf.a = _mk_fn(H, H)()
    s = wf.a.inputs.x if mech == "ri" else wf.a.outputs.y
    flags0 = [1 if macro else int(f) for _, f in case["rc"]]  # flags while the chain is forged (a macro is born strict)
    if macro:
        try:
            wf.outer = _mk_nested(rcH)()
        except Exception as e:  # noqa: BLE001  the nested macro refused its own links: not the subject here
            return {"obs": [], "skip": True, "why": _exc_outcome(e, True), "stats": {"chain-macro-refused": 1}}
        chain, node = [], wf.outer
        for _ in rcH:
            chain.append(node.inputs.x)
            node = getattr(node, "child", None)
        target_owner = wf.outer
    else:
        nodes = []
        for i, hx in enumerate(rcH):
            n = _mk_fn(hx, hx)()
            setattr(wf, f"b{i}", n)
            nodes.append(n)
        chain = [n.outputs.y if out_chain else n.inputs.x for n in nodes]
        for ch, f in zip(chain, flags0):
            ch.strict_hints = bool(f)
        target_owner = nodes[0]
    schain = []
    for i, (hx, (_, f)) in enumerate(zip(scH, case.get("sc", []))):
        n = _mk_fn(hx, hx)()
        setattr(wf, f"d{i}", n)
        n.outputs.y.strict_hints = bool(f)
        schain.append(n.outputs.y)
    s.strict_hints = bool(case.get("ss", 1))
    forged = []  # (mech, from, to, sender channel, receiver channel) in forging order

    def forge(frm, to, a, b, m):
        if macro and m == "ri" and frm >= 1:
            res = "ok" if a.value_receiver is b else "EXC:chain-shape"
        else:
            def go():
                try:
                    a.value_receiver = b
                except Exception as e:  # noqa: BLE001
                    return _exc_outcome(e, True)
                return "ok" if a.value_receiver is b else "EXC:not-linked"
            res = _guarded(go, margin=500)
        obs.append(f"link {res}")
        trace.append({"op": "forge", "from": frm, "to": to, "res": res, "sr": int(bool(b.strict_hints))})
        if res == "ok":
            forged.append((m, frm, to, a, b))
        return res == "ok"

    ok = True
    cm = "ro" if out_chain else "ri"
    for i in range(len(chain) - 1):
        ok = ok and forge(i + 1, i + 2, chain[i], chain[i + 1], cm)
        if not ok:
            break
    base = 1 + len(chain)
    prev, prev_i = s, 0
    if ok and not value_link:
        for i, ch in enumerate(schain):
            ok = ok and forge(prev_i, base + i, prev, ch, "ro")
            if not ok:
                break
            prev, prev_i = ch, base + i
    late = []
    if ok:
        for idx, f in case.get("late", []):
            if 1 <= idx <= len(chain):
                chain[idx - 1].strict_hints = bool(f)
                late.append([idx, int(f)])
        if macro:  # the flags the case asks for can only be set now
            for i, (_, f) in enumerate(case["rc"]):
                if not f and [i + 1, 0] not in late and all(x[0] != i + 1 for x in late):
                    chain[i].strict_hints = False
                    late.append([i + 1, 0])
    r = chain[0]
    link = None
    pushes = []
    if ok:
        act = {
            "oc": lambda: s.connect(r), "ic": lambda: r.connect(s),
            "io": lambda: setattr(target_owner.inputs, "x", s), "ion": lambda: setattr(target_owner.inputs, "x", wf.a),
            "kw": lambda: target_owner.set_input_values(x=s),
            "ri": lambda: setattr(s, "value_receiver", r), "ro": lambda: setattr(s, "value_receiver", r),
        }[via]

        def linked():
            if value_link:
                return s.value_receiver is r
            a, b = any(c is r for c in s.connections), any(c is s for c in r.connections)
            return "half" if a != b else a

        def go():
            try:
                act()
            except Exception as e:  # noqa: BLE001
                return _exc_outcome(e, value_link)
            return "ok"

        link = _guarded(go, margin=500)
        st = linked()
        if link == "ok" and st is not True:
            link = "EXC:not-linked"
        elif link != "ok" and st is not False:
            link = str(link) + "+dangling"
        obs.append(f"link {link}")
        sr_now = int(bool(r.strict_hints))
        trace.append({"op": "link", "res": link, "ss": int(bool(s.strict_hints)), "sr": sr_now})
        if link == "ok":
            forged.append((mech, 0, 1, s, r))
            for v in case.get("vals", []):
                try:
                    real = build_val(v)
                    av = abstract_val(real)
                except (Unsupported, TypeError, KeyError):
                    continue
                from pyiron_workflow.channels import NOT_DATA
                from pyiron_workflow.type_hinting import valid_value

                res = "ok"
                try:
                    s.value = real
                except TypeError:
                    mine = bool(s.strict_hints and s.type_hint is not None and real is not NOT_DATA
                                and not valid_value(real, s.type_hint))
                    res = "sender-rejects" if (mine or not value_link) else "receiver-rejects"
                except Exception as e:  # noqa: BLE001
                    res = f"EXC:{type(e).__name__}"
                if res == "ok" and not value_link:
                    try:
                        r.fetch()
                    except TypeError:
                        res = "receiver-rejects"
                    except Exception as e:  # noqa: BLE001
                        res = f"EXC:{type(e).__name__}"
                obs.append(f"push {res}")
                pushes.append({"v": av, "res": res, "h": None if H is None else _vv(real, H),
                               "o": None if rcH[0] is None else _vv(real, rcH[0]),
                               "own": bool(r.strict_hints and r.type_hint is not None and not valid_value(real, r.type_hint))})
    # links as they are, newest first
    alive = []
    for m, frm, to, a, b in forged:
        if m in ("ri", "ro"):
            if a.value_receiver is b:
                alive.append(f"{m}:{frm}>{to}")
        elif any(c is b for c in a.connections) and any(c is a for c in b.connections):
            alive.append(f"{m}:{frm}>{to}")
    obs.append(" ".join(["links"] + alive[::-1]))
    # witnesses for the oracle and for the correspondence of valid_value on every hint involved
    vals, seen = [], set()
    for v in list(case.get("vals", [])) + (pool(th) if th else []) + (pool(rct[0]) if rct[0] else []) + GLOBAL_POOL[:3]:
        try:
            real = build_val(v)
            av = abstract_val(real)
        except (Unsupported, TypeError, KeyError):
            continue
        if repr(av) not in seen:
            seen.add(repr(av))
            vals.append((av, real))
    vals = vals[:14]
    hints = [(0, th, H)] + [(i + 1, t, x) for i, (t, x) in enumerate(zip(rct, rcH))]
    adm = []
    for av, real in vals:
        row = {"v": av, "h": None if H is None else _vv(real, H), "o": None if rcH[0] is None else _vv(real, rcH[0]),
               "tg_o": None if rcH[0] is None else _tg_only(real, rcH[0]), "all": []}
        for _, t, x in hints:
            if x is not None:
                a = _vv(real, x)
                row["all"].append(a)
                obs.append(f"adm {a}")
        adm.append(row)
    depth_r = len(chain) - 1
    stats = {"mode:chain": 1, f"chain-via:{via}": 1, f"chain-depth:{depth_r}": 1, f"chain-sender-depth:{len(schain)}": 1,
             f"chain-build:{'macro' if macro else 'plain'}": 1, f"chain-link:{link}": 1,
             "variant:" + "".join(map(str, variant())): 1, "chain-pushes": len(pushes)}
    if link == "ok" and th is not None and rct[0] is not None and trace[-1]["sr"]:
        stats["chain-accepted-by-strict-head"] = 1
    return {"obs": obs, "skip": False, "th": th, "rct": rct, "sct": sct, "flags0": flags0, "late": late, "mech": mech,
            "cm": cm, "value_link": value_link, "forged_ok": ok, "link": link, "trace": trace, "pushes": pushes, "adm": adm,
            "stats": stats, "variant": variant(), "ss": int(bool(case.get("ss", 1))),
            "sflags": [int(f) for _, f in case.get("sc", [])]}


def chain_model_input(case, impl):
    def T(t):
        return " ".join(tok(t)) if t else "-"

    th, rct, sct = impl["th"], impl["rct"], impl["sct"]
    lines = ["cfg " + " ".join(map(str, impl["variant"])), f"chan 0 {T(th)} {impl['ss']}"]
    for i, (t, f) in enumerate(zip(rct, impl["flags0"])):
        lines.append(f"chan {i + 1} {T(t)} {f}")
    base = 1 + len(rct)
    for i, (t, f) in enumerate(zip(sct, impl["sflags"])):
        lines.append(f"chan {base + i} {T(t)} {f}")
    n_forge = sum(1 for t in impl["trace"] if t["op"] == "forge")
    k = 0
    for i in range(len(rct) - 1):
        if k < n_forge:
            lines.append(f"link {impl['cm']} {i + 1} {i + 2}")
            k += 1
    prev = 0
    for i in range(len(sct)):
        if k < n_forge:
            lines.append(f"link ro {prev} {base + i}")
            prev = base + i
            k += 1
    if impl["forged_ok"]:
        for idx, f in impl["late"]:
            lines.append(f"strict {idx} {f}")
        lines.append(f"link {impl['mech']} 0 1")
        for p in impl["pushes"]:
            lines.append(f"pushd {impl['mech']} 0 1 " + " ".join(tok_val(p["v"])))
    lines.append("links")
    for a in impl["adm"]:
        v = " ".join(tok_val(a["v"]))
        for t in [th] + rct:
            if t:
                lines.append(f"adm {T(t)} {v}")
    return lines


def chain_oracle(case, r):
    """C04 for a connection (or value link) whose target forwards its data: the guarantee is about the channel the
    link is MADE TO -- its hint, its flag -- whatever it forwards to further down"""
    th, to = r["th"], r["rct"][0]
    fails = []
    both = th is not None and to is not None
    restricted = _restricted(th, to) if both else True

    def fail(clause, detail, **sig):
        fails.append({"clause": clause, "detail": f"{detail}  [chain via={case['via']} out={th} chain={r['rct']} case={case}]",
                      "signature": {"clause": clause, "trigger": "chain", "via": case["via"], "restricted": restricted, **sig}})

    for t in r["trace"]:
        res = str(t["res"])
        if res.startswith("EXC") or res.endswith("+dangling"):
            fail("crash", f"{t['op']} gave {res}", where=t["op"])
            return fails
        if res == "REC":
            fail("total", "the comparison did not come back while linking", exc="REC", old_union=False)
            return fails
    for p in r["pushes"]:
        if str(p["res"]).startswith("EXC"):
            fail("crash", f"push gave {p['res']}", where="push")
            return fails
    wit = _unsound_witness([a for a in r["adm"] if a["h"] is not None and a["o"] is not None], th, to) if both else None
    main = r["trace"][-1] if r["trace"] and r["trace"][-1]["op"] == "link" else None
    if main and main["res"] == "ok" and both and main["sr"]:
        if wit is not None:
            fail("unsound", f"link accepted by the strict channel it is made to (hint {to}) although witness {wit[0]['v']} is "
                            f"admitted by the sending hint and rejected by that channel's hint", cause=wit[1],
                 sender_strict=main["ss"], depth=len(r["rct"]) - 1)
            return fails
        for p in r["pushes"]:
            if p["res"] == "receiver-rejects" and p["h"] == "T" and p["own"]:
                fail("unsound", f"the channel the link was made to refuses value {p['v']} that the sending hint admits",
                     cause=(_unsound_witness([{**p, "tg_o": None}], th, to) or (None, "other"))[1], stage="push")
                return fails
    for a in r["adm"]:
        if any(x not in ("T", "F") for x in a["all"]):
            fail("crash", f"valid_value raised on witness {a['v']}: {a['all']}", where="valid_value")
            break
    return fails


def gen_chain_cases(rng, tier):
    """connection targets that HAVE value receivers: 1-3 links below the channel the link is made to, hints narrowing or
    widening along the chain, the sender's hint in between; flags of every member, switched before or after the chain
    was forged; plain function nodes or really nested macros; the sender forwarding to 0-2 outputs of its own"""
    E1 = enum_depth1()
    n = 260 if tier == "quick" else 5000
    ladders = [[["c", "bool"], ["c", "int"], ["un", [["c", "int"], ["c", "float"]]], ["c", "object"]],
               [["c", "C"], ["c", "B"], ["c", "A"], ["c", "object"]],
               [["li", ["c", "bool"]], ["li", ["c", "int"]], ["c", "list"], ["c", "Sequence"]],
               [["lit", [["s", "a"]]], ["lit", [["s", "a"], ["s", "b"]]], ["c", "str"], ["c", "Sequence"]],
               [["tf", [["c", "bool"]]], ["tf", [["c", "int"]]], ["tv", ["c", "int"]], ["c", "tuple"]]]
    between = {0: [["c", "float"], ["c", "int"], ["un", [["c", "int"], ["c", "float"]]], ["c", "object"], ["c", "str"]],
               1: [["c", "A"], ["c", "B"], ["c", "object"], ["c", "D"]],
               2: [["li", ["c", "int"]], ["c", "list"], ["li", ["c", "str"]], ["c", "Sequence"]],
               3: [["c", "str"], ["lit", [["s", "b"]]], ["lit", [["s", "a"], ["s", "b"]]], ["c", "Sequence"]],
               4: [["tf", [["c", "int"]]], ["tv", ["c", "int"]], ["c", "tuple"], ["tf", [["c", "float"]]]]}
    for i in range(n):
        depth = rng.choice([1, 1, 2, 2, 3])
        k = rng.random()
        if k < 0.6:
            # a ladder: the chain widens downwards (every link legal), the sender lies somewhere on or between the rungs
            li = rng.randrange(len(ladders))
            lad = ladders[li]
            start = rng.randrange(0, len(lad) - 1)
            rc = [lad[min(start + j, len(lad) - 1)] for j in range(depth + 1)]
            h = rng.choice(between[li] + lad)
        elif k < 0.8:
            h = gen_hint(rng, rng.choice([0, 1]), True) if rng.random() < 0.7 else rng.choice(E1)
            rc = [generalise(rng, h, False) if rng.random() < 0.5 else (gen_hint(rng, 1, False))]
            for _ in range(depth):
                rc.append(generalise(rng, rc[-1], False))
        else:
            h = rng.choice(E1)
            rc = [rng.choice(E1) for _ in range(depth + 1)]  # arbitrary: needs lax members to be forged
        if h[0] == "N" or any(x[0] == "N" for x in rc):
            continue
        if rng.random() < 0.08:
            h = None
        rcf = []
        for j, t in enumerate(rc):
            lax = rng.random() < (0.12 if j == 0 else 0.3)
            rcf.append([None if (j > 0 and rng.random() < 0.1) else t, 0 if lax else 1])
        via = rng.choice(list(CHAIN_VIAS))
        sc = []
        if CHAIN_VIAS[via] in ("oc", "ic") and h is not None and rng.random() < 0.3:
            for _ in range(rng.choice([1, 1, 2])):
                if rng.random() < 0.45:  # a narrower / unrelated hint behind a member that has opted out
                    sc.append([rng.choice([rcf[0][0], rng.choice(E1)]), 0])
                else:
                    sc.append([generalise(rng, sc[-1][0] if sc else h, False), 0 if rng.random() < 0.2 else 1])
        late = [[rng.randrange(1, len(rcf) + 1), rng.choice([0, 1])] for _ in range(rng.choice([0, 0, 1, 2]))]
        cand = (_members(h, 3) if h else []) + _members(rcf[0][0], 2) + _members(rcf[-1][0] or ["c", "int"], 2)
        yield {"kind": "chain", "h": h, "ss": 0 if rng.random() < 0.3 else 1, "rc": rcf, "sc": sc, "via": via,
               "build": "macro" if rng.random() < 0.4 else "plain", "late": late,
               "vals": [rng.choice(cand) for _ in range(rng.choice([0, 1, 2, 3]))] if cand else [], "mode": "chain"}


# ----------------------------------------------------------------------------- exotic cases: hints beyond the model

_EXOTIC = None
EXOTIC_FAMILIES = {
    "seq": ["list", "List", "List[int]", "list[int]", "list[bool]", "Sequence", "Sequence[int]", "Sequence[bool]", "tSequence[int]",
            "MutableSequence[int]", "Iterable[int]", "Collection[int]", "Deque[int]", "list[T]", "list[Any]", "tuple[int,...]"],
    "map": ["dict", "Dict", "Dict[str,int]", "dict[str,int]", "Mapping", "Mapping[str,int]", "Mapping[int,str]", "tMapping[str,int]",
            "MutableMapping[str,int]", "MutableMapping[int,str]", "OrderedDict[str,int]", "OrderedDict[int,str]",
            "defaultdict[str,int]", "Counter[str]", "ChainMap[str,int]", "TD", "TD2"],
    "tuple": ["tuple", "Tuple", "Tuple[int]", "tuple[int]", "tuple[()]", "Tuple[()]", "tuple[int,...]", "tuple[int,*tuple[str,...]]"],
    "set": ["Set[int]", "FrozenSet[int]", "frozenset[int]", "AbstractSet[int]", "set[int]"],
    "type": ["type", "Type", "Type[int]", "type[int]", "type[list[int]]", "type[Any]", "type[T]", "type[A]"],
    "any": ["Any", "object", "T", "TB", "TC", "UID", "Annotated[Any]", "Annotated[int]", "Optional[Any]", "Any|None", "Self", "Never",
            "NoReturn", "LiteralString", "Final[int]", "ClassVar[int]"],
    "callable": ["Callable", "abcCallable", "callable", "Callable[[int],str]", "Callable[[bool],str]", "Callable[[list[int]],str]",
                 "Callable[...,str]", "Callable[[Callable[[int],int]],int]", "Callable[Concatenate[int,...],int]", "Callable[P,int]"],
    "literal": ["Literal[1,True]", "Literal[True,1]", "Literal[1]", "Literal[True]", "Literal['a']", "Literal[None]", "Literal[0,False]"],
    "num": ["int", "bool", "float", "complex", "np.float64", "np.int64", "np.integer", "np.bool_", "ndarray", "NDArray[float64]",
            "NDArray[int64]", "Quantity", "int|float", "Union[int,float]"],
    "misc": ["'int'", "ForwardRef('int')", "Pr", "RPr", "G", "G[int]", "G[str]", "G2[int,str]", "G2[str,int]", "Generator[int,None,str]",
             "Awaitable[int]", "None", "NoneType", "Ellipsis", "3", "str", "bytes", "A", "B"],
}


def _exotic():
    """name -> real hint; everything `typing` offers that people put on a node signature, in or out of the model"""
    global _EXOTIC
    if _EXOTIC is not None:
        return _EXOTIC
    import collections
    import collections.abc as abc
    import warnings
    from typing import (Annotated, Any, Callable, ClassVar, Concatenate, Final, ForwardRef, Generic, Literal, LiteralString,
                        Never, NewType, NoReturn, Optional, ParamSpec, Protocol, Self, TypedDict, TypeVar, Union,
                        runtime_checkable)

    import numpy as np
    import pint

    warnings.simplefilter("ignore")
    T, U = TypeVar("T"), TypeVar("U")
    TB, TC = TypeVar("TB", bound=int), TypeVar("TC", int, str)

    class TD(TypedDict):
        a: int

    class TD2(TypedDict):
        a: str

    class Pr(Protocol):
        def f(self) -> int: ...

    @runtime_checkable
    class RPr(Protocol):
        def f(self) -> int: ...

    class G(Generic[T]):
        pass

    class G2(Generic[T, U]):
        pass

    _EXOTIC = {
        "int": int, "bool": bool, "float": float, "str": str, "object": object, "list": list, "tuple": tuple, "dict": dict,
        "A": A, "B": B, "complex": complex, "bytes": bytes, "type": type,
        "List": typing.List, "List[int]": typing.List[int], "list[int]": list[int], "list[bool]": list[bool],
        "Dict": typing.Dict, "Dict[str,int]": typing.Dict[str, int], "dict[str,int]": dict[str, int],
        "Tuple": typing.Tuple, "Tuple[int]": typing.Tuple[int], "tuple[int]": tuple[int], "tuple[()]": tuple[()],
        "Tuple[()]": typing.Tuple[()], "tuple[int,...]": tuple[int, ...], "tuple[int,*tuple[str,...]]": tuple[int, *tuple[str, ...]],
        "Set[int]": typing.Set[int], "set[int]": set[int], "FrozenSet[int]": typing.FrozenSet[int], "frozenset[int]": frozenset[int],
        "AbstractSet[int]": abc.Set[int],
        "Type": typing.Type, "Type[int]": typing.Type[int], "type[int]": type[int], "type[list[int]]": type[list[int]],
        "type[Any]": type[Any], "type[T]": type[T], "type[A]": type[A],
        "Any": Any, "T": T, "TB": TB, "TC": TC, "UID": NewType("UID", int), "list[T]": list[T], "list[Any]": list[Any],
        "Sequence": abc.Sequence, "Sequence[int]": abc.Sequence[int], "Sequence[bool]": abc.Sequence[bool],
        "tSequence[int]": typing.Sequence[int], "MutableSequence[int]": abc.MutableSequence[int], "Iterable[int]": abc.Iterable[int],
        "Collection[int]": abc.Collection[int], "Deque[int]": collections.deque[int],
        "Mapping": abc.Mapping, "Mapping[str,int]": abc.Mapping[str, int], "Mapping[int,str]": abc.Mapping[int, str],
        "tMapping[str,int]": typing.Mapping[str, int], "MutableMapping[str,int]": abc.MutableMapping[str, int],
        "MutableMapping[int,str]": abc.MutableMapping[int, str], "OrderedDict[str,int]": collections.OrderedDict[str, int],
        "OrderedDict[int,str]": collections.OrderedDict[int, str], "defaultdict[str,int]": collections.defaultdict[str, int],
        "Counter[str]": collections.Counter[str], "ChainMap[str,int]": collections.ChainMap[str, int], "TD": TD, "TD2": TD2,
        "Callable": typing.Callable, "abcCallable": abc.Callable, "callable": callable, "Callable[[int],str]": Callable[[int], str],
        "Callable[[bool],str]": Callable[[bool], str], "Callable[[list[int]],str]": Callable[[list[int]], str],
        "Callable[...,str]": Callable[..., str], "Callable[[Callable[[int],int]],int]": Callable[[Callable[[int], int]], int],
        "Callable[Concatenate[int,...],int]": Callable[Concatenate[int, ...], int], "Callable[P,int]": Callable[ParamSpec("P"), int],
        "Literal[1,True]": Literal[1, True], "Literal[True,1]": Literal[True, 1], "Literal[1]": Literal[1],
        "Literal[True]": Literal[True], "Literal['a']": Literal["a"], "Literal[None]": Literal[None],
        "Literal[0,False]": Literal[0, False],
        "Optional[Any]": Optional[Any], "Any|None": Any | None, "int|float": int | float, "Union[int,float]": Union[int, float],
        "None": None, "NoneType": type(None), "'int'": "int", "ForwardRef('int')": ForwardRef("int"), "Self": Self, "Never": Never,
        "NoReturn": NoReturn, "LiteralString": LiteralString, "Final[int]": Final[int], "ClassVar[int]": ClassVar[int],
        "Annotated[Any]": Annotated[Any, "m"], "Annotated[int]": Annotated[int, "m"],
        "Pr": Pr, "RPr": RPr, "G": G, "G[int]": G[int], "G[str]": G[str], "G2[int,str]": G2[int, str], "G2[str,int]": G2[str, int],
        "Generator[int,None,str]": abc.Generator[int, None, str], "Awaitable[int]": abc.Awaitable[int],
        "np.float64": np.float64, "np.int64": np.int64, "np.integer": np.integer, "np.bool_": np.bool_, "ndarray": np.ndarray,
        "NDArray[float64]": np.typing.NDArray[np.float64], "NDArray[int64]": np.typing.NDArray[np.int64],
        "Quantity": pint.Quantity, "Ellipsis": ..., "3": 3,
    }
    _EXOTIC["__instances__"] = {"G": G, "G2": G2, "TD": TD}
    return _EXOTIC


_EXO_VALUES = None
_EXO_ADM = {}


def _exotic_values():
    """adversarial witnesses: C03's pool (look-alikes of pint quantities, lying numbers, subclass instances with odd
    __eq__/__hash__, pint quantities, numpy scalars/arrays) + plain near misses; (tag, value)"""
    global _EXO_VALUES
    if _EXO_VALUES is None:
        import collections

        from . import nodes_c03 as adv

        class HasF:
            def f(self):
                return 1

        ex = _exotic()["__instances__"]
        plain = [0, 1, True, False, 2.5, "a", "", None, [], [1], ["a"], [True], (), (1,), ("a",), (1, "a"), {}, {"a": 1},
                 {1: "a"}, {"a": "x"}, {1}, frozenset({1}), int, bool, str, list, A, B, A(), B(), FUNCS[(1, 1, 0)], len,
                 collections.OrderedDict(a=1), collections.OrderedDict({1: "a"}), collections.deque([1]), 1 + 2j, b"x",
                 range(2), HasF(), ex["G"](), ex["G2"](), ex["TD"](a=1)]
        vals = [(f"plain{i}:{type(v).__name__}", v) for i, v in enumerate(plain)]
        for k in adv.ADV_KEYS:
            if k == 202:
                continue  # NOT_DATA is never type checked
            v = adv.make(k)
            vals.append((f"adv{k}:{adv.tag(v)}"[:60], v))
        _EXO_VALUES = vals
    return _EXO_VALUES


def _exo_adm(name):
    if name not in _EXO_ADM:
        h = _exotic()[name]
        _EXO_ADM[name] = [_vv(v, h) for _, v in _exotic_values()]
    return _EXO_ADM[name]


def _exo_kind(h):
    g = typing.get_origin(h)
    if g is typing.Annotated and h.__origin__ is typing.Any:
        return "annotated-any"
    if g is type and typing.get_args(h) and typing.get_origin(typing.get_args(h)[0]) is not None:
        return "type-of-generic"
    return "other"


def run_exotic(case):
    ex = _exotic()
    H, O = ex[case["h"]], ex[case["o"]]
    r_ho, r_hh = _cmp(H, O), _cmp(H, H)
    gates = [[via, ss, _gate_raw(via, H, O, ss, 1)] for via in RAW_VIAS for ss in (0, 1)] if H is not None and O is not None else []
    ah, ao = _exo_adm(case["h"]), _exo_adm(case["o"])
    tags = [t for t, _ in _exotic_values()]
    bad = [i for i in range(len(tags)) if ah[i] == "T" and ao[i] == "F"]
    # an adversarial value whose own overridden __eq__/__len__/... raises is no defect of valid_value: crashes are
    # judged on the plain values only
    crash = [(t, a, name) for name, adm in ((case["h"], ah), (case["o"], ao)) for t, a in zip(tags, adm)
             if a not in ("T", "F") and t.startswith("plain")]
    tg_bad = None
    if bad:
        tg_bad = _tg_only(_exotic_values()[bad[0]][1], O)
    g, go = typing.get_origin(H), typing.get_origin(O)
    import collections.abc as abc
    facts = {"same_origin": g is not None and g == go, "nargs": len(typing.get_args(O)),
             "origin_ordered": g in (dict, tuple, abc.Callable), "is_literal": g is typing.Literal,
             "empty_other": g is tuple and go is tuple and len(typing.get_args(O)) == 0 and hasattr(O, "__args__")}
    stats = {"mode:exotic": 1, f"exotic-cmp:{r_ho if r_ho in ('T', 'F', 'REC') else 'EXC'}": 1,
             "exotic-accepted-with-admitted-witness": int(r_ho == "T" and any(a == "T" for a in ah)),
             "exotic-witnesses": len(tags), "variant:" + "".join(map(str, variant())): 1}
    return {"obs": [], "skip": False, "cmp": [r_ho, r_hh], "gates": gates, "bad": [tags[i] for i in bad[:3]], "tg_bad": tg_bad,
            "crash": crash[:3], "crash_kind": _exo_kind(ex[crash[0][2]]) if crash else None, "facts": facts, "stats": stats,
            "variant": variant()}


def exotic_oracle(case, r):
    fails = []
    r_ho, r_hh = r["cmp"]
    f = r["facts"]

    def fail(clause, detail, **sig):
        fails.append({"clause": clause, "detail": f"{detail}  [exotic out={case['h']} inp={case['o']}]",
                      "signature": {"clause": clause, "trigger": "exotic", "restricted": False, **sig}})

    if r_ho not in ("T", "F") or r_hh not in ("T", "F"):
        fail("total", f"comparison raised: {r_ho} / {r_hh}", exc=r_ho if r_ho not in ("T", "F") else r_hh, old_union=False)
    elif r_hh == "F":
        fail("not-reflexive", f"cmp({case['h']},{case['h']}) is False")
    accepted = r_ho == "T" or any(g[2] == "ok" for g in r["gates"])
    if accepted and r["bad"]:
        if r["tg_bad"] is True:
            cause = "isinstance-shortcut"
        elif f["is_literal"]:
            cause = "typeguard-literal-index"
        elif f["empty_other"]:
            cause = "empty-tuple"
        elif f["same_origin"] and f["nargs"] >= 2 and not f["origin_ordered"]:
            cause = "unordered-args"
        else:
            cause = "other"
        fail("unsound", f"accepted (cmp={r_ho}, gates={[g for g in r['gates'] if g[2] == 'ok'][:2]}), but {r['bad']} are admitted by "
                        f"the sending hint and rejected by the receiving hint", cause=cause)
    for via, ss, got in r["gates"]:
        if got not in ("ok", "refused", "REC"):
            fail("crash", f"the gate raised: {got} via={via}", where="gate", via=via)
            break
        if got != {"T": "ok", "F": "refused"}.get(r_ho, r_ho):
            fail("connect-consults-comparison", f"gate via={via} sender strict={ss}: {got}, comparison says {r_ho}", via=via)
            break
    if r["crash"]:
        t, a, name = r["crash"][0]
        fail("crash", f"valid_value raised {a} for witness {t} against {name}", where="valid_value",
             exc=a.split(":")[1] if ":" in a else a, hint_kind=r["crash_kind"])
    return fails


def gen_exotic_cases(rng, tier):
    names = [n for n in _exotic() if not n.startswith("__")]
    if tier != "quick":
        for a in names:
            for b in names:
                yield {"kind": "exotic", "h": a, "o": b, "mode": "exotic"}
        return
    seen = set()
    for fam in EXOTIC_FAMILIES.values():
        fam = [n for n in fam if n in _exotic()]
        for a in fam:
            for b in (fam if len(fam) <= 10 else rng.sample(fam, 10)):
                seen.add((a, b))
    for _ in range(500):
        seen.add((rng.choice(names), rng.choice(names)))
    for a, b in sorted(seen):
        yield {"kind": "exotic", "h": a, "o": b, "mode": "exotic"}


# ----------------------------------------------------------------------------- model side


def model_input(case, impl=None):
    if case["kind"] == "malformed":
        return list(case["lines"])
    if impl is None or impl.get("skip"):
        return []
    if case["kind"] == "gate":
        return gate_model_input(case, impl)
    if case["kind"] == "exotic":
        return []  # beyond the modelled grammar: oracle only
    if case["kind"] == "chain":
        return chain_model_input(case, impl)
    h, o = " ".join(tok(impl["th"])), " ".join(tok(impl["to"]))
    s = impl["strict"]
    lines = ["cfg " + " ".join(map(str, impl["variant"])),
             f"cmp {h} {o}", f"cmp {h} {h}", f"cmp {o} {o}",
             f"conn {h} {o} {s}", f"conn {h} {o} 1", f"conn - {o} 1", f"recv {h} {o} {s}"]
    for via, ph, po, ss, sr, _got in impl["matrix"]:
        lines.append(f"gate {via} {h if ph else '-'} {o if po else '-'} {ss} {sr}")
    for a in impl["adm"]:
        v = " ".join(tok_val(a["v"]))
        lines.append(f"adm {h} {v}")
        lines.append(f"adm {o} {v}")
    return lines


# ----------------------------------------------------------------------------- oracle (independent of the model)


def _lits(t):
    return [build_lit(x) for s in subterms(t) if s[0] == "lit" for x in s[1]]


def _unclean_literal(t):
    for s in subterms(t):
        if s[0] == "lit":
            vs = [build_lit(x) for x in s[1]]
            if any(a == b and type(a) is not type(b) for a in vs for b in vs):
                return True
    return False


def _restricted(th, to) -> bool:
    """the sub-grammar on which no failure is excusable (hypotheses of C04_sound_partial hold for every value)"""
    for t in (th, to):
        for s in subterms(t):
            if s[0] in ("uo", "mp") or s == ["tf", []] or s in (["c", "float"], ["c", "set"], ["ba", "set"]):
                return False
            if s[0] == "lit" and any(x[0] == "b" for x in s[1]):
                return False
    return True


def _facts(th, to):
    return {
        "old_union": any(s[0] == "uo" for t in (th, to) for s in subterms(t)),
        "restricted": _restricted(th, to),
    }


def _unsound_witness(adm, th, to):
    """first witness the sending hint admits and the receiving hint rejects, with a classification of why"""
    for a in adm:
        if a["h"] == "T" and a["o"] == "F":
            if a["tg_o"] is True:
                cause = "isinstance-shortcut"
            elif _unclean_literal(to):
                cause = "typeguard-literal-index"
            elif any(x == y and type(x) is not type(y) for x in _lits(th) for y in _lits(to)):
                cause = "literal-bool-int"
            elif any(s == ["tf", []] for s in subterms(to)):
                cause = "empty-tuple"
            elif any(s[0] == "mp" for s in subterms(to)):
                cause = "unordered-args"
            else:
                cause = "other"
            return a, cause
    return None


def oracle(case, r):
    if r.get("skip"):
        return []
    if case["kind"] == "gate":
        return gate_oracle(case, r)
    if case["kind"] == "exotic":
        return exotic_oracle(case, r)
    if case["kind"] == "chain":
        return chain_oracle(case, r)
    if case["kind"] != "pair":
        return []
    th, to = r["th"], r["to"]
    fails = []
    facts = _facts(th, to)
    r_ho, r_hh, r_oo = r["cmp"]

    def fail(clause, detail, **sig):
        fails.append({"clause": clause, "detail": f"{detail}  [out={th} inp={to}]",
                      "signature": {"clause": clause, "trigger": "cmp", "restricted": facts["restricted"], **sig}})

    # (a) the comparison answers yes/no
    for name, res in (("cmp(out,inp)", r_ho), ("cmp(out,out)", r_hh), ("cmp(inp,inp)", r_oo)):
        if res not in ("T", "F"):
            fail("total", f"{name} raised {res}", exc=res, old_union=facts["old_union"])
            break
    # (b) reflexivity
    for name, res in (("out", r_hh), ("inp", r_oo)):
        if res == "F":
            fail("not-reflexive", f"cmp({name},{name}) is False")
            break
    # (c) soundness of an accepted pair on the witness pool
    wit = _unsound_witness(r["adm"], th, to)
    if r_ho == "T" and wit is not None:
        fail("unsound", f"accepted, but witness {wit[0]['v']} is admitted by the output hint and rejected by the "
                        f"input hint", cause=wit[1])
    # (d) valid_value itself must answer
    for a in r["adm"]:
        if a["h"] not in ("T", "F") or a["o"] not in ("T", "F"):
            fail("crash", f"valid_value raised on witness {a['v']}: {a['h']} / {a['o']}", where="valid_value")
            break
    # (e) connect / value_receiver consult exactly the comparison
    strict = r["strict"]
    exp = {"T": "ok", "F": "refused"}.get(r_ho, r_ho)
    want = [exp if strict else "ok", exp, "ok"]
    for i, (got, w) in enumerate(zip(r["conn"], want)):
        if got != w:
            fail("connect-consults-comparison", f"connect variant {i}: got {got}, comparison says {r_ho}, strict={strict}")
            break
    if r["recv"] != (exp if strict else "ok"):
        fail("connect-consults-comparison", f"value_receiver: got {r['recv']}, comparison says {r_ho}, strict={strict}")
    # (f) the acceptance gate, for every initiator x sender flag x receiver flag x hint presence: a link between two
    # hinted channels whose RECEIVING side is strict is accepted only if sound (whatever the sender's flag and
    # whoever asked); the gate neither crashes nor leaves a refused link behind
    for via, ph, po, ss, sr, got in r.get("matrix", []):
        where = f"via={via} sender(hint={ph}, strict={ss}) receiver(hint={po}, strict={sr})"
        if got not in ("ok", "refused", "REC"):
            fail("crash", f"the gate raised / misbehaved: {got} [{where}]", where="gate", via=via)
            break
        if ph and po and sr and got == "ok" and wit is not None and r_ho != "T":
            fail("unsound", f"link accepted [{where}] although witness {wit[0]['v']} is admitted by the sending hint and "
                            f"rejected by the receiving hint", cause=wit[1], trigger="gate", via=via, sender_strict=ss)
            break
        need = exp if (ph and po and sr) else "ok"
        if got != need:
            fail("connect-consults-comparison", f"gate [{where}]: got {got}, expected {need} (comparison says {r_ho})",
                 trigger="gate", via=via, sender_strict=ss, receiver_strict=sr, hinted=[ph, po])
            break
    return fails


# ----------------------------------------------------------------------------- shrinking


def _shrinks(t):
    """smaller terms: a child in place of the node, one list element dropped, a child shrunk"""
    k = t[0]
    for c in _children(t):
        if c[0] != "N":
            yield c
    if k in ("un", "uo", "tf") and len(t[1]) > (1 if k == "tf" else 2):
        for i in range(len(t[1])):
            yield [k, t[1][:i] + t[1][i + 1:]]
    if k == "lit" and len(t[1]) > 1:
        for i in range(len(t[1])):
            yield ["lit", t[1][:i] + t[1][i + 1:]]
    if k in ("un", "uo", "tf"):
        for i, x in enumerate(t[1]):
            for y in _shrinks(x):
                yield [k, t[1][:i] + [y] + t[1][i + 1:]]
    elif k in ("an", "li", "se", "tv", "ty", "caE", "sq"):
        for y in _shrinks(t[1]):
            if not (k == "an" and y[0] in ("an", "any")):
                yield [k, y]
    elif k in ("di", "mp"):
        for y in _shrinks(t[1]):
            yield [k, y, t[2]]
        for y in _shrinks(t[2]):
            yield [k, t[1], y]
    elif k == "caP":
        for y in _shrinks(t[2]):
            yield ["caP", t[1], y]
        if t[1]:
            yield ["caP", t[1][:-1], t[2]]


def shrink_candidates(case):
    if case["kind"] == "chain":
        if case.get("vals"):
            yield {**case, "vals": case["vals"][:-1]}
        if case.get("sc"):
            yield {**case, "sc": case["sc"][:-1]}
        if case.get("late"):
            yield {**case, "late": case["late"][:-1]}
        if len(case["rc"]) > 2:
            yield {**case, "rc": case["rc"][:-1], "late": [x for x in case.get("late", []) if x[0] < len(case["rc"])]}
        if case.get("build") == "macro":
            yield {**case, "build": "plain"}
        if case["via"] != CHAIN_VIAS[case["via"]]:
            yield {**case, "via": CHAIN_VIAS[case["via"]]}
        return
    if case["kind"] == "gate":
        for i in range(len(case.get("post", []))):
            yield {**case, "post": case["post"][:i] + case["post"][i + 1:]}
        if case.get("pre") is not None:
            yield {**case, "pre": None}
        if case.get("lax") != "chan":
            yield {**case, "lax": "chan"}
        if GATE_VIAS[case["via"]] != case["via"]:
            yield {**case, "via": GATE_VIAS[case["via"]]}
        for k in ("h", "o"):
            if case.get(k) is not None:
                for t in _shrinks(case[k]):
                    if t[0] != "N":
                        yield {**case, k: t}
        if not case.get("ss", 1):
            yield {**case, "ss": 1}
        return
    if case["kind"] != "pair":
        return
    if case.get("sp"):
        yield {**case, "sp": [0, 0]}
    for h in _shrinks(case["h"]):
        yield {**case, "h": h}
    for o in _shrinks(case["o"]):
        yield {**case, "o": o}
    if not case.get("strict", 1):
        yield {**case, "strict": 1}
