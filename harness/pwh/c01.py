"""C01 — automatic DAG execution is complete, ordered and correct under every schedule."""

from __future__ import annotations

import itertools
import re

PROP = "C01"
PROP_FILE = "PwVerif/Props/C01.lean"
DRIVER = "Driver/C01.lean"
THEOREMS = [
    "C01_order",
    "C01_at_most_once",
    "C01_once",
    "C01_value",
    "C01_value_unique",
    "C01_clean",
    "C01_no_error",
    "C01_progress",
    "C01_terminates",
    "C01_fine_refines",
    "C01_fine_order",
    "C01_fine_at_most_once",
    "C01_fine_once",
    "C01_fine_value",
    "C01_fine_clean",
    "C01_fine_progress",
    "C01_fine_terminates",
    "C01_fine_atomic",
    "C01_fine_pinned_witness",
    "C01_fine_pinned_not_once",
    "C01_rerun_is_fresh",
    "C01_rerun",
    "C01_rerun_pinned_witness",
    "C01_nest_order",
    "C01_nest_at_most_once",
    "C01_nest_once",
    "C01_nest_once_reach",
]
RULE = (
    "random acyclic data graphs over 2..N term nodes (function nodes, and macros wrapping the same function with the "
    "macro or its inner node handed to the executor) inserted in random (non-topological) order, 3 input slots "
    "each with 0..2 connections, random executor assignment, random completion schedule at every schedule point "
    "(idle sleep + after every emission); thorough adds exhaustive schedule DFS for small graphs; the same graphs built "
    "inside a MACRO by a graph creator whose three arguments feed one input / several children / several inputs of one "
    "child, with children replaced (replace_child) before the run or between a failed run and its re-run. Non-trivial = "
    ">= 3 nodes and >= 1 edge; distinct by canonical case"
)
TRUSTED = [
    "model Exec.step transcribes Composite._on_run/_run_while_children_or_signals_exist, Node.run cycle and "
    "AccumulatingInputSignal.__call__ at the granularity 'a completion callback is one atomic action'",
    "the wiring observed on the implementation (ran-connection order, starting-node order) is an input of the "
    "model and is checked against the theorem's hypothesis WF by the verified decision procedure FinDag.check",
    "CtlExecutor / schedule points call the original methods",
    "fine mode (Model/ExecFine.lean, harness/pwh/execfine.py): the done-callback of an executor child runs on its own "
    "thread and is stepped in two halves around its two bookkeeping calls on the parent; pre-emption at other "
    "points of the callback (inside _finish_run before the first call, inside either call) is not modelled",
]
ASSUMPTIONS = ["wrapped functions are deterministic; executor jobs complete exactly once"]


STATS_VARIANT: dict = {}


def build(case):
    """the real workflow for a case; returns (wf, nodes_by_index)"""
    from pyiron_workflow import Workflow

    from . import nodes

    if case.get("host") == "macro":
        return build_host(case)
    wf = Workflow("w", autoload=None)
    ns = {}
    for i in case["order"]:
        # a child is a function node or a macro wrapping that function (same term to the outside)
        n = nodes.macro_node(i, label=f"n{i}") if i in case.get("macro", []) else nodes.term_node(i, label=f"n{i}")
        wf.add_child(n)
        ns[i] = n
    for i in case["order"]:
        for slot, ups in zip("abc", case["slots"][str(i)]):
            for j in ups:  # connection creation order; the newest ends up first
                ns[i].inputs[slot].connect(ns[j].outputs.o)
    return wf, ns


def ui_index(case):
    """macro host: the arguments whose interface node must survive (two or more connections) → model node index"""
    uses = [0, 0, 0]
    for sl in case.get("argslots", {}).values():
        for k in sl:
            if k is not None:
                uses[k] += 1
    keep = [k for k in range(3) if uses[k] >= 2]
    return {k: case["n"] + r for r, k in enumerate(keep)}, uses


def build_host(case):
    """the hosting composite is a MACRO (wired once, at instantiation); returns (macro, nodes by model index)"""
    from . import nodes

    vals = case.get("argvals", ["A0", "A1", "A2"])
    m, ns = nodes.host_macro(case, label="w", **dict(zip(nodes.HOST_ARGS, vals)))
    idx, _uses = ui_index(case)
    extra = case["n"] + 3
    for k, name in enumerate(nodes.HOST_ARGS):
        if name in m.children:
            # an interface node the specification does not expect gets an index outside the model's graph
            ns[idx.get(k, extra + k)] = m.children[name]
    return m, ns


def _kids(node):
    """children of a composite, {} for anything else (never `getattr` on a single-output node: it injects a node)"""
    from pyiron_workflow.nodes.composite import Composite

    return node.children if isinstance(node, Composite) else {}


def _labmap(case, ns):
    return {n.label: i for i, n in ns.items()}


def _outch(node):
    return node.outputs.o if "o" in node.outputs.labels else node.channel


def host_edges(case):
    """the data graph the model sees for a macro host: children 0..n-1 plus the surviving interface nodes"""
    idx, _uses = ui_index(case)
    slots = {}
    for i in range(case["n"]):
        sl = []
        for s in range(3):
            k = case["argslots"][str(i)][s]
            sl.append([idx[k]] if (k is not None and k in idx) else list(case["slots"][str(i)][s]))
        slots[str(i)] = sl
    for k, j in idx.items():
        slots[str(j)] = [[], [], []]
    return case["n"] + len(idx), slots


def reference(case, epoch=0):
    """plain python composition: most recently connected upstream per slot, default 'd'"""
    memo = {}
    tag = f"@{epoch}" if epoch else ""
    argslots = case.get("argslots")
    vals = case.get("argvals", ["A0", "A1", "A2"])

    def val(i):
        if i not in memo:
            args = []
            for s, ups in enumerate(case["slots"][str(i)]):
                k = argslots[str(i)][s] if argslots else None
                args.append(repr(vals[k]) if k is not None else (val(ups[-1]) if ups else "d"))
            memo[i] = f"f{i}{tag}(" + ",".join(args) + ")"
        return memo[i]

    return {i: val(i) for i in case["order"]}


def gen_dag(rng, n, p_edge=0.5):
    hidden = list(range(n))
    rng.shuffle(hidden)  # hidden topological order
    pos = {v: k for k, v in enumerate(hidden)}
    order = list(range(n))
    rng.shuffle(order)  # insertion order, unrelated
    slots = {}
    for i in range(n):
        earlier = [j for j in range(n) if pos[j] < pos[i]]
        sl = []
        for _ in range(3):
            k = 0
            if earlier and rng.random() < p_edge:
                k = 1 if rng.random() < 0.75 else 2
            ups = rng.sample(earlier, min(k, len(earlier)))
            sl.append(ups)
        slots[str(i)] = sl
    return order, slots


def gen_cases(rng, tier):
    n_cases = 260 if tier == "quick" else 2500
    max_n = 7 if tier == "quick" else 12
    for _ in range(n_cases):
        n = rng.randint(2, max_n)
        order, slots = gen_dag(rng, n)
        ex = [i for i in range(n) if rng.random() < 0.45]
        yield {"n": n, "order": order, "slots": slots, "exec": ex, "fails": [],
               "mode": rng.choice(["ctl", "ctl", "ctl-cloudpickle"]),
               "choices": [rng.randint(0, 4) for _ in range(4 * n)]}
    # macro children: some children are macros wrapping the same function; the macro or its inner node may be out
    for _ in range(80 if tier == "quick" else 800):
        n = rng.randint(2, 6 if tier == "quick" else 10)
        order, slots = gen_dag(rng, n, 0.6)
        macro = [i for i in range(n) if rng.random() < 0.5] or [rng.randrange(n)]
        ex = [i for i in range(n) if rng.random() < 0.4]
        byval = any(i in ex for i in macro) and rng.random() < 0.5
        # by value: the macro handed to the executor is a COPY (cloudpickle round trip of the job and of its result),
        # merged back into the live macro when the job completes
        yield {"n": n, "order": order, "slots": slots, "exec": ex, "fails": [],
               "mode": "ctl-cloudpickle" if byval else "ctl", "macro": macro,
               "inner_exec": [] if byval else [i for i in macro if i not in ex and rng.random() < 0.5],
               "choices": [rng.randint(0, 4) for _ in range(4 * n)]}
    # the hosting composite is a MACRO (wired once at instantiation): arguments feed the children (one argument to
    # several children, or to several inputs of one child, or to a single input), children may be macros themselves,
    # children may be replaced by new nodes before the run, or between a failed run and the re-run
    for _ in range(120 if tier == "quick" else 1200):
        yield gen_host_case(rng, tier)
    # re-runs: run one with an injected fault, failure cleared and cause removed, run two under another schedule
    for _ in range(80 if tier == "quick" else 800):
        n = rng.randint(3, 6 if tier == "quick" else 10)
        order, slots = gen_dag(rng, n, 0.6)
        ex = [i for i in range(n) if rng.random() < 0.5]
        yield {"n": n, "order": order, "slots": slots, "exec": ex, "fails": [rng.randrange(n)],
               "mode": "ctl", "choices": [rng.randint(0, 4) for _ in range(4 * n)],
               "rerun": {"exec2": [i for i in range(n) if rng.random() < 0.5],
                         "choices2": [rng.randint(0, 4) for _ in range(4 * n)],
                         "swap": rng.sample(range(n), rng.choice([0, 0, 1, 1, 2])),
                         "poke": rng.sample(range(n), rng.choice([0, 1, 1, 2])),
                         "pull": rng.sample(range(n), 1) if rng.random() < 0.25 else [],
                         # a child whose executor takes no more jobs in run two (shut down between the runs)
                         "refuse2": rng.sample(range(n), 1) if rng.random() < 0.25 else []}}
    # fine interleaving: callbacks on their own thread, stepped in two halves
    for _ in range(60 if tier == "quick" else 600):
        n = rng.randint(2, 5 if tier == "quick" else 8)
        order, slots = gen_dag(rng, n, 0.6)
        ex = [i for i in range(n) if rng.random() < 0.6] or [rng.randrange(n)]
        yield {"n": n, "order": order, "slots": slots, "exec": ex, "fails": [], "mode": "ctl", "fine": True,
               "choices": [rng.randint(0, 5) for _ in range(6 * n)]}
    for _ in range(6 if tier == "quick" else 40):
        n = rng.randint(2, 3 if tier == "quick" else 4)
        order, slots = gen_dag(rng, n, 0.7)
        yield {"n": n, "order": order, "slots": slots, "exec": list(range(n)), "fails": [], "mode": "ctl",
               "fine": True, "choices": [], "dfs": 60 if tier == "quick" else 400}
    if tier == "thorough":
        # exhaustive schedules on small graphs: every completion order at every schedule point
        for _ in range(40):
            n = rng.randint(3, 4)
            order, slots = gen_dag(rng, n, 0.6)
            base = {"n": n, "order": order, "slots": slots, "exec": list(range(n)), "fails": [], "mode": "ctl"}
            yield {**base, "choices": [], "dfs": 150}


def gen_host_case(rng, tier):
    n = rng.randint(2, 6 if tier == "quick" else 9)
    order, slots = gen_dag(rng, n, 0.55)
    argslots = {}
    for i in range(n):
        row = []
        for s in range(3):
            k = None
            if not slots[str(i)][s] and rng.random() < 0.45:
                k = rng.choice([0, 0, 1, 2])  # skewed: argument 0 tends to be used several times
            row.append(k)
        argslots[str(i)] = row
    if rng.random() < 0.3:  # one argument into two inputs of the SAME child
        i = rng.randrange(n)
        free = [s for s in range(3) if not slots[str(i)][s]]
        if len(free) >= 2:
            k = rng.randrange(3)
            for s in free[:2]:
                argslots[str(i)][s] = k
            for j in range(n):  # ... and nowhere else, so that this child alone decides whether the node survives
                if j != i:
                    argslots[str(j)] = [None if a == k else a for a in argslots[str(j)]]
    used = {j for sl in slots.values() for ups in sl for j in ups}
    outs = [i for i in range(n) if i not in used] or [order[-1]]
    outs += [i for i in range(n) if i not in outs and rng.random() < 0.25]
    macro = [i for i in range(n) if rng.random() < 0.25]
    ex = [i for i in range(n) if rng.random() < 0.4]
    case = {"n": n, "order": order, "slots": slots, "argslots": argslots, "outs": outs, "host": "macro",
            "macro": macro, "inner_exec": [i for i in macro if i not in ex and rng.random() < 0.4],
            "exec": ex, "fails": [], "mode": "ctl", "choices": [rng.randint(0, 4) for _ in range(4 * n + 8)]}
    u = rng.random()
    pick = lambda: [[i, rng.choice("FFM")] for i in rng.sample(range(n), rng.choice([1, 1, 2]))]  # noqa: E731
    if u < 0.3:
        case["replace0"] = pick()
    elif u < 0.65:
        case["fails"] = [rng.randrange(n)]
        case["rerun"] = {"exec2": [i for i in range(n) if rng.random() < 0.5],
                         "choices2": [rng.randint(0, 4) for _ in range(4 * n + 8)],
                         "replace": pick() if rng.random() < 0.4 else [],
                         # children pulled between the runs; the macro sent through pickle between the runs
                         "pull": rng.sample(range(n), rng.choice([1, 1, 2])) if rng.random() < 0.5 else [],
                         "roundtrip": rng.random() < 0.3}
    if rng.random() < 0.3 and not case["inner_exec"]:
        case["roundtrip0"] = True  # the macro that runs is a pickled copy of the one that was wired
    for i, kind in case.get("replace0", []) + case.get("rerun", {}).get("replace", []):
        # what stands at i afterwards (a macro wrapper or a plain function node) decides how its job is completed
        if kind == "M" and i not in case["macro"]:
            case["macro"] = sorted(case["macro"] + [i])
    return case


def corpus():
    # re-run in which the executor of child 0 refuses the job: 2 takes data from 0 and 1 and must not execute
    yield {"n": 3, "order": [0, 1, 2], "slots": {"0": [[], [], []], "1": [[], [], []], "2": [[0], [1], []]},
           "exec": [0], "fails": [2], "mode": "ctl", "choices": [],
           "rerun": {"exec2": [], "choices2": [], "refuse2": [0]}}
    # macro host, diamond 0 -> 1,2 -> 3: run (3 fails), child 1 pulled, re-run with 1 and 2 out and 2 completing first
    yield {"n": 4, "order": [0, 1, 2, 3], "slots": {"0": [[], [], []], "1": [[0], [], []], "2": [[0], [], []],
                                                     "3": [[1], [2], []]},
           "argslots": {str(i): [None] * 3 for i in range(4)}, "outs": [3], "host": "macro", "macro": [],
           "inner_exec": [], "exec": [], "fails": [3], "mode": "ctl", "choices": [],
           "rerun": {"exec2": [1, 2], "choices2": [0, 0, 0, 2, 0, 0, 0, 0], "replace": [], "pull": [1]}}
    # macro host with a fan-in, sent through pickle before it runs, both upstreams out, either completion order
    for ch in ([0, 0, 0, 1, 0, 0], [0, 0, 0, 2, 0, 0]):
        yield {"n": 3, "order": [0, 1, 2], "slots": {"0": [[], [], []], "1": [[], [], []], "2": [[0], [1], []]},
               "argslots": {str(i): [None] * 3 for i in range(3)}, "outs": [2], "host": "macro", "macro": [],
               "inner_exec": [], "exec": [0, 1], "fails": [], "mode": "ctl", "choices": ch, "roundtrip0": True}
    # a macro child handed to a by-value executor: merged back, nothing may stay marked as running
    yield {"n": 2, "order": [0, 1], "slots": {"0": [[], [], []], "1": [[0], [], []]}, "exec": [0], "fails": [],
           "mode": "ctl-cloudpickle", "macro": [0], "inner_exec": [], "choices": []}
    # macro host: argument ua into two inputs of the same child (its interface node must survive and feed both)
    yield {"n": 2, "order": [0, 1], "slots": {"0": [[], [], []], "1": [[0], [], []]},
           "argslots": {"0": [0, 0, None], "1": [None, 1, None]}, "outs": [1], "host": "macro", "macro": [],
           "exec": [], "fails": [], "mode": "ctl", "choices": []}
    # macro host: the first starting node is replaced before the run
    yield {"n": 3, "order": [0, 1, 2], "slots": {"0": [[], [], []], "1": [[], [], []], "2": [[0], [1], []]},
           "argslots": {"0": [None] * 3, "1": [None] * 3, "2": [None] * 3}, "outs": [2], "host": "macro", "macro": [],
           "exec": [], "fails": [], "mode": "ctl", "choices": [], "replace0": [[0, "F"]]}
    yield {"n": 3, "order": [0, 1, 2], "slots": {"0": [[], [], []], "1": [[], [], []], "2": [[0], [1], []]},
           "argslots": {"0": [None] * 3, "1": [None] * 3, "2": [None] * 3}, "outs": [2], "host": "macro", "macro": [],
           "exec": [], "fails": [], "mode": "ctl", "choices": [], "replace0": [[1, "F"]]}
    # stale received set: 0 -> 2 <- 1, run one: 0 raises, 1 completes; run two: 1 on an executor, completed last
    yield {"n": 3, "order": [0, 1, 2], "slots": {"0": [[], [], []], "1": [[], [], []], "2": [[0], [1], []]},
           "exec": [], "fails": [0], "mode": "ctl", "choices": [],
           "rerun": {"exec2": [1], "choices2": []}}
    # a child run by hand between two runs: its stray `ran` must not count in the next run (join 2 waits for 0 AND 1)
    yield {"n": 3, "order": [0, 1, 2], "slots": {"0": [[], [], []], "1": [[], [], []], "2": [[0], [1], []]},
           "exec": [], "fails": [2], "mode": "ctl", "choices": [],
           "rerun": {"exec2": [0, 1], "choices2": [1, 0, 0, 0], "poke": [0]}}
    # a child replaced by a new object under the same label between two runs: the wiring must be derived again
    yield {"n": 3, "order": [0, 1, 2], "slots": {"0": [[], [], []], "1": [[0], [], []], "2": [[1], [0], []]},
           "exec": [], "fails": [2], "mode": "ctl", "choices": [],
           "rerun": {"exec2": [], "choices2": [], "swap": [1]}}
    # the finish/emit gap: chain 0 -> 1, node 0 on an executor, the loop re-tests between the two calls
    yield {"n": 2, "order": [0, 1], "slots": {"0": [[], [], []], "1": [[0], [], []]}, "exec": [0], "fails": [],
           "mode": "ctl", "fine": True, "choices": [0, 0, 0, 0]}
    yield {"n": 3, "order": [2, 0, 1], "slots": {"0": [[], [], []], "1": [[0], [], []], "2": [[1], [0], []]},
           "exec": [0, 1], "fails": [], "mode": "ctl", "fine": True, "choices": [], "dfs": 80}
    # diamond, both middle nodes out, completed in reverse order
    yield {"n": 4, "order": [3, 0, 2, 1], "slots": {"0": [[], [], []], "1": [[0], [], []], "2": [[0], [], []],
                                                     "3": [[1, 2], [1], []]},
           "exec": [1, 2], "fails": [], "mode": "ctl", "choices": [0, 0, 0, 2, 0, 0, 0, 0]}
    yield {"n": 2, "order": [1, 0], "slots": {"0": [[], [], []], "1": [[0], [], [0]]}, "exec": [0], "fails": [],
           "mode": "ctl-cloudpickle", "choices": []}


def _run_once(case, choices):
    from . import nodes
    from .execsim import CtlExecutor, Instrument, Scheduler, Stuck, term_str

    nodes.reset()
    for i in case["fails"]:
        nodes.FAIL[i] = {0}
    wf, ns = build(case)
    rr = case.get("rerun")
    if rr:
        for n in ns.values():
            n.use_cache = False  # every run re-executes every child (caching is C05's subject)
            for inner in _kids(n).values():
                inner.use_cache = False
    _replace(case, wf, ns, case.get("replace0", []), bool(rr))
    if case.get("roundtrip0"):
        wf, ns = _roundtrip(case, wf, ns)
    res, seen = _one_run(case, wf, ns, choices, case["exec"], case.get("mode", "ctl"))
    if rr and not any(run for run, _f in res["flags"].values()) and not res["late_jobs"]:
        # the documented way on: clear the failure, remove its cause, run again
        nodes.FAIL.clear()
        nodes.CALL_LOG.clear()
        nodes.EPOCH[0] = 1
        wf.failed = False
        for n in ns.values():
            n.failed = False
            for inner in _kids(n).values():
                inner.failed = False
        # edits between the runs: a child is removed and a NEW node put in its place (same label, same data wiring)
        case2 = case_after_swaps(case)
        for i in rr.get("swap", []):
            old = ns[i]
            ins = {slot: list(old.inputs[slot].connections) for slot in "abc"}  # newest first
            outs = list(old.outputs.o.connections)
            wf.remove_child(old)
            new = nodes.term_node(i, label=f"n{i}")
            new.use_cache = False
            wf.add_child(new)
            ns[i] = new
            for slot, ups in ins.items():
                for up in reversed(ups):
                    new.inputs[slot].connect(up)
            for down in outs:
                down.connect(new.outputs.o)  # becomes the newest connection of that input
        _replace(case, wf, ns, rr.get("replace", []), True)
        # a child PULLED between the runs: the pull rewires its data tree temporarily and must put every signal
        # connection back, on both ends, also those leading to siblings outside the pulled tree
        if rr.get("pull"):
            for n in ns.values():
                n.executor = None
                for inner in _kids(n).values():
                    inner.executor = None
        for i in rr.get("pull", []):
            try:
                ns[i].pull()
            except BaseException:  # noqa: BLE001  (a pull may be refused or fail: nothing to observe here)
                pass
        if rr.get("roundtrip"):
            wf, ns = _roundtrip(case, wf, ns)
        # a child run by hand between the two runs (its `ran` reaches the triggers downstream of it while
        # nothing is running; whatever that leaves behind must not leak into the next run)
        if rr.get("poke"):
            for n in ns.values():
                n.executor = None  # a poked child's `ran` may start its downstream nodes: all of this is local
        for i in rr.get("poke", []):
            try:
                ns[i].run()
            except BaseException:  # noqa: BLE001  (not ready, ...: nothing to observe here)
                pass
        nodes.CALL_LOG.clear()
        res2, seen2 = _one_run({**case2, "refuse": rr.get("refuse2", [])}, wf, ns, list(rr["choices2"]), rr["exec2"], "ctl")
        res2["epoch"] = 1
        res2["case2"] = case2
        res["run2"] = res2
        seen = seen + seen2
    return res, seen


import concurrent.futures as _cf


class _Refusing(_cf.Executor):
    """an executor that refuses every submission, as a shut-down pool does"""

    def submit(self, *a, **k):
        raise RuntimeError("cannot schedule new futures after shutdown")

    def shutdown(self, *a, **k):
        pass


def _roundtrip(case, wf, ns):
    """the composite goes through (cloud)pickle — what a save/load or a by-value executor does to it — and the copy
    is what runs: a macro is wired once, so whatever the copy lost of its run wiring stays lost"""
    import cloudpickle

    wf2 = cloudpickle.loads(cloudpickle.dumps(wf))
    ns2 = {i: wf2.children[n.label] for i, n in ns.items() if n.label in wf2.children}
    return wf2, ns2


def _replace(case, wf, ns, edits, nocache):
    """`replace_child`: a NEW node (the same function; as a function node or as a macro wrapping it) takes the place,
    the connections and the role of a child — the graph is the same graph, the property is demanded of it unchanged"""
    from . import nodes

    for i, kind in edits:
        new = (nodes.macro_node if kind == "M" else nodes.term_node)(i, label=f"n{i}")
        if nocache:
            new.use_cache = False
            for inner in _kids(new).values():
                inner.use_cache = False
        wf.replace_child(ns[i], new)
        ns[i] = new


def case_after_swaps(case):
    """the data graph after the between-run edits: a re-added child is the NEWEST connection of its receivers"""
    rr = case.get("rerun") or {}
    slots = {k: [list(u) for u in v] for k, v in case["slots"].items()}
    for i in rr.get("swap", []):
        for k in slots:
            for ups in slots[k]:
                if i in ups:
                    # the old connection order is kept among the others; the new object's connection comes last = newest
                    n_i = ups.count(i)
                    ups[:] = [x for x in ups if x != i] + [i] * (1 if n_i else 0)
    return {**case, "slots": slots}


def _nested_tools():
    """schedule points for graphs with macro children: only the OUTERMOST composite's points are schedule
    points of the (flat) model; inside a macro's own loop the macro's outstanding job is simply completed"""
    from .execsim import Instrument, Scheduler, Stuck, _run_job

    class NestedScheduler(Scheduler):
        top = None
        stack: list = []

        def nested(self):
            return bool(self.stack) and self.stack[-1] is not self.top

        def at_emit(self):
            if self.nested():
                return
            super().at_emit()

        def at_sleep(self, *a):
            if self.nested():
                inner = self.stack[-1]
                for k, job in enumerate(self.jobs):
                    if getattr(job[0], "parent", None) is inner:
                        self.points += 1
                        if self.points > self.max_points:
                            raise Stuck("step budget exceeded")
                        _run_job(self.jobs.pop(k))
                        return
                raise Stuck("nested composite idle with nothing of its own outstanding")
            super().at_sleep(*a)

    class NestedInstrument(Instrument):
        def __enter__(self):
            super().__enter__()
            comp, sched = self.comp, self.sched
            self.old_loop = comp.Composite._on_run
            old_loop = self.old_loop

            def loop(self_, *a, **k):
                sched.stack.append(self_)
                try:
                    return old_loop(self_, *a, **k)
                finally:
                    sched.stack.pop()

            comp.Composite._on_run = loop
            return self

        def __exit__(self, *exc):
            self.comp.Composite._on_run = self.old_loop
            return super().__exit__(*exc)

    return NestedScheduler, NestedInstrument


def _one_run(case, wf, ns, choices, on_exec, mode):
    from . import nodes
    from .execsim import CtlExecutor, Instrument, Scheduler, Stuck, term_str

    if case.get("macro"):
        Scheduler, Instrument = _nested_tools()
    lm = _labmap(case, ns)
    sched = Scheduler(choices, ident=lambda owner: str(lm.get(owner.label, owner.label[1:])))
    if case.get("macro"):
        sched.top = wf
        sched.stack = []
    exe = CtlExecutor(sched, mode)
    for i in ns:
        ns[i].executor = exe if i in on_exec else None
    for i in case.get("refuse", []):
        ns[i].executor = _Refusing()  # an executor that takes no more jobs (shut down, broken): `submit` raises
    for i in case.get("inner_exec", []):
        if i in case.get("macro", []) and "inner" in _kids(ns[i]):
            ns[i].children["inner"].executor = exe  # the function node INSIDE the macro is what goes to the executor
    wiring = {}

    import pyiron_workflow.nodes.composite as comp

    outcome, ret = "ok", None
    with Instrument(sched):
        # observe the wiring once it is made (inside run → _before_run), before the first child starts
        orig_on_run = comp.Composite._on_run

        def on_run(self_):
            if self_ is wf and not wiring:
                wiring["starters"] = [lm.get(n.label, 99) for n in self_.starting_nodes]
                wiring["down"] = {
                    i: [lm.get(c.owner.label, 99) for c in ns[i].signals.output.ran.connections] for i in ns
                }
                wiring["acc"] = {
                    i: sorted(lm.get(c.owner.label, 99) for c in ns[i].signals.input.accumulate_and_run.connections)
                    for i in ns
                }
            return orig_on_run(self_)

        comp.Composite._on_run = on_run
        try:
            ret = wf.run()
        except Stuck as e:
            outcome = f"stuck:{e}"
        except BaseException as e:  # noqa: BLE001
            outcome = f"raised:{type(e).__name__}"
        finally:
            comp.Composite._on_run = orig_on_run
    late = len(sched.jobs)
    flags = {i: (bool(ns[i].running), bool(ns[i].failed)) for i in ns}
    outs = {i: term_str(_outch(ns[i]).value) for i in ns}
    lab = lambda l: lm.get(l, 99)  # noqa: E731
    res = {
        "outcome": outcome,
        "wiring": wiring,
        "trace": sched.trace,
        "exec_log": [lab(l) for l in wf.provenance_by_execution],
        "done_log": [lab(l) for l in wf.provenance_by_completion],
        "events": [(k, lab(l)) for (k, l, p) in sched.log if p == "w"],
        "flags": flags,
        "outs": outs,
        "calls": [c[0] for c in nodes.CALL_LOG],
        "wf_running": bool(wf.running),
        "wf_failed": bool(wf.failed),
        "late_jobs": late,
        "ret": None if ret is None else {k: term_str(v) for k, v in dict(ret).items()},
        "open_outputs": {k: term_str(c.value) for k, c in wf.outputs.items()},
    }
    return res, sched.options_seen


def _run_once_fine(case, choices):
    """as `_run_once`, but callbacks run on their own threads and are stepped in two halves"""
    from . import nodes
    from .execfine import FineInstrument, FineScheduler
    from .execsim import CtlExecutor, Stuck, term_str

    nodes.reset()
    wf, ns = build(case)
    sched = FineScheduler(choices, ident=lambda owner: owner.label[1:])
    exe = CtlExecutor(sched, "ctl")
    for i in case["exec"]:
        ns[i].executor = exe
    wiring = {}

    import pyiron_workflow.nodes.composite as comp

    lab = lambda l: int(l[1:])  # noqa: E731
    outcome, ret = "ok", None
    with FineInstrument(sched):
        orig_on_run = comp.Composite._on_run

        def on_run(self_):
            if self_ is wf and not wiring:
                wiring["starters"] = [int(n.label[1:]) for n in self_.starting_nodes]
                wiring["down"] = {
                    i: [int(c.owner.label[1:]) for c in ns[i].signals.output.ran.connections] for i in ns
                }
            return orig_on_run(self_)

        comp.Composite._on_run = on_run
        try:
            ret = wf.run()
        except Stuck as e:
            outcome = f"stuck:{e}"
        except BaseException as e:  # noqa: BLE001
            outcome = f"raised:{type(e).__name__}"
        finally:
            comp.Composite._on_run = orig_on_run
            # the state at the moment run() returned — before anything still parked is released
            snap = {
                "exec_log": [lab(l) for l in wf.provenance_by_execution],
                "done_log": [lab(l) for l in wf.provenance_by_completion],
                "flags": {i: (bool(ns[i].running), bool(ns[i].failed)) for i in ns},
                "outs": {i: term_str(ns[i].outputs.o.value) for i in ns},
                "calls": [c[0] for c in nodes.CALL_LOG],
                "running_children": sorted(lab(l) for l in wf.running_children),
                "wf_running": bool(wf.running),
                "parked": sorted(int(cb.k) for cb in sched.parked),
                "unstarted_jobs": len(sched.jobs),
                "events": [(k, lab(l)) for (k, l, p) in sched.log if p == "w"],
            }
            sched.release_all()
    res = {
        "fine": True,
        "outcome": outcome,
        "wiring": wiring,
        "trace": list(sched.tokens),
        "first_calls": sorted(set(w for _k, w in sched.first_calls)),
        **snap,
        "late": [int(t.split(":")[2]) for t in sched.tokens if t.startswith("L:")],
        "calls_after_release": [c[0] for c in nodes.CALL_LOG],
        "wf_failed": bool(wf.failed),
        "late_jobs": len(sched.jobs),
        "ret": None if ret is None else {k: term_str(v) for k, v in dict(ret).items()},
        "open_outputs": None,
    }
    return res, sched.options_seen


def obs_lines_fine(case, r):
    n = case["n"]
    end = "exited" if r["outcome"] == "ok" else r["outcome"]

    def st(i):
        run, failed = r["flags"][i]
        if run:
            return "out"
        if failed:
            return "failed"
        return "done" if i in r["done_log"] else "idle"

    return [
        f"end {end}",
        f"exec [{','.join(map(str, r['exec_log']))}]",
        f"doneset [{','.join(map(str, sorted(r['done_log'])))}]",
        "st " + " ".join(f"{i}:{st(i)}" for i in range(n)),
        "calls " + " ".join(f"{i}:{r['calls'].count(i)}" for i in range(n)),
        "out " + " ".join(f"{i}:{r['outs'][i]}" for i in range(n)),
        f"running [{','.join(map(str, r['running_children']))}]",
        f"late [{','.join(map(str, r['late']))}]",
    ]


def obs_lines(case, r):
    if r.get("fine"):
        return obs_lines_fine(case, r)
    """the implementation's observations in the driver's format (without the variant tag)"""
    n = case["n"]
    if case.get("host") == "macro":
        n = host_edges(case)[0]
    end = "exited" if r["outcome"] in ("ok", "raised:FailedChildError") else (
        "aborted" if r["outcome"].startswith("raised:") else r["outcome"])

    def st(i):
        run, failed = r["flags"].get(i, (False, False))
        if run:
            return "out"
        if failed:
            return "failed"
        return "done" if i in r["done_log"] else "idle"

    outcome = {"ok": "ok", "raised:FailedChildError": "failedchild"}.get(r["outcome"], "aborted" if end == "aborted" else r["outcome"])
    return [
        f"end {end}",
        f"outcome {outcome}",
        f"exec [{','.join(map(str, r['exec_log']))}]",
        f"done [{','.join(map(str, r['done_log']))}]",
        "st " + " ".join(f"{i}:{st(i)}" for i in range(n)),
        "calls " + " ".join(f"{i}:{_ncalls(case, r, i) + (1 if r['flags'].get(i, (0, 0))[0] and i not in r['calls'] else 0)}"
                            for i in range(n)),
        "out " + " ".join(f"{i}:{_host_subst(case, r['outs'].get(i, 'absent'))}" for i in range(n)),
    ]


def _ncalls(case, r, i):
    # an interface node of a hosting macro is a child like any other; its 'function' leaves no trace in CALL_LOG
    return r["calls"].count(i) if i < case["n"] else r["exec_log"].count(i)


def _host_subst(case, text):
    """macro host, lock-step only: the value of an argument whose interface node survives is that node's output (a source
    node of the model: f_j(d,d,d)); an argument linked straight into one input is that input's own value (the model's d).
    What the values really are is the oracle's business (reference())"""
    if case.get("host") != "macro":
        return text
    idx, _uses = ui_index(case)
    for k, v in enumerate(case.get("argvals", ["A0", "A1", "A2"])):
        text = text.replace(repr(v), f"f{idx[k]}(d,d,d)" if k in idx else "d")
    return text


def run_impl(case):
    once = _run_once_fine if case.get("fine") else _run_once
    if case.get("dfs"):
        from .execsim import explore

        results = []
        for _prefix, res in explore(lambda ch: once(case, ch), limit=case["dfs"]):
            results.append(res)
        first = results[0]
        return {"obs": obs_lines(case, first), "runs": results, "r": first,
                "stats": {"schedules": len(results), "dfs_cases": 1,
                          **({"fine_schedules": len(results),
                              "fine_gap_crossed": sum(1 for x in results if x["late"])} if case.get("fine") else {})}}
    r, _seen = once(case, list(case["choices"]))
    if case.get("fine"):
        stats = {"nodes": case["n"], "on_exec": len(case["exec"]), "fine_cases": 1, "fine_halves": len(r["trace"]),
                 "fine_gap_crossed": 1 if r["late"] else 0, f"outcome:{r['outcome']}": 1,
                 **{f"first_call:{w}": 1 for w in r["first_calls"]}}
        return {"obs": obs_lines(case, r), "runs": [r], "r": r, "stats": stats}
    stats = {"nodes": case["n"], "on_exec": len(case["exec"]), "completions": len(r["trace"]),
             f"mode:{case.get('mode')}": 1, f"outcome:{r['outcome']}": 1,
             "nested_completions": sum(1 for t in r["trace"] if not t.startswith("s:"))}
    return {"obs": obs_lines(case, r), "runs": [r], "r": r, "stats": stats}


def nontrivial(case, impl):
    return case["n"] >= 3 and any(u for sl in case["slots"].values() for u in sl)


def _rank(case):
    memo = {}

    def rk(i):
        if i not in memo:
            ups = [j for sl in case["slots"][str(i)] for j in sl]
            memo[i] = 1 + max((rk(j) for j in ups), default=-1)
        return memo[i]

    return [rk(i) for i in range(case["n"])]


def model_input(case, impl):
    lines = []
    for k, r in enumerate(impl["runs"]):
        if k:
            lines.append("reset")
        lines.extend(_model_input_one(case, r))
    return lines


def _model_input_one(case, r):
    n = case["n"]
    if case.get("host") == "macro":
        n, hs = host_edges(case)
        case = {**case, "n": n, "slots": hs}
    lines = [f"n {n}"]
    for i in range(n):
        for ups in case["slots"][str(i)]:
            lines.append(f"slot {i} " + " ".join(map(str, reversed(ups))))  # newest first
    w = r["wiring"]
    for j in range(n):
        lines.append(f"down {j} " + " ".join(map(str, (w.get("down") or {}).get(j, []))))
    lines.append("starters " + " ".join(map(str, w.get("starters", []))))
    lines.append("exec " + " ".join(map(str, case["exec"])))
    lines.append("fails " + " ".join(map(str, case["fails"])))
    lines.append("rank " + " ".join(map(str, _rank(case))))
    if r.get("fine"):
        lines.append("fsched " + " ".join(r["trace"]))
        lines.append("frun")
        return lines
    lines.append("sched " + " ".join(r["trace"]))
    lines.append("run")
    if r.get("run2") and not (case.get("rerun") or {}).get("refuse2"):
        r2 = r["run2"]
        c2 = r2.get("case2", case)
        if c2.get("host") == "macro":
            n2, hs2 = host_edges(c2)
            c2 = {**c2, "n": n2, "slots": hs2}
        lines.append(f"n {n}")  # the graph as it is for the second run (edits between the runs)
        for i in range(n):
            for ups in c2["slots"][str(i)]:
                lines.append(f"slot {i} " + " ".join(map(str, reversed(ups))))
        w2 = r2["wiring"]
        for j in range(n):
            lines.append(f"down {j} " + " ".join(map(str, (w2.get("down") or {}).get(j, []))))
        lines.append("starters " + " ".join(map(str, w2.get("starters", []))))
        lines.append("fails")
        lines.append("exec " + " ".join(map(str, case["rerun"]["exec2"])))
        lines.append("rank " + " ".join(map(str, _rank(c2))))
        lines.append("fresh " + " ".join(map(str, list(case["rerun"].get("swap", []))
                                         + [i for i, _k in case["rerun"].get("replace", [])])))
        lines.append("sched " + " ".join(r2["trace"]))
        lines.append("rerun")
    return lines


def diff(case, impl, model):
    chunks = [[]]
    for l in model:
        if l == "reset":
            chunks.append([])
        else:
            chunks[-1].append(l)
    if len(chunks) != len(impl["runs"]):
        return {"index": -1, "impl": f"{len(impl['runs'])} runs", "model": f"{len(chunks)} chunks"}
    for r, ch in zip(impl["runs"], chunks):
        d = _diff_one(case, obs_lines(case, r), ch)
        if d is not None:
            d["trace"] = r["trace"]
            return d
        if r.get("run2") and not (case.get("rerun") or {}).get("refuse2"):
            mine2 = ["RERUN"] + [re.sub(r"@\d+", "", l) for l in obs_lines(case, r["run2"])]
            d = _diff_one(case, mine2, ch)
            if d is not None:
                d["trace"] = r["run2"]["trace"]
                d["run"] = 2
                return d
    return None


def _diff_one(case, mine, model):
    """the implementation must agree with the pinned or with the repaired variant of the model"""
    if not model or model[0] != "wf true":
        return {"index": 0, "impl": "wiring observed on the implementation", "model": model[:1],
                "why": "the wiring does not satisfy the hypothesis WF of the theorems"}
    if mine and mine[0] == "RERUN":
        # second run of a re-run case: must agree with a variant that keeps (k) or resets (z) the received sets
        mine = mine[1:]
        tags = [t + x for t in ("P", "R", "X", "Y") for x in ("k", "z")]
    elif any(l.startswith("Fp ") for l in model):
        tags = ["Fp", "Fr"]
    else:
        tags = ["P", "R", "X", "Y"]
    best = None
    for tag in tags:
        theirs = [l[len(tag) + 1:] for l in model if l.startswith(tag + " ")][: len(mine)]
        if theirs == mine:
            STATS_VARIANT[tag] = STATS_VARIANT.get(tag, 0) + 1
            return None
        for k, (a, b) in enumerate(zip(mine, theirs)):
            if a != b:
                if best is None or k > best["index"]:
                    best = {"index": k, "impl": a, "model": b, "variant": tag}
                break
    return best or {"index": -1, "impl": mine[:1], "model": model[:2]}


def check_run(case, r):
    """the property, evaluated on one run of the implementation"""
    fails = []
    n = case["n"]
    ref = reference(case, r.get("epoch", 0))
    fine = bool(r.get("fine"))
    sig = lambda clause: {"clause": clause, "exec": bool(case["exec"]), "faults": bool(case["fails"]),  # noqa: E731
                          **({"fine": True, "gap": bool(r.get("late"))} if fine else {}),
                          **({"rerun": True} if r.get("epoch") else {})}
    fin_ev = "land" if fine else "finish"  # fine mode: the upstream's result is in place (before its bookkeeping)
    if r["outcome"] != "ok":
        fails.append({"clause": "run-did-not-return-normally", "detail": r["outcome"], "signature": sig("outcome")})
        return fails
    for i in range(n):
        c = r["calls"].count(i)
        if c != 1:
            fails.append({"clause": "not-exactly-once", "detail": f"node {i} called {c} times; calls={r['calls']}",
                          "signature": sig("once")})
    # order: every upstream finished before the node started
    pos = {}
    for k, (kind, i) in enumerate(r["events"]):
        pos.setdefault((kind, i), k)
    order_slots = host_edges(case)[1] if case.get("host") == "macro" else case["slots"]
    if case.get("host") == "macro":
        # the interface node of an argument used by two or more connections is a child like any other: it runs once
        for k, j in ui_index(case)[0].items():
            c = r["exec_log"].count(j)
            if c != 1:
                fails.append({"clause": "not-exactly-once",
                              "detail": f"interface node of argument {k} executed {c} times; exec_log={r['exec_log']}",
                              "signature": sig("once")})
    for i in range(n):
        for ups in order_slots[str(i)]:
            for j in ups:
                if ("start", i) in pos and not ((fin_ev, j) in pos and pos[(fin_ev, j)] < pos[("start", i)]):
                    fails.append({"clause": "started-before-upstream-finished",
                                  "detail": f"{i} started before {j} finished: {r['events']}", "signature": sig("order")})
    for i in range(n):
        if r["outs"][i] != ref[i]:
            fails.append({"clause": "output-differs-from-plain-composition",
                          "detail": f"node {i}: {r['outs'][i]} vs {ref[i]}", "signature": sig("value")})
    if r["wf_running"] or any(run for run, _f in r["flags"].values()) or r["late_jobs"] or (
            fine and (r["parked"] or r["unstarted_jobs"] or r["running_children"])):
        fails.append({"clause": "something-left-running",
                      "detail": f"flags={r['flags']} parked callbacks={r.get('parked')} jobs={r.get('unstarted_jobs')}",
                      "signature": sig("running")})
    if not fine and r["ret"] != r["open_outputs"]:
        fails.append({"clause": "return-value-differs-from-outputs", "detail": f"{r['ret']} vs {r['open_outputs']}",
                      "signature": sig("return")})
    if case.get("host") == "macro":
        want = {f"o{i}": ref[i] for i in case["outs"]}
        if r["ret"] != want:
            fails.append({"clause": "macro-output-differs-from-plain-composition", "detail": f"{r['ret']} vs {want}",
                          "signature": sig("value")})
    return fails


def check_refused(case, r, refused):
    """run two of a re-run case in which some children's executors refuse the submission: such a child has not run,
    so nothing that takes data from it (directly or not) may execute — the statement's 'never before all nodes it takes
    data from have finished'; everything else executes exactly once, in order, with the composition's values; the run ends
    with the failure reported and nothing left running"""
    fails = []
    n = case["n"]
    ref = reference(case, r.get("epoch", 0))
    sig = lambda clause: {"clause": clause, "exec": True, "faults": True, "rerun": True, "refused": True}  # noqa: E731
    down = set(refused)
    changed = True
    while changed:
        changed = False
        for i in range(n):
            if i not in down and any(j in down for ups in case["slots"][str(i)] for j in ups):
                down.add(i)
                changed = True
    if r["outcome"] != "raised:FailedChildError":
        fails.append({"clause": "refused-submission-not-reported", "detail": r["outcome"], "signature": sig("outcome")})
    for i in range(n):
        c = r["calls"].count(i)
        if i in down and c != 0:
            fails.append({"clause": "started-before-upstream-finished",
                          "detail": f"node {i} was called although it depends on a child whose executor refused the job "
                                    f"(refused {sorted(refused)}); calls={r['calls']}", "signature": sig("order")})
        if i not in down and c != 1:
            fails.append({"clause": "not-exactly-once", "detail": f"node {i} called {c} times; calls={r['calls']}",
                          "signature": sig("once")})
        if i not in down and r["outs"][i] != ref[i]:
            fails.append({"clause": "output-differs-from-plain-composition",
                          "detail": f"node {i}: {r['outs'][i]} vs {ref[i]}", "signature": sig("value")})
    if r["wf_running"] or any(run for run, _f in r["flags"].values()) or r["late_jobs"]:
        fails.append({"clause": "something-left-running", "detail": f"flags={r['flags']}", "signature": sig("running")})
    return fails


def oracle(case, impl):
    for r in impl["runs"]:
        if case.get("rerun"):
            # run one has an injected fault (C06's subject); C01 is demanded of the re-run
            if "run2" not in r:
                return [{"clause": "rerun-not-possible", "detail": f"after run one: {r['flags']} late={r['late_jobs']}",
                         "signature": {"clause": "rerun-not-possible"}}]
            if case["rerun"].get("refuse2"):
                f = check_refused(r["run2"].get("case2", case), r["run2"], case["rerun"]["refuse2"])
            else:
                f = check_run(r["run2"].get("case2", case), r["run2"])
        else:
            f = check_run(case, r)
        if f:
            return f
    return []


def shrink_candidates(case):
    n = case["n"]
    if case.get("dfs"):
        return
    # drop a node that nobody depends on
    used = {j for sl in case["slots"].values() for ups in sl for j in ups}
    for i in range(n - 1, -1, -1):
        if i not in used and n > 2 and case.get("host") != "macro":
            # renumber: keep ids (term functions are per id) but remove the node
            order = [x for x in case["order"] if x != i]
            if i == n - 1:
                slots = {k: v for k, v in case["slots"].items() if int(k) != i}
                yield {**case, "n": n - 1, "order": order, "slots": slots,
                       "exec": [e for e in case["exec"] if e != i], "fails": [e for e in case["fails"] if e != i]}
    for i in case["exec"]:
        yield {**case, "exec": [e for e in case["exec"] if e != i]}
    for k, sl in case["slots"].items():
        for si, ups in enumerate(sl):
            for j in ups:
                new = [list(u) for u in sl]
                new[si] = [x for x in ups if x != j]
                yield {**case, "slots": {**case["slots"], k: new}}
    if case["choices"]:
        yield {**case, "choices": []}
