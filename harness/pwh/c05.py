"""C05 — caching is transparent: a run served from cache equals a real run."""

from __future__ import annotations

PROP = "C05"
PROP_FILE = "PwVerif/Props/C05.lean"
DRIVER = "Driver/C05.lean"
THEOREMS = [
    "C05_transparent",
    "C05_transparent_commit",
    "C05_transparent_proposed",
    "C05_interrupted_job_fails",
    "C05_transparent_kbd_only",
    "C05_fatal_fails",
    "C05_transparent_from",
    "C05_submit_hit_settles",
    "C05_current_partial",
    "C05_cancel_drops_cache",
    "C05_current_witness_lost",
    "C05_current_witness_late",
    "C05_current_witness_interrupted",
    "C05_current_witness_fatal",
    "C05_current_not_transparent",
    "C05_pinned_witness_failed",
    "C05_pinned_witness_refused",
    "C05_pinned_witness_inflight",
    "C05_pinned_not_transparent",
    "C05_key_sound",
    "C05_key_sound_current_partial",
    "C05_tree_transparent",
    "C05_tree_transparent_from",
    "C05_key_current_witness",
    "C05_tree_current_not_transparent",
    "C05_key_shallow_witness",
    "C05_tree_transparent_now",
    "C05_forest_child_run",
    "C05_forest_transparent",
    "C05_forest_edit_at_depth",
    "C05_forest_edits_harmless",
    "C05_forest_setin_root",
    "C05_fetch_transparent",
    "C05_fetch_current_witness",
    "C05_forest_replace_used_harmless",
    "C05_replace_keeps_cache_witness",
    "C05_fetch_tree_transparent",
    "C05_fetch_shallow_witness",
    "C05_key_priority_witness",
    "C05_cmp_transparent",
    "C05_cmp_current_witness",
    "C05_cmp_broadcast_witness",
    "C05_cmp_typed_sound",
    "C05_forest_hand_run_ok",
    "C05_hand_run_witness",
    "C05_ser_transparent",
    "C05_ser_stale_record_witness",
    "C05_for_transparent",
    "C05_for_no_rebuild_witness",
    "C05_forest_hand_run_deep_ok",
    "C05_hand_run_shallow_witness",
    "C05_gate_transparent",
    "C05_gate_skipped_witness",
    "C05_toggle_stale_witness",
]
RULE = (
    "twin histories: (node) every history up to length L over {set v, run, submit, complete, clearFailed, cancel, "
    "drop, resetRunning}, v ranging over inputs that return / raise Exception / KeyboardInterrupt / another "
    "BaseException / are refused by process_run_result, on a real function node and its use_cache=False twin under "
    "a controllable executor — exhaustive for small L over a reduced alphabet, random beyond; (tree) nested "
    "composites workflow -> macro -> macro -> macro -> node with histories over {set a free input, rewire, add, "
    "remove, replace a child — each at every depth —, pickle round trip, run} on the graph and its cache-free twin, "
    "key and hit/miss in lock-step with the Lean key model; (wf) the flat 3-node workflow / macro histories of the "
    "first round. Non-trivial = at least one cache hit or one failed/refused/in-flight/cancelled/lost run; distinct "
    "by canonical op list"
)
TRUSTED = [
    "the cache discipline of the tree under test (R / S / N) is probed by two 5-op histories per worker process; the "
    "correspondence demands that variant of the model",
    "model Cache.step transcribes Node._before_run's cache logic and the outcomes of Runnable._run / _finish_run / "
    "_run_exception for ONE node (local run, executor job completing, cancelled, lost, late; Exception / "
    "KeyboardInterrupt / BaseException / process_run_result failure)",
    "a submit answered from the cache returns outputs instead of a future (by design): the oracle settles the "
    "uncached twin's job before comparing, exactly as theorem C05_submit_hit_settles does",
    "model CacheTree.key regroups Composite._internal_cache_key per child (connections + free input values = the "
    "source of every input channel); value links macro input -> child input and the child a macro exposes are "
    "recorded in the model key although the code's key leaves them to the macro class; signal connections and "
    "starting nodes are not modelled: a composite run is dataflow evaluation (what C01 proves of the scheduler), so "
    "the generator only rewires compatibly with a macro's fixed execution order",
    "model CacheForest (every node with its own cache) runs children on demand; the code runs them in the scheduler's "
    "topological order — the same state results because a sibling demanded twice answers from its own cache; which "
    "function nodes executed is compared with the call log of the live graph after every run",
    "model CacheFetchTree (values held by every channel of the nested tree) keeps children in execution order and only the "
    "outermost cache; after every run of a `fetch` case the value of every input channel at every depth is compared with "
    "the live graph; hand assignment to a value-LINKED channel is left out of these cases (the model re-pushes linked "
    "values at every run, the code only when the macro input is assigned)",
    "the harness reads the initial structure of a built graph off the live objects (labels, classes, connections, "
    "links) and renders the live key tuple in the model's syntax",
]
ASSUMPTIONS = ["node functions are deterministic and do not mutate their arguments (the property's proviso)"]

BEH = {1: "exc", 4: "kbd", 5: "fatal", 6: "procbad"}  # what the node function does on these inputs (else: returns)
OPS = ["set0", "set1", "set2", "set3", "set4", "set5", "set6", "run", "submit", "complete", "clearfailed", "cancel",
       "drop", "resetrunning"]


# values for the "same input?" cases: scalars that are `==` across types, arrays whose `==` is element-wise (ambiguous
# truth value, broadcasting), containers — made afresh at every use (never the same object twice)
def _mkval(tok):
    import numpy as np

    return {
        "i1": lambda: 1, "f1": lambda: 1.0, "b1": lambda: True, "c1": lambda: complex(1, 0), "s1": lambda: "1",
        "i0": lambda: 0, "f0": lambda: 0.0, "fm0": lambda: -0.0, "b0": lambda: False,
        "n64": lambda: np.float64(1.0), "ni": lambda: np.int64(1),
        "a0": lambda: np.array(1.0), "a1": lambda: np.ones(1), "a11": lambda: np.ones((1, 1)),
        "a3": lambda: np.ones(3), "a23": lambda: np.ones((2, 3)), "a31": lambda: np.ones((3, 1)), "a13": lambda: np.ones((1, 3)),
        "ai3": lambda: np.ones(3, dtype=int), "z3": lambda: np.zeros(3), "a3x": lambda: np.array([1.0, 1.0, 2.0]),
        "a2": lambda: np.ones(2), "l3": lambda: [1.0, 1.0, 1.0], "li3": lambda: [1, 1, 1], "t3": lambda: (1, 1, 1),
        "l1": lambda: [1], "lf1": lambda: [1.0],
    }[tok]()


VAL_TOKENS = ["i1", "f1", "b1", "c1", "s1", "i0", "f0", "b0", "n64", "ni", "a0", "a1", "a11", "a3", "a23", "a31",
              "a13", "ai3", "z3", "a3x", "a2", "l3", "li3", "t3", "l1", "lf1"]


# ----------------------------------------------------------------------------- generators


def _tree_shapes():
    """root workflows: [label, kind, {channel: source}] in creation order; source = child label or atom code"""
    return [
        [["n0", "F7", {}], ["m0", "MA", {"a": "n0"}], ["n1", "F8", {"a": "m0", "b": "n0"}]],
        [["n0", "F7", {}], ["m0", "MB", {"a": "n0"}], ["n1", "F8", {"a": "m0"}]],
        [["m0", "MC", {"a": 1, "b": 2}], ["n1", "F8", {"a": "m0"}]],
        [["n0", "F7", {"a": 3}], ["m0", "MC", {"a": "n0"}], ["m1", "MA", {"a": "m0", "b": "n0"}], ["n1", "F9", {"a": "m1", "b": "m0"}]],
        [["m0", "MD", {"a": 1}], ["n1", "F8", {"a": "m0"}]],
        [["m0", "MB", {}], ["m1", "MD", {"a": "m0"}]],
        [["m0", "MF", {}], ["n1", "F8", {"a": "m0"}]],
        [["n0", "F7", {}], ["m0", "ME", {}], ["n1", "F8", {"a": "m0", "b": "n0"}]],
    ]


def _gen_tree_ops(rng, n):
    ops = [["run"]]
    for _ in range(n):
        r = rng.random()
        k = rng.randrange(1 << 20)
        if r < 0.30:
            e = ["setin", k, rng.randrange(1, 6)]
        elif r < 0.40:
            e = ["rewire", k]
        elif r < 0.43:
            e = ["connect2", k]
        elif r < 0.45:
            e = ["reprio", k]
        elif r < 0.52:
            e = ["replace", k, rng.randrange(10, 20)]
        elif r < 0.57:
            e = ["replace_used", k, rng.randrange(10, 20), rng.choice(["equal", "equal", "different"])]
        elif r < 0.60:
            e = ["swapback", k]
        elif r < 0.70:
            e = ["add", k, rng.randrange(20, 30)]
        elif r < 0.80:
            e = ["remove", k]
        elif r < 0.85:
            e = ["pickle"]
        elif r < 0.91:
            e = ["exec", k, rng.choice(["ctl", "ctl-pickle", "ctl-cloudpickle", "none"])]
        elif r < 0.95:
            e = ["handrun", k, rng.randrange(1, 6)]
        else:
            e = None
        if e is not None:
            ops.append(e)
            if rng.random() < 0.25:  # undo a value edit: back to a structure that was cached two runs ago
                ops.append(["run"])
                if e[0] == "setin":
                    ops.append(["setin", k, 0])
        if rng.random() < 0.85:
            ops.append(["run"])
    ops.append(["run"])
    return ops


def gen_cases(rng, tier):
    import itertools

    # node level: exhaustive small histories over reduced alphabets, then random long ones
    small = ["set1", "set2", "run", "submit", "complete", "clearfailed"]
    L = 4 if tier == "quick" else 6
    allh = list(itertools.product(small, repeat=L))
    if tier == "quick":
        allh = rng.sample(allh, 300)
    for h in allh:
        yield {"kind": "node", "ops": list(h)}
    small2 = ["set2", "set4", "run", "submit", "complete", "cancel", "drop", "resetrunning", "clearfailed"]
    L2 = 4 if tier == "quick" else 5
    allh = [h for h in itertools.product(small2, repeat=L2) if "submit" in h or "set4" in h]
    if tier == "quick":
        allh = rng.sample(allh, 300)
    for h in allh:
        yield {"kind": "node", "ops": ["set2"] + list(h)}
    for _ in range(200 if tier == "quick" else 4000):
        n = rng.randint(5, 25)
        yield {"kind": "node", "ops": [rng.choice(OPS + ["run", "run", "set2", "submit", "complete"]) for _ in range(n)]}
    # flat workflow / macro histories (first round)
    for _ in range(80 if tier == "quick" else 1500):
        n = rng.randint(3, 12)
        ops = []
        for _ in range(n):
            r = rng.random()
            if r < 0.4:
                ops.append(["run"])
            elif r < 0.55:
                ops.append(["setopen", rng.choice("abc"), rng.choice(["x", "y"])])
            elif r < 0.65:
                ops.append(["setinner", rng.randrange(3), rng.choice("abc"), rng.choice(["x", "y"])])
            elif r < 0.78:
                ops.append(["rewire", rng.randrange(1, 3), rng.choice("abc"), rng.randrange(3)])
            elif r < 0.84:
                ops.append(["remove", rng.randrange(3)])
            elif r < 0.9:
                ops.append(["add", rng.randrange(3, 5)])
            elif r < 0.95:
                ops.append(["replace", rng.randrange(3)])
            else:
                ops.append(["pickle"])
        yield {"kind": "wf", "ops": ops, "macro": rng.random() < 0.3}
    # the `use_cache` switch through the node factories: ask for the other setting than an earlier call
    for fac in ("inputs_to_list", "list_to_outputs", "inputs_to_dict", "inputs_to_dataframe", "dataclass_node",
                "function_node", "for_node", "macro_node"):
        for n in range(2, 4 if tier == "quick" else 8):
            yield {"kind": "switch", "factory": fac, "n": n}
    # nested composites: every kind of edit at every depth
    shapes = _tree_shapes()
    for i, sh in enumerate(shapes):
        # one edit of each kind, aimed (by the selector) at every composite in turn
        for kind in ("setin", "rewire", "replace", "add", "remove", "exec"):
            for sel in range(6 if tier == "quick" else 16):
                e = {"setin": ["setin", sel, 4], "rewire": ["rewire", sel], "replace": ["replace", sel, 15],
                     "add": ["add", sel, 25], "remove": ["remove", sel],
                     "exec": ["exec", sel, ("ctl", "ctl-pickle", "ctl-cloudpickle")[sel % 3]]}[kind]
                yield {"kind": "tree", "shape": sh, "ops": [["run"], ["run"], e, ["run"], ["run"]], "bydepth": True}
    # "the same input?": sequences of values that are equal / element-wise equal / broadcast-equal but not the same value
    import itertools as _it

    pairs = list(_it.permutations(VAL_TOKENS, 2))
    if tier == "quick":
        pairs = rng.sample(pairs, 120)
    for where in ("node", "wf", "macro", "wfmacro"):
        for x, y in (pairs if where == "node" or tier != "quick" else pairs[:40]):
            yield {"kind": "vals", "where": where, "seq": [x, y, x, x]}
    # several declared outputs, the function returning them as a tuple / list / generator / iterator / view: what run()
    # RETURNS (type included) must be the same for a real run, a run served from the cache, and the twin
    hows = ["tuple", "list", "gen", "iter", "dictkeys"]
    for h1 in hows:
        for h2 in hows:
            yield {"kind": "vals", "where": "multi", "seq": [h1 + ":1", h1 + ":1", h2 + ":1", h2 + ":2", h1 + ":2", h1 + ":2"]}
    for _ in range(60 if tier == "quick" else 1500):
        yield {"kind": "vals", "where": rng.choice(["node", "node", "wf", "macro", "wfmacro"]),
               "seq": [rng.choice(VAL_TOKENS) for _ in range(rng.randint(3, 8))]}
    # a child run by hand between two runs of the graph (with another input, then the input put back)
    for sh in shapes:
        for sel in range(3 if tier == "quick" else 8):
            R = ["run"]
            yield {"kind": "tree", "shape": sh, "ops": [R, ["handrun", sel, 4], R, R]}
            yield {"kind": "tree", "shape": sh, "ops": [R, R, ["handrun", sel, 4], ["handrun", sel + 1, 5], R]}
    # the readiness gate on a hit and the `use_cache` switch: NOT_DATA / hint-violating inputs recorded through `execute` or
    # while hints are lax, hints and `use_cache` flipped between runs; exceptions compared
    gops = ["gset0", "gset1", "gset2", "gset100", "grun", "grun", "gexec", "glaxon", "glaxoff", "gcacheon", "gcacheoff"]
    if tier != "quick":
        for h in _it.product(["gset0", "gset1", "gset100", "grun", "gexec", "glaxon", "glaxoff", "gcacheon", "gcacheoff"], repeat=4):
            yield {"kind": "gate", "ops": list(h) + ["grun"]}
    for _ in range(250 if tier == "quick" else 3000):
        yield {"kind": "gate", "ops": [rng.choice(gops) for _ in range(rng.randint(3, 12))]}
    # `_serialize_result`: the job writes its result to a file, the future is withheld, run() picks the file up
    zops = ["zset1", "zset2", "zset3", "zrun", "zsubmit", "zwork", "zdeliver"]
    if tier != "quick":
        for h in _it.product(["zset1", "zset2", "zrun", "zsubmit", "zwork", "zdeliver"], repeat=5):
            if "zsubmit" in h:
                yield {"kind": "ser", "ops": ["zset1", "zrun"] + list(h)}
    for _ in range(150 if tier == "quick" else 2500):
        yield {"kind": "ser", "ops": [rng.choice(zops + ["zrun", "zsubmit", "zwork"]) for _ in range(rng.randint(4, 14))]}
    # for-loop nodes as cached composites: hand edits inside the body between runs
    for where in ("alone", "wf"):
        for as_df in (False,):
            for _ in range(40 if tier == "quick" else 800):
                ops = [["run"]]
                for _ in range(rng.randint(1, 5)):
                    r = rng.random()
                    if r < 0.4:
                        ops.append(["editbody", rng.randrange(4), rng.choice("bc"), rng.randrange(1, 6)])
                    elif r < 0.5:
                        ops.append(["wirebody", rng.randrange(4), rng.randrange(4)])
                    elif r < 0.7:
                        ops.append(["looped", [rng.randrange(1, 6) for _ in range(rng.choice([2, 2, 3, 1]))]])
                    elif r < 0.8:
                        ops.append(["broadcast", rng.randrange(1, 6)])
                    ops.append(["run"])
                    if rng.random() < 0.3:
                        ops.append(["run"])
                yield {"kind": "for", "where": where, "ops": ops}
    # an input with several connections: a second connection (it takes priority), then only the priority order changes
    for sh in shapes:
        for sel in range(6 if tier == "quick" else 20):
            R = ["run"]
            yield {"kind": "tree", "shape": sh, "ops": [R, ["connect2", sel], R, R, ["reprio", sel], R, R, ["reprio", sel], R]}
            yield {"kind": "tree", "shape": sh, "ops": [R, ["connect2", sel], ["connect2", sel + 1], R, ["reprio", sel], R,
                                                        ["reprio", sel + 3], R]}
    # values held by channels: hand assignment to connected / free inputs and disconnections, at every depth
    for sh in shapes:
        for sel in range(8 if tier == "quick" else 24):
            R = ["run"]
            yield {"kind": "fetch", "shape": sh, "ops": [R, ["fassign", sel, 9, "conn"], R, ["fcut", sel], R, R]}
            yield {"kind": "fetch", "shape": sh, "ops": [R, ["fassign", sel, 9, "conn"], ["fcut", sel], R]}
    for _ in range(100 if tier == "quick" else 2500):
        ops = [["run"]]
        for _ in range(rng.randint(2, 9)):
            r = rng.random()
            k = rng.randrange(1 << 20)
            if r < 0.35:
                ops.append(["fassign", k, rng.randrange(1, 10), "conn"])
            elif r < 0.5:
                ops.append(["fassign", k, rng.randrange(1, 10), "free"])
            elif r < 0.7:
                ops.append(["fcut", k])
            if rng.random() < 0.7:
                ops.append(["run"])
        ops.append(["run"])
        yield {"kind": "fetch", "shape": rng.choice(shapes), "ops": ops}
    # replacement by instances with a run history, swap-backs, chains — aimed at every composite in turn
    for sh in shapes:
        for sel in range(4 if tier == "quick" else 12):
            R = ["run"]
            yield {"kind": "tree", "shape": sh, "ops": [R, ["replace", sel, 15], R, ["swapback", sel], R, R]}
            yield {"kind": "tree", "shape": sh, "ops": [R, ["replace_used", sel, 16, "equal"], R, R]}
            yield {"kind": "tree", "shape": sh, "ops": [R, ["replace_used", sel, 16, "different"], R, ["swapback", sel], R]}
            yield {"kind": "tree", "shape": sh, "ops": [R, ["replace", sel, 15], R, ["replace_used", sel, 17, "equal"], R,
                                                        ["swapback", sel], R, ["swapback", sel], R]}
    for _ in range(150 if tier == "quick" else 3000):
        yield {"kind": "tree", "shape": rng.choice(shapes), "ops": _gen_tree_ops(rng, rng.randint(2, 8))}


def corpus():
    yield {"kind": "node", "ops": ["set1", "run", "clearfailed", "run"]}
    yield {"kind": "node", "ops": ["run", "run"]}
    yield {"kind": "node", "ops": ["set2", "submit", "run"]}
    yield {"kind": "node", "ops": ["set2", "run", "run", "submit", "set3", "run"]}
    # a job cancelled before it starts, then the same input again (seeded change C05-3)
    yield {"kind": "node", "ops": ["set2", "run", "set3", "submit", "cancel", "clearfailed", "run"]}
    yield {"kind": "node", "ops": ["set2", "submit", "cancel", "run", "clearfailed", "submit", "complete", "run"]}
    # witnesses of the findings on the tree as it is
    yield {"kind": "node", "ops": ["set2", "submit", "drop", "resetrunning", "run"]}
    yield {"kind": "node", "ops": ["set2", "submit", "resetrunning", "set3", "run", "complete", "run"]}
    yield {"kind": "node", "ops": ["set4", "submit", "complete", "run"]}
    yield {"kind": "node", "ops": ["set5", "run", "resetrunning", "run"]}
    yield {"kind": "node", "ops": ["set2", "run", "set6", "run", "clearfailed", "run", "submit"]}
    yield {"kind": "wf", "ops": [["run"], ["rewire", 2, "a", 0], ["run"]], "macro": False}
    yield {"kind": "wf", "ops": [["run"], ["setinner", 1, "a", "y"], ["run"]], "macro": False}
    yield {"kind": "ser", "ops": ["zset1", "zrun", "zset2", "zsubmit", "zwork", "zrun", "zset1", "zrun"]}  # C05-12
    yield {"kind": "gate", "ops": ["gexec", "grun"]}  # C05-14
    yield {"kind": "gate", "ops": ["glaxon", "gset100", "grun", "glaxoff", "grun"]}
    yield {"kind": "gate", "ops": ["gset1", "grun", "gcacheoff", "gset2", "grun", "gcacheon", "gset1", "grun"]}  # C05-15
    yield {"kind": "tree", "shape": _tree_shapes()[6], "ops": [["run"], ["handrun", 1, 4], ["run"], ["run"]]}  # C05-13
    yield {"kind": "for", "where": "alone", "ops": [["run"], ["editbody", 1, "b", 4], ["run"], ["run"]]}  # C05-10
    yield {"kind": "tree", "shape": _tree_shapes()[0], "ops": [["run"], ["handrun", 0, 4], ["run"]]}  # KF-C05-10
    yield {"kind": "switch", "factory": "inputs_to_list", "n": 3}  # KF-C05-8
    yield {"kind": "switch", "factory": "dataclass_node", "n": 2}
    # a value assigned to a CONNECTED input survives a cache hit (no fetch) and takes effect after a disconnect (KF-C05-7)
    yield {"kind": "wf", "ops": [["run"], ["setinner", 1, "a", "x"], ["run"], ["remove", 0], ["run"]], "macro": False}
    # `1` then `1.0`: equal for `==`, not for a function that looks at the type (KF-C05-9); arrays that broadcast equal
    yield {"kind": "vals", "where": "node", "seq": ["i1", "f1"]}
    yield {"kind": "vals", "where": "wf", "seq": ["a1", "a11"]}
    yield {"kind": "vals", "where": "node", "seq": ["a3", "a23", "f1", "a3"]}
    yield {"kind": "vals", "where": "wfmacro", "seq": ["a3", "a23", "a31"]}
    sh = _tree_shapes()
    # a grandchild's free input changes (seeded change C05-2), at depth 2, 3 and 4
    yield {"kind": "tree", "shape": sh[0], "ops": [["run"], ["setat", ["m0"], "n1", "c", 4], ["run"]]}
    yield {"kind": "tree", "shape": sh[1], "ops": [["run"], ["setat", ["m0", "m0"], "n1", "c", 4], ["run"]]}
    yield {"kind": "tree", "shape": sh[2], "ops": [["run"], ["setat", ["m0", "m1", "m0"], "n2", "c", 4], ["run"], ["run"]]}
    # the last child of a nested macro replaced by a node of another class (finding KF-C05-5)
    yield {"kind": "tree", "shape": sh[4], "ops": [["run"], ["replaceat", ["m0"], "n0", 16], ["run"]]}
    yield {"kind": "tree", "shape": sh[1], "ops": [["run"], ["replaceat", ["m0", "m0"], "n2", 16], ["run"]]}


# ----------------------------------------------------------------------------- node level


class QExec:
    """a controllable executor with its own queue (wraps execsim.CtlExecutor): jobs run when the history says so,
    can be cancelled before they start (`shutdown(cancel_futures=True)`) or lost"""

    def __new__(cls):
        from .execsim import CtlExecutor, Scheduler

        class _Q(CtlExecutor):
            def shutdown(self, wait=True, *, cancel_futures=False):
                if cancel_futures:
                    jobs, self.sched.jobs[:] = list(self.sched.jobs), []
                    for job in jobs:
                        job[1].cancel()  # the done-callback runs here, with CancelledError

            @property
            def jobs(self):
                return self.sched.jobs

        return _Q(Scheduler([]), "ctl")


def _mk_node(use_cache):
    from . import nodes_c05 as nc

    n = nc.G(label="g")
    n.use_cache = use_cache
    n.recovery = None
    return n


def _res(x):
    from concurrent.futures import Future

    from pyiron_workflow.channels import NOT_DATA

    if isinstance(x, Future):
        return "future"
    if x is NOT_DATA:
        return "ret:ND"
    if isinstance(x, tuple) and x and x[0] == "g":
        return f"ret:F({x[1]})"
    return f"ret:{x!r}"


def _vis(n):
    from pyiron_workflow.channels import NOT_DATA

    v = n.inputs.x.value
    o = n.outputs.o.value
    inp = 0 if v is NOT_DATA else v
    out = "ND" if o is NOT_DATA else (f"F({o[1]})" if isinstance(o, tuple) else repr(o))
    return f"{inp},{out},{str(bool(n.running)).lower()},{str(bool(n.failed)).lower()}"


def _apply_node(n, op, exe, newest=False):
    from pyiron_workflow.channels import NOT_DATA
    from pyiron_workflow.mixin.run import ReadinessError

    from . import nodes_c05 as nc
    from .execsim import _run_job

    try:
        if op.startswith("set"):
            v = int(op[3:])
            n.inputs.x.value = NOT_DATA if v == 0 else v
            return "unit"
        if op == "run":
            n.executor = None
            return _res(n.run())
        if op == "submit":
            n.executor = exe
            return _res(n.run())
        if op == "complete":
            if exe.jobs:
                _run_job(exe.jobs.pop(-1 if newest else 0))
            return "unit"
        if op == "clearfailed":
            n.failed = False
            return "unit"
        if op == "cancel":
            n.executor = exe
            n.executor_shutdown(wait=False, cancel_futures=True)
            return "unit"
        if op == "drop":
            if exe.jobs:
                exe.jobs.pop(0)
            return "unit"
        if op == "resetrunning":
            n.running = False
            return "unit"
    except ReadinessError:
        return "readiness"
    except nc.Boom:
        return "raised"
    except KeyboardInterrupt:
        return "escaped" if op == "complete" else "interrupted"
    except nc.Fatal:
        return "escaped" if op == "complete" else "fatal"
    except TypeError:
        return "procraised"
    except RuntimeError as e:
        # "locked" = the assignment was refused because the node is running (type + state, never the wording)
        return "locked" if op.startswith("set") and n.running else f"exc:{type(e).__name__}"
    except Exception as e:  # noqa: BLE001
        return f"exc:{type(e).__name__}"
    return "bad-op"


_VARIANT = None


def _probe_variant():
    """which cache discipline the tree under test has — by behaviour, once per worker process:
    R = cache written at admission (a lost job + manual reset gives a stale hit; /repo before b54ba0f),
    S = cache records a processed result, a KeyboardInterrupt in a job leaves the node not failed (before f3b0474),
    N = … and a KeyboardInterrupt in a job fails the node (before 9a3aae7),
    H = … and so does every other BaseException, locally and in a job (/repo now).
    The correspondence then demands THIS variant of the model, so a reverted fix shows as its old variant (whose
    violations the oracle reports) and a half-reverted one as a divergence."""
    global _VARIANT
    if _VARIANT is None:
        from . import nodes_c05 as nc

        nc.reset(BEH)
        nc.WHO = "c"
        e, n = QExec(), _mk_node(True)
        stale = [_apply_node(n, op, e) for op in ("set2", "submit", "drop", "resetrunning", "run")][-1] == "ret:ND"
        e, n = QExec(), _mk_node(True)
        for op in ("set4", "submit", "complete"):
            _apply_node(n, op, e)
        e, m = QExec(), _mk_node(True)
        for op in ("set5", "run"):
            _apply_node(m, op, e)
        # H = every BaseException ending the function fails the run (/repo now, 9a3aae7)
        _VARIANT = "R" if stale else ("H" if m.failed and n.failed else ("N" if n.failed else "S"))
    return _VARIANT


def _run_node_case(case):
    from . import nodes_c05 as nc

    variant = _probe_variant()
    nc.reset(BEH)
    ea, eb = QExec(), QExec()
    a = _mk_node(True)
    b = _mk_node(False)
    lines, rows = [], []
    hits = 0
    special = 0
    for op in case["ops"]:
        ca = len(nc.CALLS["c"])
        nc.WHO = "c"
        ra = _apply_node(a, op, ea)
        nc.WHO = "u"
        rb = _apply_node(b, op, eb)
        settled = False
        if op == "submit" and ra.startswith("ret:") and rb == "future":
            # a submit answered from the cache: settle the uncached twin's job (the newest), then compare
            _apply_node(b, "complete", eb, newest=True)
            settled = True
        if op in ("run", "submit") and ra.startswith("ret:") and len(nc.CALLS["c"]) == ca:
            hits += 1
        if ra not in ("unit", "future", "locked") and not ra.startswith("ret:") or a.running or op in ("cancel", "drop", "resetrunning"):
            special += 1
        line = f"c={ra} u={rb} vc={_vis(a)} vu={_vis(b)} q={len(ea.jobs)}/{len(eb.jobs)}"
        rows.append({"op": op, "c": ra, "u": rb, "vc": _vis(a), "vu": _vis(b), "settled": settled, "line": line,
                     "running_before_reset": None})
        lines.append(line)
    return {"obs": lines, "rows": rows, "hits": hits, "special": special, "variant": variant,
            "stats": {"node_cases": 1, "variant_" + variant: 1, "hits": hits, "failed_refused_inflight_cancelled_lost": special,
                      "settled_submit_hits": sum(r["settled"] for r in rows),
                      **{"op_" + o: sum(1 for r in rows if r["op"] == o) for o in ("cancel", "drop", "resetrunning")}}}


# ----------------------------------------------------------------------------- flat composite level (first round)


def _build_wf(use_cache, macro):
    from pyiron_workflow import Workflow

    from . import nodes

    if macro:
        from . import nodes_c05 as nc

        m = nc.M3(label="m")
        host = m
    else:
        host = Workflow("w", autoload=None)
        host.n0 = nodes.F0()
        host.n1 = nodes.F1(a=host.n0)
        host.n2 = nodes.F2(a=host.n1, b=host.n0)
    if not use_cache:
        host.use_cache = False
        for c in host:
            c.use_cache = False
    return host


def _snap(host):
    from .execsim import term_str

    return {c.label: term_str(c.outputs.o.value) for c in host if hasattr(c.outputs, "o")}


def _apply_wf(host, op, use_cache):
    import pickle

    from . import nodes
    from .execsim import term_str

    kids = lambda: {c.label: c for c in host}  # noqa: E731
    try:
        if op[0] == "run":
            r = host.run()
            return "ret:" + str({k: term_str(v) for k, v in dict(r).items()}), host
        if op[0] == "setopen":
            key = f"n0__{op[1]}"
            if hasattr(host.inputs, key):
                host.inputs[key].value = op[2]
                return "unit", host
            if hasattr(host.inputs, op[1]):
                host.inputs[op[1]].value = op[2]
                return "unit", host
            return "skip", host
        if op[0] == "setinner":
            c = kids().get(f"n{op[1]}")
            if c is None:
                return "skip", host
            c.inputs[op[2]].value = op[3]
            return "unit", host
        if op[0] == "rewire":
            c, u = kids().get(f"n{op[1]}"), kids().get(f"n{op[3]}")
            if c is None or u is None or c is u or op[3] >= op[1]:
                return "skip", host
            c.inputs[op[2]].disconnect_all()
            c.inputs[op[2]].connect(u.outputs.o)
            return "unit", host
        if op[0] == "remove":
            c = kids().get(f"n{op[1]}")
            if c is None:
                return "skip", host
            host.remove_child(c)
            return "unit", host
        if op[0] == "add":
            if f"n{op[1]}" in kids():
                return "skip", host
            n = nodes.term_node(op[1], label=f"n{op[1]}")
            if not use_cache:
                n.use_cache = False
            host.add_child(n)
            return "unit", host
        if op[0] == "replace":
            c = kids().get(f"n{op[1]}")
            if c is None:
                return "skip", host
            n = nodes.term_node(op[1] + 8, label="r")
            if not use_cache:
                n.use_cache = False
            host.replace_child(c, n)
            return "unit", host
        if op[0] == "pickle":
            h2 = pickle.loads(pickle.dumps(host))
            if not use_cache:
                h2.use_cache = False
                for c in h2:
                    c.use_cache = False
            return "unit", h2
    except Exception as e:  # noqa: BLE001
        return f"exc:{type(e).__name__}", host
    return "bad-op", host


def _run_wf_case(case):
    from . import nodes

    nodes.reset()
    a = _build_wf(True, case.get("macro"))
    b = _build_wf(False, case.get("macro"))
    rows = []
    for op in case["ops"]:
        note = None
        if op[0] == "setinner":
            c = {k.label: k for k in a}.get(f"n{op[1]}")
            if c is not None and c.inputs[op[2]].connected:
                note = "assignment-to-connected-input"  # overwritten by the next fetch — unless the run is a cache hit
        ra, a = _apply_wf(a, op, True)
        rb, b = _apply_wf(b, op, False)
        rows.append({"op": op, "c": ra, "u": rb, "vc": _snap(a), "vu": _snap(b), "note": note})
    return {"obs": [], "rows": rows, "hits": 0, "special": 0, "stats": {"wf_cases": 1}}


# ----------------------------------------------------------------------------- nested composites


def _lid(label):
    """label -> number of the model: n<k> -> k, m<k> -> 100 + k, the fan-out node of macro input `x` -> 200 + ord"""
    if len(label) == 1:
        return 200 + ord(label) - ord("a")
    return (100 if label[0] == "m" else 0) + int(label[1:])


def _cls_id(name):
    """F<k> (the harness's own term nodes) -> k; anything else — the library's identity node that a macro makes for an
    input that fans out, whatever it is called — -> 99"""
    return int(name[1:]) if name[:1] == "F" and name[1:].isdigit() else 99


def _val(code):
    return "d" if code == 0 else f"a{code}"


def _code(v):
    if v == "d":
        return 0
    if isinstance(v, str) and v[:1] == "a" and v[1:].isdigit():
        return int(v[1:])
    return None


def _term(v):
    from pyiron_workflow.channels import NOT_DATA

    if v is NOT_DATA:
        return "ND"
    if isinstance(v, tuple) and v and isinstance(v[0], str) and v[0].startswith("f"):
        return v[0] + "(" + ",".join(_term(a) for a in v[1:]) + ")"
    if isinstance(v, str):
        return v
    return repr(v).replace(" ", "")


def _is_comp(n):
    from pyiron_workflow.nodes.composite import Composite

    return isinstance(n, Composite)


def _cache_off(n):
    n.use_cache = False
    if _is_comp(n):
        for c in n:
            _cache_off(c)


def _build_tree(shape, use_cache):
    from pyiron_workflow import Workflow

    from . import nodes
    from . import nodes_c05 as nc

    wf = Workflow("w", autoload=None)
    wf.recovery = None
    for label, kind, ins in shape:
        kw = {ch: (wf.children[s] if isinstance(s, str) else _val(s)) for ch, s in ins.items()}
        n = nc.MACROS[kind](label=label, **kw) if kind in nc.MACROS else nodes.term_node(int(kind[1:]), label=label, **kw)
        wf.add_child(n)
    if not use_cache:
        _cache_off(wf)
    return wf


def _link_index(parent, chan):
    """index of the parent input whose value is linked to this child channel (macros), else None"""
    for i, pch in enumerate(parent.inputs):
        if pch.value_receiver is chan:
            return i
    return None


def _src(parent, chan):
    if chan.connected:
        if len(chan.connections) > 1:
            return "m" + ".".join(str(_lid(o.owner.label)) for o in chan.connections)
        return f"c{_lid(chan.connections[0].owner.label)}"
    i = _link_index(parent, chan) if parent is not None else None
    if i is not None:
        return f"l{i}"
    c = _code(chan.value)
    return f"v{c}" if c is not None else "v?"


def _ret_of(comp):
    for c in comp:
        for out in c.outputs:
            if out.value_receiver is not None and any(out.value_receiver is o for o in comp.outputs):
                return _lid(c.label)
    return 0


def _path_str(path):
    return ".".join(str(_lid(p)) for p in path) if path else "-"


def _describe(comp, path, is_root, lines):
    """the model's build lines for the live graph (read once, right after it is built)"""
    for c in comp:
        srcs = " ".join(_src(None if is_root else comp, ch) for ch in c.inputs)
        if _is_comp(c):
            lines.append(f"tcomp {_path_str(path)} {_lid(c.label)} {_ret_of(c)} {srcs}".rstrip())
            _describe(c, path + [c.label], False, lines)
        else:
            lines.append(f"tleaf {_path_str(path)} {_lid(c.label)} {_cls_id(type(c).__name__)} {srcs}".rstrip())


def _render_key(comp, key, is_root):
    """the live `_internal_cache_key()` tuple in the syntax of the model's key (what the model does not record —
    signal connections, starting nodes, composite class names — is left out)"""
    try:
        labels, dconns, _sig, _start, per_child = key
        conn = {}
        for c in dconns:  # in the key's own order = priority order of each channel's connections
            conn.setdefault((c[0][0], c[0][1]), []).append(c[1][0])
        out = []
        for entry in per_child:
            label, free, nested = entry[0], entry[-2], entry[-1]
            cls = entry[1] if len(entry) == 4 else None
            child = comp.children[label]
            free = dict(free)
            ins = []
            for ch in child.inputs:
                if (label, ch.label) in conn:
                    ups = conn[(label, ch.label)]
                    ins.append(f"c{_lid(ups[0])}" if len(ups) == 1 else "m" + ".".join(str(_lid(u)) for u in ups))
                elif ch.label in free:
                    i = None if is_root else _link_index(comp, ch)
                    c = _code(free[ch.label])
                    ins.append(f"l{i}" if i is not None else (f"v{c}" if c is not None else "v?"))
                else:
                    ins.append("?")
            if nested is not None:
                sub = _render_key(child, nested, False)
                if sub is None:
                    return None
                out.append(f"{_lid(label)}:-:C{_ret_of(child)}:({','.join(ins)})[{sub}]")
            else:
                k = "-" if cls is None or _is_comp(child) else _cls_id(cls.rsplit(".", 1)[-1])
                out.append(f"{_lid(label)}:{k}:L:({','.join(ins)})")
        if tuple(labels) != tuple(e[0] for e in per_child):
            return "labels-differ " + "|".join(out)
        return "|".join(out)
    except Exception:  # noqa: BLE001
        # the key is a private structure: a tree that lays it out differently is not compared on it (hit / miss, outputs
        # and executed nodes still are)
        return None


def _comps(host, path=()):
    """every composite of the graph with its path, depth first"""
    yield list(path), host
    for c in host:
        if _is_comp(c):
            yield from _comps(c, path + (c.label,))


def _at(host, path):
    for p in path:
        host = host.children[p]
    return host


def _rank(comp, label):
    """position in the macro's fixed execution order = creation order of its class; children added later: last"""
    order = getattr(comp, "_c05_order", None)
    if order is None:
        return 0
    return order.index(label) if label in order else len(order)


def _upstream(node, seen=None):
    seen = set() if seen is None else seen
    for ch in node.inputs:
        for o in ch.connections:
            if o.owner.label not in seen:
                seen.add(o.owner.label)
                _upstream(o.owner, seen)
    return seen


def _resolve(host, op, spares=None):
    """turn a generated edit (selector based) into a concrete one on the current structure; None = nothing to do"""
    kind = op[0]
    if kind in ("run", "pickle"):
        return list(op)
    if kind == "setat":  # concrete already: path, child, channel, code
        return ["setin", op[1], op[2], op[3], op[4]]
    if kind == "replaceat":
        return ["replace", op[1], op[2], op[3]]
    sel = op[1]
    comps = list(_comps(host))
    cands = []
    for path, comp in comps:
        is_root = not path
        for c in comp:
            if kind == "setin":
                for ch in c.inputs:
                    if not ch.connected and (is_root or _link_index(comp, ch) is None) and _code(ch.value) is not None:
                        cands.append(["setin", path, c.label, ch.label, op[2]])
            elif kind == "rewire":
                if not is_root and c.label not in getattr(comp, "_c05_order", []):
                    continue  # a child added to a macro runs right after the sibling it was wired to: left as it is
                for ch in c.inputs:
                    if not is_root and _link_index(comp, ch) is not None:
                        continue
                    for s in comp:
                        if s is c or c.label in _upstream(s) or not hasattr(s.outputs, "o"):
                            continue
                        if not is_root and _rank(comp, s.label) >= _rank(comp, c.label):
                            continue  # a macro keeps the execution order it was created with
                        cands.append(["rewire", path, c.label, ch.label, s.label])
            elif kind in ("connect2", "reprio"):
                if not is_root and c.label not in getattr(comp, "_c05_order", []):
                    continue
                for ch in c.inputs:
                    if not ch.connected or (not is_root and _link_index(comp, ch) is not None):
                        continue
                    have = [o.owner.label for o in ch.connections]
                    if kind == "reprio":
                        for u in have[1:]:  # a lower-priority upstream: disconnect + connect makes it the first
                            cands.append(["reprio", path, c.label, ch.label, u])
                        continue
                    for s in comp:
                        if s is c or s.label in have or c.label in _upstream(s) or not hasattr(s.outputs, "o"):
                            continue
                        if not is_root and _rank(comp, s.label) >= _rank(comp, c.label):
                            continue
                        cands.append(["connect2", path, c.label, ch.label, s.label])
            elif kind == "handrun":
                # a child — at any depth — none of whose inputs is connected or linked (nothing else is consulted)
                # (a function node: a macro run by hand re-pushes values through its links, which the code's key holds and
                # the model does not — the code then misses where the model would hit, cf. the fetch cases)
                if not _is_comp(c) and hasattr(c.outputs, "o") and not any(
                        ch.connected or (not is_root and _link_index(comp, ch) is not None) for ch in c.inputs):
                    ch = next((ch for ch in c.inputs if _code(ch.value) is not None), None)
                    if ch is not None:
                        # another value than the one it holds: with the same value the child answers from its own cache,
                        # which is no run at all
                        cands.append(["handrun", path, c.label, ch.label, op[2] if _code(ch.value) != op[2] else op[2] + 1])
            elif kind == "exec":
                if hasattr(c.outputs, "o"):
                    cands.append(["exec", path, c.label, op[2]])
            elif kind == "replace":
                if not _is_comp(c) and hasattr(c.outputs, "o"):
                    cands.append(["replace", path, c.label, op[2]])
            elif kind == "replace_used":
                if not _is_comp(c) and hasattr(c.outputs, "o"):
                    cands.append(["replace_used", path, c.label, op[2], op[3]])
            elif kind == "swapback":
                if not _is_comp(c) and spares and spares.get((tuple(path), c.label)):
                    cands.append(["swapback", path, c.label])
            elif kind == "remove":
                consumers = any(o.connections for o in c.outputs)
                exposed = (not is_root) and _ret_of(comp) == _lid(c.label)
                if not consumers and not exposed and len(comp.children) > 1:
                    cands.append(["remove", path, c.label])
        if kind == "add":
            label = next(f"n{k}" for k in range(20, 60) if f"n{k}" not in comp.children)
            srcs = [s.label for s in comp if hasattr(s.outputs, "o")]
            cands.append(["add", path, label, op[2], srcs[sel % len(srcs)] if srcs and sel % 3 else None])
    if not cands:
        return None
    if kind != "add":
        # spread the selector over the composites first, then over the candidates inside the chosen one
        paths = [p for p, _ in comps if any(c[1] == p for c in cands)]
        p = paths[sel % len(paths)]
        inside = [c for c in cands if c[1] == p]
        return inside[(sel // len(paths)) % len(inside)]
    return cands[sel % len(cands)]


def _apply_tree(host, op, use_cache, sched=None, spares=None):
    import pickle

    from . import nodes

    try:
        if op[0] == "exec":
            from .execsim import CtlExecutor

            _at(host, op[1]).children[op[2]].executor = None if op[3] == "none" else CtlExecutor(sched, op[3])
            return "unit", host
        if op[0] == "setin":
            _at(host, op[1]).children[op[2]].inputs[op[3]].value = _val(op[4])
            return "unit", host
        if op[0] == "handrun":
            child = _at(host, op[1]).children[op[2]]
            ch = child.inputs[op[3]]
            keep = ch.value
            ch.value = _val(op[4])
            from .execsim import Instrument

            try:
                with Instrument(sched):  # children on executors complete under the same deterministic scheduler
                    child.run(emit_ran_signal=False)  # by hand, outside a run of the graph; nothing downstream is pushed
            finally:
                sched.drain()
            ch.value = keep
            return "unit", host
        if op[0] in ("connect2", "reprio"):
            comp = _at(host, op[1])
            ch = comp.children[op[2]].inputs[op[3]]
            up = comp.children[op[4]].outputs.o
            if op[0] == "reprio":
                ch.disconnect(up)
            ch.connect(up)  # the newest connection comes first
            return "unit", host
        if op[0] == "rewire":
            comp = _at(host, op[1])
            ch = comp.children[op[2]].inputs[op[3]]
            ch.disconnect_all()
            ch.connect(comp.children[op[4]].outputs.o)
            return "unit", host
        if op[0] in ("replace", "replace_used", "swapback"):
            comp = _at(host, op[1])
            old = comp.children[op[2]]
            key = (tuple(op[1]), op[2])
            if op[0] == "swapback":
                n = spares[key].pop()  # an instance that was a child here before, with the run history it has
            else:
                n = nodes.term_node(op[3], label="r")
                if not use_cache:
                    n.use_cache = False
                if op[0] == "replace_used":
                    # an instance that was run stand-alone before: with the input it is about to take over, or another
                    vals = {ch.label: (ch.value if op[4] == "equal" else "zz") for ch in old.inputs}
                    n.recovery = None
                    n(**vals)
            comp.replace_child(old, n)
            if spares is not None:
                spares.setdefault(key, []).append(old)
            return "unit", host
        if op[0] == "remove":
            comp = _at(host, op[1])
            comp.remove_child(comp.children[op[2]])
            return "unit", host
        if op[0] == "add":
            comp = _at(host, op[1])
            n = nodes.term_node(op[3], label=op[2])
            if not use_cache:
                n.use_cache = False
            comp.add_child(n)
            if op[4] is not None:
                n.inputs.a.connect(comp.children[op[4]].outputs.o)
            if op[1]:
                # a macro does not re-derive its execution flow: the user wires the new child into it
                if op[4] is not None:
                    n.signals.input.run.connect(comp.children[op[4]].signals.output.ran)
                else:
                    comp.starting_nodes.append(n)
            return "unit", host
        if op[0] == "pickle":
            h2 = pickle.loads(pickle.dumps(host))
            for (_, c1), (_, c2) in zip(_comps(host), _comps(h2)):
                if hasattr(c1, "_c05_order"):
                    c2._c05_order = c1._c05_order
            if not use_cache:
                _cache_off(h2)
            return "unit", h2
    except Exception as e:  # noqa: BLE001
        return f"exc:{type(e).__name__}", host
    return "bad-op", host


def _model_line(op):
    """the driver line of a concrete edit"""
    if op[0] == "setin":
        return None  # needs the channel index: made by the caller
    if op[0] in ("replace", "replace_used", "swapback"):
        return f"treplace {_path_str(op[1])} {_lid(op[2])} {op[3]}"
    if op[0] == "remove":
        return f"tremove {_path_str(op[1])} {_lid(op[2])}"
    if op[0] == "add":
        src = f"c{_lid(op[4])}" if op[4] is not None else "v0"
        return f"tleaf {_path_str(op[1])} {_lid(op[2])} {op[3]} {src} v0 v0"
    return None


def _outs(host):
    return ";".join(f"{_lid(c.label)}={_term(c.outputs.o.value)}" for c in host if hasattr(c.outputs, "o"))


def _outs_deep(host):
    """the output of every node of the graph, at every depth (each of them is a node whose outputs the property speaks of)"""
    parts = []
    for path, comp in _comps(host):
        for c in comp:
            if hasattr(c.outputs, "o"):
                parts.append("/".join(str(_lid(p)) for p in path + [c.label]) + "=" + _term(c.outputs.o.value))
    return ";".join(parts)


def _run_tree(host, sched):
    """run under the deterministic scheduler of execsim: executor jobs complete, one at a time, whenever the
    composite idles"""
    from .execsim import Instrument, Stuck

    try:
        with Instrument(sched):
            r = host.run()
        return "ret:" + ";".join(f"{k}={_term(v)}" for k, v in dict(r).items())
    except Stuck:
        return "exc:Stuck"
    except Exception as e:  # noqa: BLE001
        return f"exc:{type(e).__name__}"
    finally:
        sched.drain()


_HAND = None


def _probe_handrun():
    """does a child run by hand drop the record of the workflow above it ("FP", proposed) or not ("F", /repo)"""
    global _HAND
    if _HAND is None:
        from pyiron_workflow import Workflow

        from . import nodes

        wf = Workflow("hp", autoload=None)
        wf.n0 = nodes.F0()
        try:
            wf.run()
            wf.n0.run(a="zz", emit_ran_signal=False)
            wf.n0.inputs.a.value = "d"
            wf.set_run_signals_to_dag_execution()
            _HAND = "F" if wf.cache_hit else "FP"
        except Exception:  # noqa: BLE001
            _HAND = "F"
    return _HAND


_TREE_PROBE = None


def _probe_tree():
    """two more behaviours of the tree under test, by behaviour, once per worker (reported in the histogram): does a
    composite that answers from its cache make its children fetch (a1109ce), do the transformer factories honour
    `use_cache` (393c49f)"""
    global _TREE_PROBE
    if _TREE_PROBE is None:
        from pyiron_workflow import Workflow
        from pyiron_workflow.nodes.transform import inputs_to_list

        from . import nodes

        wf = Workflow("probe", autoload=None)
        wf.n0 = nodes.F0()
        wf.n1 = nodes.F1(a=wf.n0)
        try:
            wf.run()
            wf.n1.inputs.a.value = "x"
            wf.run()
            refetch = wf.n1.inputs.a.value != "x"
        except Exception:  # noqa: BLE001
            refetch = None
        try:
            inputs_to_list(7)
            switch = inputs_to_list(7, use_cache=False).use_cache is False
        except Exception:  # noqa: BLE001
            switch = None
        _TREE_PROBE = {"refetch_on_hit_" + str(refetch): 1, "use_cache_switch_honoured_" + str(switch): 1}
    return _TREE_PROBE


def _run_tree_case(case):
    from . import nodes
    from .execsim import Scheduler

    probe = _probe_tree()

    nodes.reset()
    a = _build_tree(case["shape"], True)
    b = _build_tree(case["shape"], False)
    sa, sb = Scheduler([], max_points=5000), Scheduler([], max_points=5000)
    fonly = [False]  # a child was run by hand: only the whole-tree model (F lines) follows that
    hvariant = _probe_handrun()
    spa, spb = {}, {}  # nodes that were replaced out, per (path, label): candidates for a swap-back
    for h in (a, b):
        for _, comp in _comps(h):
            comp._c05_order = [c.label for c in comp]
    build = []
    _describe(a, [], True, build)
    rows, mlines, obs = [], list(build), []
    hits = 0
    depth_hist = {}
    for op in case["ops"]:
        cop = _resolve(a, op, spa)
        if cop is None:
            rows.append({"op": list(op), "resolved": None, "c": "skip", "u": "skip", "vc": _outs(a), "vu": _outs(b)})
            continue
        if cop[0] == "run":
            try:
                a.set_run_signals_to_dag_execution()  # what Workflow._before_run does first
                hit = bool(a.cache_hit)
                key = _render_key(a, a._internal_cache_key(), True)
            except Exception:  # noqa: BLE001
                key = None
            try:
                hit = bool(a.cache_hit)
            except Exception:  # noqa: BLE001
                hit = False
            n0 = len(nodes.CALL_LOG)
            ra = _run_tree(a, sa)
            calls = len(nodes.CALL_LOG) - n0
            executed = sorted(f"f{e[0]}(" + ",".join(_term(x) for x in e[1:]) + ")" for e in nodes.CALL_LOG[n0:])
            rb = _run_tree(b, sb)
            hits += int(hit)
            rows.append({"op": ["run"], "resolved": ["run"], "c": ra, "u": rb, "vc": _outs_deep(a), "vu": _outs_deep(b),
                         "hit": hit, "calls": calls, "key": key})
            # A miss of the code is passed on (the code's key also holds the values last PUSHED through value links,
            # which lag one run behind — outside the model); a hit of the code must be a hit of the model's key.
            mlines.append("trun")
            if ra.startswith("ret:") and rb.startswith("ret:") and not hit and _outs(a) != _outs(b):
                # the root ran, yet its outputs differ from the twin's: a NESTED composite answered from its own
                # cache (the model keeps no nested caches) — the oracle reports it, the comparison stops here
                obs.append("exc")
            elif ra.startswith("ret:") and rb.startswith("ret:"):
                obs.append(f"hit={str(hit).lower()} c={_outs(a)} u={_outs(b)}")
                obs.append(f"key {key}" if key is not None else "key ?")
                # the whole tree of caches: which function nodes executed in the cached graph (the rest hit a cache)
                obs.append(f"F hit={str(hit).lower()} c={_outs(a)} calls={','.join(executed)}")
                if _outs(a) != _outs(b):
                    # a stale answer (the oracle reports it): what the code does next — its re-fetch pushes the stale
                    # value through value links, which its key holds — is beyond the model; the comparison stops here
                    obs.append("exc")
            else:
                obs.append("exc")
            continue
        idx, before_conns = None, []
        hand_keep, n_hand = None, len(nodes.CALL_LOG)
        if cop[0] == "handrun":
            hand_keep = _code(_at(a, cop[1]).children[cop[2]].inputs[cop[3]].value)
        if cop[0] in ("setin", "rewire", "connect2", "reprio", "handrun"):
            child = _at(a, cop[1]).children.get(cop[2])
            if child is not None:
                idx = [ch.label for ch in child.inputs].index(cop[3])
                before_conns = [o.owner.label for o in child.inputs[cop[3]].connections]
        before, changed = [], False
        if cop[0] == "pickle":
            _describe(a, [], True, before)
        if cop[0] == "swapback":
            # the model needs the class of the instance that comes back
            cop = cop + [_cls_id(type(spa[(tuple(cop[1]), cop[2])][-1]).__name__)]
        ra, a = _apply_tree(a, cop, True, sa, spa)
        hand_calls = sorted(f"f{e[0]}(" + ",".join(_term(x) for x in e[1:]) + ")" for e in nodes.CALL_LOG[n_hand:])
        rb, b = _apply_tree(b, cop, False, sb, spb)
        if cop[0] == "pickle" and ra == "unit":
            after = []
            _describe(a, [], True, after)
            if after != before:
                # a round trip that does not give the same graph back (seen: value links of a macro child lost after
                # a replace_child in the workflow) is another property's business (save/load fidelity); both twins
                # go through it alike, the oracle goes on, the comparison with the model stops
                depth_hist["pickle_changed_graph"] = depth_hist.get("pickle_changed_graph", 0) + 1
                changed = True
        depth_hist[f"edit_{cop[0]}_depth{len(cop[1]) if len(cop) > 1 else 0}"] = \
            depth_hist.get(f"edit_{cop[0]}_depth{len(cop[1]) if len(cop) > 1 else 0}", 0) + 1
        rows.append({"op": list(op), "resolved": cop, "c": ra, "u": rb, "vc": _outs(a), "vu": _outs(b)})
        if ra != "unit" or rb != "unit" or changed:
            obs.append("exc")  # the comparison with the model stops here
            continue
        if cop[0] == "handrun":
            fonly[0] = True
            ps = _path_str(cop[1])
            mlines += [f"tsetin {ps} {_lid(cop[2])} {idx} v{cop[4]}", f"thandrun {ps} {_lid(cop[2])}",
                       f"tsetin {ps} {_lid(cop[2])} {idx} v{hand_keep}"]
            obs.append(f"F hand {_lid(cop[2])} calls={','.join(hand_calls)}")
        elif cop[0] in ("connect2", "reprio"):
            # predicted, not read back: the upstream named by the edit moves to the front of what the channel had
            rest = [u for u in before_conns if u != cop[4]]
            mlines.append(f"tsetin {_path_str(cop[1])} {_lid(cop[2])} {idx} m" + ".".join(str(_lid(u)) for u in [cop[4]] + rest))
        elif cop[0] == "setin":
            mlines.append(f"tsetin {_path_str(cop[1])} {_lid(cop[2])} {idx} v{cop[4]}")
        elif cop[0] == "rewire":
            mlines.append(f"tsetin {_path_str(cop[1])} {_lid(cop[2])} {idx} c{_lid(cop[4])}")
        elif cop[0] not in ("pickle", "exec"):
            mlines.append(_model_line(cop))
    return {"obs": obs, "rows": rows, "mlines": mlines, "hits": hits, "special": 0, "fonly": fonly[0], "hvariant": hvariant,
            "stats": {"tree_cases": 1, **probe, "hand_run_" + hvariant: 1, "tree_hits": hits, "tree_runs": sum(1 for r in rows if r["resolved"] == ["run"]),
                      **depth_hist}}


def _switch_fn(x="d"):
    y = x
    return y


def _switch_macro(self, x="d"):
    from . import nodes

    self.n0 = nodes.F0(a=x)
    return self.n0


def _run_switch_case(case):
    """make a node through a factory with the default, then ask the same factory for `use_cache=False` (the graph
    and its cache-free twin are built exactly like this) and look at the switch and at what a second run does"""
    import pyiron_workflow as pw
    from pyiron_workflow.nodes import transform as tr

    from . import nodes, nodes_c05 as nc

    fac, n = case["factory"], case["n"]
    mk = {
        "inputs_to_list": lambda **kw: tr.inputs_to_list(n, **kw),
        "list_to_outputs": lambda **kw: tr.list_to_outputs(n, **kw),
        "inputs_to_dict": lambda **kw: tr.inputs_to_dict([f"k{i}" for i in range(n)], **kw),
        "inputs_to_dataframe": lambda **kw: tr.inputs_to_dataframe(n, **kw),
        "dataclass_node": lambda **kw: tr.dataclass_node(getattr(nc, f"DC{n}"), **kw),
        "function_node": lambda **kw: pw.function_node(_switch_fn, **kw),
        "for_node": lambda **kw: pw.for_node(nodes.F0, iter_on=("a",), **kw),
        "macro_node": lambda **kw: pw.macro_node(_switch_macro, output_labels="o", **kw),
    }[fac]
    rows = []
    try:
        a = mk()
        b = mk(use_cache=False)
        rows.append({"op": "make", "c": f"use_cache={a.use_cache}", "u": f"use_cache={b.use_cache}",
                     "vc": "", "vu": "", "asked": [True, False]})
    except Exception as e:  # noqa: BLE001
        rows.append({"op": "make", "c": f"exc:{type(e).__name__}", "u": "", "vc": "", "vu": "", "asked": None})
    return {"obs": [], "rows": rows, "hits": 0, "special": 0, "stats": {"switch_cases": 1, "switch_" + fac: 1}}


def _describe_ft(comp, path, is_root, lines):
    """build lines of the held-value model: every channel with its source AND the value it holds"""
    for c in comp:
        toks = []
        for ch in c.inputs:
            v = _term(ch.value)
            if ch.connected:
                toks.append(f"c{_lid(ch.connections[0].owner.label)}:{v}")
            else:
                i = None if is_root else _link_index(comp, ch)
                toks.append(f"l{i}:{v}" if i is not None else f"v:{v}")
        if _is_comp(c):
            lines.append(f"ftcomp {_path_str(path)} {_lid(c.label)} {_ret_of(c)} {' '.join(toks)}".rstrip())
            _describe_ft(c, path + [c.label], False, lines)
        else:
            lines.append(f"ftleaf {_path_str(path)} {_lid(c.label)} {_cls_id(type(c).__name__)} {' '.join(toks)}".rstrip())


def _state(comp):
    out = []
    for c in comp:
        x = f"{_lid(c.label)}[{'|'.join(_term(ch.value) for ch in c.inputs)}]"
        if _is_comp(c):
            x += "{" + _state(c) + "}"
        out.append(x)
    return " ".join(out)


def _resolve_fetch(host, op):
    if op[0] == "run":
        return ["run"]
    sel = op[1]
    cands = []
    for path, comp in _comps(host):
        is_root = not path
        for c in comp:
            for idx, ch in enumerate(c.inputs):
                linked = (not is_root) and _link_index(comp, ch) is not None
                if linked:
                    continue  # the model re-pushes a linked value at every run, the code only when the macro input is assigned
                if op[0] == "fassign" and (ch.connected if op[3] == "conn" else (not ch.connected and _code(ch.value) is not None)):
                    cands.append(["fassign", path, c.label, ch.label, idx, op[2]])
                if op[0] == "fcut" and ch.connected:
                    cands.append(["fcut", path, c.label, ch.label, idx])
    if not cands:
        return None
    paths = []
    for c in cands:
        if c[1] not in paths:
            paths.append(c[1])
    p = paths[sel % len(paths)]
    inside = [c for c in cands if c[1] == p]
    return inside[(sel // len(paths)) % len(inside)]


def _run_fetch_case(case):
    from . import nodes
    from .execsim import Scheduler

    nodes.reset()
    a = _build_tree(case["shape"], True)
    b = _build_tree(case["shape"], False)
    sa, sb = Scheduler([], max_points=5000), Scheduler([], max_points=5000)
    mlines = []
    _describe_ft(a, [], True, mlines)
    rows, obs, hits, hist = [], [], 0, {}
    for op in case["ops"]:
        cop = _resolve_fetch(a, op)
        if cop is None:
            rows.append({"op": list(op), "resolved": None, "c": "skip", "u": "skip", "vc": _outs(a), "vu": _outs(b)})
            continue
        if cop[0] == "run":
            try:
                a.set_run_signals_to_dag_execution()
                hit = bool(a.cache_hit)
            except Exception:  # noqa: BLE001
                hit = False
            ra, rb = _run_tree(a, sa), _run_tree(b, sb)
            hits += int(hit)
            rows.append({"op": ["run"], "resolved": ["run"], "c": ra, "u": rb, "vc": _outs(a), "vu": _outs(b), "hit": hit,
                         "state_c": _state(a), "state_u": _state(b)})
            mlines.append("ftrun")
            obs.append(f"FT hit={str(hit).lower()} c={_outs(a)} st={_state(a)}" if ra.startswith("ret:") else "exc")
            continue
        res = []
        for h in (a, b):
            try:
                ch = _at(h, cop[1]).children[cop[2]].inputs[cop[3]]
                if cop[0] == "fassign":
                    ch.value = _val(cop[5])
                else:
                    ch.disconnect_all()
                res.append("unit")
            except Exception as e:  # noqa: BLE001
                res.append(f"exc:{type(e).__name__}")
        key = f"edit_{cop[0]}_depth{len(cop[1])}"
        hist[key] = hist.get(key, 0) + 1
        rows.append({"op": list(op), "resolved": cop, "c": res[0], "u": res[1], "vc": _outs(a), "vu": _outs(b)})
        if res != ["unit", "unit"]:
            obs.append("exc")
            continue
        if cop[0] == "fassign":
            mlines.append(f"ftassign {_path_str(cop[1])} {_lid(cop[2])} {cop[4]} {_val(cop[5])}")
        else:
            mlines.append(f"ftcut {_path_str(cop[1])} {_lid(cop[2])} {cop[4]}")
    return {"obs": obs, "rows": rows, "mlines": mlines, "hits": hits, "special": 0,
            "stats": {"fetch_cases": 1, "fetch_hits": hits, **hist}}


def _py_same(v, c):
    """what Python / numpy make of `v == c` — nothing of the library in it: (truthy without ambiguity, … and the two have
    the same type, shape and dtype)"""
    import numpy as np

    try:
        eq = bool(v == c)
    except Exception:  # noqa: BLE001 - ambiguous truth value of an element-wise comparison
        eq = False
    typed = eq and type(v) is type(c) and getattr(v, "shape", None) == getattr(c, "shape", None) \
        and getattr(v, "dtype", None) == getattr(c, "dtype", None)
    if typed and isinstance(v, list | tuple):
        typed = len(v) == len(c) and all(_py_same(a, b)[1] for a, b in zip(v, c))
    return eq, bool(typed)


_VAL_VARIANT = None


def _probe_val_variant():
    """does the tree's hit test tell `1` from `1.0`? ("VC" = plain `==`, "VP" = type-aware)"""
    global _VAL_VARIANT
    if _VAL_VARIANT is None:
        from . import nodes_c05 as nc

        n = nc.Desc(label="p")
        n.run(x=1)
        k = len(nc.DESC_CALLS)
        n.run(x=1.0)
        _VAL_VARIANT = "VC" if len(nc.DESC_CALLS) == k else "VP"
    return _VAL_VARIANT


def _run_vals_case(case):
    from pyiron_workflow import Workflow

    from . import nodes_c05 as nc

    variant = _probe_val_variant()

    def build(use_cache):
        where = case["where"]
        if where == "multi":
            h = nc.Multi(label="n")

            def setter(v):
                h.inputs.how.value, h.inputs.x.value = v

            def get(r):
                return f"{type(r).__name__}:{list(r) if hasattr(r, '__iter__') else r}"
        elif where == "node":
            h = nc.Desc(label="n")
            setter = lambda v: setattr(h.inputs.x, "value", v)  # noqa: E731
            get = lambda r: r  # noqa: E731
        elif where == "macro":
            h = nc.MDesc(label="m")
            setter = lambda v: setattr(h.inputs.x, "value", v)  # noqa: E731
            get = lambda r: r["y"]  # noqa: E731
        else:
            h = Workflow("w", autoload=None)
            h.recovery = None
            h.c = nc.Desc() if where == "wf" else nc.MDesc()
            setter = lambda v: setattr(h.c.inputs.x, "value", v)  # noqa: E731
            get = lambda r: r["c__y"]  # noqa: E731
        if not use_cache:
            _cache_off(h) if _is_comp(h) else setattr(h, "use_cache", False)
        return h, setter, get

    (a, seta, geta), (b, setb, getb) = build(True), build(False)
    a.recovery = b.recovery = None
    rows, obs, hits = [], [], 0
    for tok in case["seq"]:
        out = []
        for h, st, gt in ((a, seta, geta), (b, setb, getb)):
            k = len(nc.DESC_CALLS)
            try:
                st(_mkval(tok) if case["where"] != "multi" else (tok.split(":")[0], int(tok.split(":")[1])))
                r = "ret:" + str(gt(h.run()))
            except Exception as e:  # noqa: BLE001
                r = f"exc:{type(e).__name__}"
            out.append((r, len(nc.DESC_CALLS) - k))
        (ra, ca), (rb, _) = out
        hits += int(ca == 0)
        rows.append({"op": tok, "c": ra, "u": rb, "vc": "", "vu": "", "called": ca})
        obs.append(f"hit={str(ca == 0).lower()} c={ra[4:]} u={rb[4:]}")
    return {"obs": obs, "rows": rows, "hits": hits, "special": 0, "variant": variant,
            "stats": {"vals_cases": 1, "vals_" + case["where"]: 1, "vals_hits": hits, "vals_variant_" + variant: 1}}


def _vals_model_input(case):
    from . import nodes_c05 as nc

    toks = sorted(set(case["seq"]))
    ids = {t: i for i, t in enumerate(toks)}
    descs = sorted({nc.describe(_mkval(t)) for t in toks})
    lines = []
    for t in toks:
        lines.append(f"vdesc {ids[t]} {descs.index(nc.describe(_mkval(t)))}")
        for u in toks:
            eq, typed = _py_same(_mkval(t), _mkval(u))
            lines.append(f"vsame {ids[t]} {ids[u]} {int(eq)} {int(typed)}")
    for t in case["seq"]:
        lines += [f"vset {ids[t]}", "vrun"]
    return lines, descs


class _SilentExec:
    """an executor that does the job when told (`work`: the job itself writes the result file) and reports back only when
    told (`deliver`); one slot each, like the model"""

    def __new__(cls):
        from concurrent.futures import Executor, Future

        class _S(Executor):
            def __init__(self):
                self.job, self.done = None, None

            def submit(self, fn, /, *args, **kwargs):
                fut = Future()
                self.job = (fut, fn, args, kwargs)
                return fut

            def work(self):
                if self.job is not None:
                    fut, fn, args, kwargs = self.job
                    self.job = None
                    try:
                        self.done = (fut, fn(*args, **kwargs), None)
                    except BaseException as e:  # noqa: BLE001
                        self.done = (fut, None, e)

            def settle(self):
                """do the job just submitted and deliver it at once, leaving an older withheld future where it is (the
                cached twin answered this submission from its cache: its executor still holds that older future too)"""
                if self.job is not None:
                    fut, fn, args, kwargs = self.job
                    self.job = None
                    fut.set_running_or_notify_cancel()
                    try:
                        fut.set_result(fn(*args, **kwargs))
                    except BaseException as e:  # noqa: BLE001
                        fut.set_exception(e)

            def deliver(self):
                if self.done is not None:
                    fut, res, exc = self.done
                    self.done = None
                    fut.set_running_or_notify_cancel()
                    fut.set_exception(exc) if exc is not None else fut.set_result(res)

        return _S()


def _run_ser_case(case):
    from pyiron_workflow.channels import NOT_DATA
    from pyiron_workflow.mixin.run import ReadinessError

    from . import nodes_c05 as nc

    nc.reset({})
    twins = []
    for tag, uc in (("gc", True), ("gu", False)):
        n = nc.G(label=tag)
        n.use_cache, n.recovery = uc, None
        n._serialize_result, n._do_clean = True, True
        n.inputs.x.value = 1
        twins.append((n, _SilentExec()))

    def app(n, ex, op):
        try:
            if op.startswith("zset"):
                n.inputs.x.value = int(op[4:])
                return "unit"
            if op == "zrun":
                if not n.running:
                    n.executor, n._serialize_result = None, False  # only executor jobs serialize their result
                return _res(n.run())
            if op == "zsubmit":
                if not n.running:
                    n.executor, n._serialize_result = ex, True
                return _res(n.run())
            if op == "zwork":
                from pathlib import Path

                if not any(Path(n.label).rglob("*.tmp")):  # a result file of an abandoned job is in the way: wait
                    ex.work()
                return "unit"
            if op == "zdeliver":
                ex.deliver()
                return "unit"
        except ReadinessError:
            return "readiness"
        except ValueError:
            return "waiting" if n.running else "exc:ValueError"  # still running, no result file yet
        except RuntimeError:
            return "locked" if op.startswith("zset") and n.running else "exc:RuntimeError"
        except Exception as e:  # noqa: BLE001
            return f"exc:{type(e).__name__}"
        return "bad-op"

    def vis(n):
        o = n.outputs.o.value
        return f"{n.inputs.x.value},{'ND' if o is NOT_DATA else 'F(%s)' % o[1]},{str(bool(n.running)).lower()}"

    (a, ea), (b, eb) = twins
    rows, obs, hits = [], [], 0
    for op in case["ops"]:
        nc.WHO = "c"
        k = len(nc.CALLS["c"])
        ra = app(a, ea, op)
        nc.WHO = "u"
        rb = app(b, eb, op)
        settled = False
        if op == "zsubmit" and ra.startswith("ret:") and rb == "future":
            from pathlib import Path

            for f in Path(b.label).rglob("*.tmp"):  # the result file of an abandoned job must not fail THIS job
                f.unlink()
            eb.settle()
            settled = True
        if op in ("zrun", "zsubmit") and ra.startswith("ret:") and len(nc.CALLS["c"]) == k and not a.running:
            hits += 1
        line = f"c={ra} u={rb} vc={vis(a)} vu={vis(b)}"
        rows.append({"op": op, "c": ra, "u": rb, "vc": vis(a), "vu": vis(b), "settled": settled, "line": line})
        obs.append(line)
        if settled:
            break  # the twins' executors (withheld futures, result files) are no longer in step: the history ends here
    return {"obs": obs, "rows": rows, "hits": hits, "special": 1,
            "stats": {"ser_cases": 1, "ser_hits": hits, "ser_pickups": sum(1 for r in rows if r["op"] in ("zrun", "zsubmit")
                                                                           and r["vu"].endswith("false") and "F(" in r["u"]
                                                                           and False),
                      "ser_settled": sum(r["settled"] for r in rows)}}


def _run_for_case(case):
    from pyiron_workflow import Workflow, for_node

    from . import nodes

    nodes.reset()

    def build(use_cache):
        loop = for_node(nodes.F0, iter_on=("a",), output_as_dataframe=False, label="loop", a=[_val(1), _val(2)], b=_val(3))
        if case["where"] == "wf":
            host = Workflow("w", autoload=None)
            host.recovery = None
            host.loop = loop
            host.z = nodes.F1(a=loop.outputs.o)
        else:
            host = loop
            host.recovery = None
        if not use_cache:
            _cache_off(host)
        return host, loop

    def bodies(loop):
        return [c for c in loop if c.label.startswith("body_")]

    def apply(host, loop, op, use_cache):
        try:
            if op[0] == "run":
                r = host.run()
                if not use_cache:
                    _cache_off(host)  # a rebuilt body is made of fresh nodes
                return "ret:" + ";".join(f"{k}={_term(v) if not isinstance(v, list) else '[' + ','.join(_term(x) for x in v) + ']'}"
                                         for k, v in dict(r).items())
            bs = bodies(loop)
            if op[0] == "editbody":
                if not bs:
                    return "skip"
                bs[op[1] % len(bs)].inputs[op[2]].value = _val(op[3])  # by hand, inside the body
                return "unit"
            if op[0] == "wirebody":
                if len(bs) < 2 or op[1] % len(bs) == op[2] % len(bs):
                    return "skip"
                bs[op[1] % len(bs)].inputs.c.connect(bs[op[2] % len(bs)].outputs.o)
                return "unit"
            if op[0] == "looped":
                loop.inputs.a.value = [_val(c) for c in op[1]]
                return "unit"
            if op[0] == "broadcast":
                loop.inputs.b.value = _val(op[1])
                return "unit"
        except Exception as e:  # noqa: BLE001
            return f"exc:{type(e).__name__}"
        return "bad-op"

    (a, la), (b, lb) = build(True), build(False)
    rows, hits = [], 0
    for op in case["ops"]:
        n0 = len(nodes.CALL_LOG)
        ra = apply(a, la, op, True)
        if op[0] == "run" and len(nodes.CALL_LOG) == n0 and ra.startswith("ret:"):
            hits += 1
        rb = apply(b, lb, op, False)
        outs = lambda lp: ";".join(f"{k}={v!r}" for k, v in lp.outputs.to_value_dict().items()).replace(" ", "")  # noqa: E731
        rows.append({"op": op, "resolved": op, "c": ra, "u": rb, "vc": outs(la), "vu": outs(lb)})
    return {"obs": [], "rows": rows, "hits": hits, "special": 0,
            "stats": {"for_cases": 1, "for_" + case["where"]: 1, "for_hits": hits,
                      "for_body_edits": sum(1 for r in rows if r["op"][0] in ("editbody", "wirebody") and r["c"] == "unit")}}


def _run_gate_case(case):
    from pyiron_workflow.channels import NOT_DATA
    from pyiron_workflow.mixin.run import ReadinessError

    from . import nodes_c05 as nc

    a, b = nc.TY(label="tc"), nc.TY(label="tu")
    a.recovery = b.recovery = None
    b.use_cache = False

    def val(v):
        return NOT_DATA if v == 0 else (f"s{v}" if v >= 100 else v)

    def res(r):
        x = r[1] if isinstance(r, tuple) else r
        return "ret:ND" if r is NOT_DATA else f"ret:F({0 if x is NOT_DATA else (int(x[1:]) if isinstance(x, str) else x)})"

    def app(n, op, twin):
        try:
            if op.startswith("gset"):
                n.inputs.x.value = val(int(op[4:]))
                return "unit"
            if op == "grun":
                return res(n.run())
            if op == "gexec":
                return res(n.execute())
            if op == "glaxon":
                n.deactivate_strict_hints()
                return "unit"
            if op == "glaxoff":
                n.activate_strict_hints()
                return "unit"
            if op in ("gcacheon", "gcacheoff"):
                if not twin:
                    n.use_cache = op == "gcacheon"
                return "unit"
        except ReadinessError:
            return "readiness"
        except TypeError:
            return "refused" if op.startswith("gset") else "exc:TypeError"  # the hint refuses the value
        except Exception as e:  # noqa: BLE001
            return f"exc:{type(e).__name__}"
        return "bad-op"

    def out(n):
        o = n.outputs.o.value
        return "ND" if o is NOT_DATA else res(o)[4:]

    rows, obs, hits = [], [], 0
    for op in case["ops"]:
        k = len(nc.DESC_CALLS)
        ra = app(a, op, False)
        if op in ("grun", "gexec") and ra.startswith("ret:") and len(nc.DESC_CALLS) == k:
            hits += 1
        rb = app(b, op, True)
        line = f"c={ra} u={rb} oc={out(a)} ou={out(b)}"
        rows.append({"op": op, "c": ra, "u": rb, "vc": out(a), "vu": out(b)})
        obs.append(line)
    return {"obs": obs, "rows": rows, "hits": hits, "special": 1,
            "stats": {"gate_cases": 1, "gate_hits": hits, "gate_refusals": sum(1 for r in rows if r["u"] == "readiness")}}


def run_impl(case):
    if case["kind"] == "gate":
        return _run_gate_case(case)
    if case["kind"] == "ser":
        return _run_ser_case(case)
    if case["kind"] == "for":
        return _run_for_case(case)
    if case["kind"] == "vals":
        return _run_vals_case(case)
    if case["kind"] == "fetch":
        return _run_fetch_case(case)
    if case["kind"] == "switch":
        return _run_switch_case(case)
    if case["kind"] == "node":
        return _run_node_case(case)
    if case["kind"] == "tree":
        return _run_tree_case(case)
    return _run_wf_case(case)


def nontrivial(case, impl):
    return case["kind"] != "node" or impl["hits"] > 0 or impl["special"] > 0


# ----------------------------------------------------------------------------- model


def model_input(case, impl):
    if case["kind"] == "gate":
        return [(f"gset {op[4:]}" if op.startswith("gset") else op) for op in case["ops"]]
    if case["kind"] == "ser":
        return [(f"zset {op[4:]}" if op.startswith("zset") else op) for op in case["ops"]]
    if case["kind"] == "for":
        return []
    if case["kind"] == "vals":
        return _vals_model_input(case)[0] if case["where"] == "node" else []  # "multi" and the composites: oracle only
    if case["kind"] == "switch":
        return []
    if case["kind"] in ("tree", "fetch"):
        return list(impl.get("mlines", []))
    if case["kind"] != "node":
        return []
    lines = ["beh " + " ".join(f"{k}:{v}" for k, v in sorted(BEH.items()))]
    for op in case["ops"]:
        lines.append(f"set {op[3:]}" if op.startswith("set") else op)
    return lines


def _diff_variants(mine, variants, ops=None):
    best = None
    for tag, theirs in variants.items():
        theirs = theirs[: len(mine)]
        if theirs == mine:
            return None
        for k, (x, y) in enumerate(zip(mine, theirs)):
            if x != y:
                if best is None or k > best["index"]:
                    best = {"index": k, "impl": x, "model": y, "variant": tag}
                    if ops is not None and k < len(ops):
                        best["op"] = ops[k]
                break
        else:
            if best is None:
                best = {"index": len(theirs), "impl": f"<{len(mine)} lines>", "model": f"<{len(theirs)} lines>", "variant": tag}
    return best


def diff(case, impl, model):
    if case["kind"] == "gate":
        return _diff_variants(list(impl["obs"]), {"G": [l[2:] for l in model if l.startswith("G ")]}, case["ops"])
    if case["kind"] == "for":
        return None  # twin oracle; the Lean side is C05_for_transparent / C05_for_no_rebuild_witness
    if case["kind"] == "ser":
        mine = []
        for r in impl["rows"]:
            if r["settled"]:
                break
            mine.append(r["line"])
        return _diff_variants(mine, {"Z": [l[2:] for l in model if l.startswith("Z ")]}, case["ops"])
    if case["kind"] == "vals":
        if case["where"] != "node":
            return None  # composites around the node have caches of their own: twin oracle only
        descs = _vals_model_input(case)[1]
        tag = impl.get("variant", "VC")
        theirs = []
        for l in model:
            if l.startswith(tag + " "):
                f = dict(x.split("=", 1) for x in l.split()[1:])
                theirs.append(f"hit={f['hit']} c={descs[int(f['c'])] if f['c'] != 'ND' else 'ND'} "
                              f"u={descs[int(f['u'])] if f['u'] != 'ND' else 'ND'}")
        return _diff_variants(list(impl["obs"]), {tag: theirs})
    if case["kind"] == "fetch":
        mine = []
        for l in impl["obs"]:
            if l == "exc":
                break
            mine.append(l)
        if any(l == "bad-op" for l in model):
            return {"index": 0, "impl": "<ops>", "model": "bad-op", "variant": "-"}
        theirs = [l for l in model if l.startswith("FT ")]
        # A hand value assigned to a macro's own connected input is pushed through its value links at once, and the code's
        # key holds pushed values: the code misses where the model (which records the link) hits. Either way the channels
        # end up refreshed — the states are compared in full; only a hit of the code that the model does not have counts.
        for i, l in enumerate(theirs):
            if i < len(mine) and mine[i].startswith("FT hit=false ") and l.startswith("FT hit=true "):
                theirs[i] = "FT hit=false " + l[len("FT hit=true "):]
        return _diff_variants(mine, {"FT": theirs})
    if case["kind"] == "tree":
        mine = []
        for l in impl["obs"]:
            if l == "exc":
                break  # a failed run: the model has no failures at this level; compared up to here
            mine.append(l)
        variants = {}
        ftag = impl.get("hvariant", "F") + " "
        flines = ["F " + l[len(ftag):] for l in model if l.startswith(ftag)]
        if impl.get("fonly"):
            mine = [l for l in mine if l.startswith("F ")]
            if any(l == "bad-op" for l in model):
                return {"index": 0, "impl": "<ops>", "model": "bad-op", "variant": "-"}
            return _diff_variants(mine, {ftag.strip(): flines})
        for tag in ("Tcur", "Tprop"):
            out, fi = [], iter(flines)
            for l in model:
                if l.startswith(tag + " "):
                    out.append(l[len(tag) + 1:])
                elif l.startswith(tag + "key "):
                    out.append("key " + l[len(tag) + 4:])
                elif l.startswith("F "):
                    out.append(next(fi, l))
            variants[tag] = out
        if any(l == "bad-op" for l in model):
            return {"index": 0, "impl": "<ops>", "model": "bad-op", "variant": "-"}
        for theirs in variants.values():
            for i, l in enumerate(mine):
                if l == "key ?" and i < len(theirs) and theirs[i].startswith("key "):
                    theirs[i] = "key ?"
        return _diff_variants(mine, variants)
    if case["kind"] != "node":
        return None
    mine = []
    for r in impl["rows"]:
        # a settled submit-hit is compared after the settle on the uncached side (theorem submit_hit_settles);
        # the driver knows no settle, so such cases are compared up to that point only
        if r["settled"]:
            break
        mine.append(r["line"])
    # R = /repo before b54ba0f, S = cache recorded on success, N = /repo now (+ KeyboardInterrupt caught in the callback):
    # the variant the tree was probed to have (old replay files without the probe: any)
    tags = (impl["variant"],) if impl.get("variant") else ("R", "S", "N", "H")
    variants = {tag: [l[2:] for l in model if l.startswith(tag + " ")] for tag in tags}
    return _diff_variants(mine, variants, case["ops"])


# ----------------------------------------------------------------------------- oracle


def oracle(case, impl):
    fails = []
    if case["kind"] == "switch":
        r = impl["rows"][0]
        if r.get("asked") and (r["c"], r["u"]) != ("use_cache=True", "use_cache=False"):
            # "with caching switched off" must be obtainable: the twin asked for use_cache=False has to have it off
            fails.append({"clause": "use-cache-switch-ignored",
                          "detail": f"{case['factory']}({case['n']}): default gives {r['c']}, use_cache=False gives {r['u']}",
                          "signature": {"clause": "use-cache-switch", "kind": "switch",
                                        "trigger": "transformer-factory" if case["factory"] in
                                        ("inputs_to_list", "list_to_outputs", "inputs_to_dict", "inputs_to_dataframe",
                                         "dataclass_node") else case["factory"]}})
        elif not r.get("asked"):
            fails.append({"clause": "harness-error", "detail": r["c"], "signature": {"clause": "harness-error"}})
        return fails
    for k, r in enumerate(impl["rows"]):
        c, u = r["c"], r["u"]
        same_ret = c == u or (r.get("settled") and c.startswith("ret:"))
        if r.get("settled"):
            # value returned from the cache must equal what the uncached job produced
            same_ret = c == "ret:" + r["vu"].split(",")[1] if case["kind"] in ("node", "ser") else same_ret
        if not same_ret or r["vc"] != r["vu"]:
            trig = _trigger(case, impl, k)
            fails.append({"clause": "cached-differs-from-uncached",
                          "detail": f"op #{k} {r.get('resolved') or r['op']}: cached {c} / {r['vc']}  vs  uncached {u} / {r['vu']}",
                          "signature": {"clause": "transparent", "kind": case["kind"], "trigger": trig}})
            break
    return fails


def _trigger(case, impl, k):
    """what kind of event preceded the stale answer (structural classification for findings)"""
    rows = impl["rows"]
    if case["kind"] == "node":
        # look back for the most recent non-trivial event
        for j in range(k - 1, -1, -1):
            u, op = rows[j]["u"], rows[j]["op"]
            was_running = j > 0 and rows[j - 1]["vu"].split(",")[2] == "true"
            if op == "resetrunning" and was_running:
                return "after-manual-reset-of-running"
            if op == "complete" and u == "escaped":
                return "after-base-exception-in-job"
            if op == "complete" and j > 0 and rows[j - 1]["line"].split("q=")[1] != rows[j]["line"].split("q=")[1] \
                    and not was_running:
                return "after-late-completion"
            if op == "cancel" and was_running:
                return "after-cancelled-job"
            if u in ("raised", "interrupted", "procraised", "fatal"):
                return "after-failed-run"
            if u == "readiness":
                return "after-refused-run"
            if u == "future":
                return "while-in-flight"
        return "other"
    if case["kind"] == "gate":
        return "use-cache-switched" if any(r["op"].startswith("gcache") for r in rows[:k]) else "readiness-gate-on-a-hit"
    if case["kind"] == "ser":
        return "after-pick-up-from-result-file" if any(r["op"] == "zwork" for r in rows[:k]) else "serialized-run"
    if case["kind"] == "for":
        return "after-hand-edit-of-loop-body" if any(r["op"][0] in ("editbody", "wirebody") for r in rows[:k]) else "for-loop"
    if case["kind"] == "vals" and case["where"] == "multi":
        return "returned-object-of-a-multi-output-node"
    if case["kind"] == "vals":
        # which earlier value does the stale answer belong to, and what does `==` say about the pair
        cur = _mkval(rows[k]["op"])
        for j in range(k - 1, -1, -1):
            if rows[j]["c"] == rows[k]["c"] and rows[j]["called"]:
                try:
                    bool(cur == _mkval(rows[j]["op"]))
                    return "inputs-equal-by-==-but-not-the-same-value"
                except Exception:  # noqa: BLE001
                    return "inputs-with-ambiguous-=="
        return "other"
    if case["kind"] in ("tree", "fetch"):
        for j in range(k - 1, -1, -1):
            res = rows[j].get("resolved")
            if res and res[0] not in ("run",) and rows[j]["c"] == "unit":
                if any((rows[i].get("resolved") or [""])[0] == "handrun" for i in range(k)):
                    return "after-child-run-by-hand"
                return f"after-{'nested-' if len(res) > 1 and res[1] else ''}{res[0]}"
        return "other"
    for j in range(k - 1, -1, -1):
        if rows[j]["op"][0] != "run" and rows[j]["c"] == "unit":
            if rows[j]["op"][0] in ("remove", "rewire") and any(r.get("note") for r in rows[:j]):
                return "after-assignment-to-connected-input-then-disconnect"
            return "after-" + rows[j]["op"][0]
    return "other"


def shrink_candidates(case):
    if case.get("kind") == "vals":
        seq = case["seq"]
        for i in range(len(seq)):
            yield {**case, "seq": seq[:i] + seq[i + 1:]}
        return
    ops = case.get("ops", [])
    for i in range(len(ops)):
        yield {**case, "ops": ops[:i] + ops[i + 1:]}
