"""C05 — caching is transparent: a run served from cache equals a real run."""

from __future__ import annotations

PROP = "C05"
PROP_FILE = "PwVerif/Props/C05.lean"
DRIVER = "Driver/C05.lean"
THEOREMS = [
    "C05_transparent",
    "C05_transparent_from",
    "C05_submit_hit_settles",
    "C05_pinned_witness_failed",
    "C05_pinned_witness_refused",
    "C05_pinned_witness_inflight",
    "C05_pinned_not_transparent",
]
RULE = (
    "twin histories: (node) every history up to length L over {set v in 0..3, run, submit, complete, clearFailed} "
    "on a real function node and its use_cache=False twin under a controllable executor — exhaustive for small L, "
    "random beyond; (composite) random histories over {set exposed input, set internal input, rewire, add, remove, "
    "replace child, pickle round trip, run} on a 3-node workflow / macro and its cache-free twin. Non-trivial = "
    "at least one cache hit or one failed/refused/in-flight run; distinct by canonical op list"
)
TRUSTED = [
    "model Cache.step transcribes Node._before_run's cache logic and the run cycle outcomes of one node",
    "a submit answered from the cache returns outputs instead of a future (by design): the oracle settles the "
    "uncached twin's job before comparing, exactly as theorem C05_submit_hit_settles does",
    "composite-level histories are checked by the twin oracle only (no Lean model of composite caches)",
]
ASSUMPTIONS = ["node functions are deterministic and do not mutate their arguments (the property's proviso)"]

BAD = [1]  # the function raises on these inputs
OPS = ["set0", "set1", "set2", "set3", "run", "submit", "complete", "clearfailed"]


def gen_cases(rng, tier):
    import itertools

    # exhaustive small histories over a reduced alphabet, then random long ones
    small = ["set1", "set2", "run", "submit", "complete", "clearfailed"]
    L = 4 if tier == "quick" else 6
    allh = list(itertools.product(small, repeat=L))
    if tier == "quick":
        allh = rng.sample(allh, 500)
    for h in allh:
        yield {"kind": "node", "ops": list(h)}
    for _ in range(150 if tier == "quick" else 3000):
        n = rng.randint(5, 25)
        yield {"kind": "node", "ops": [rng.choice(OPS + ["run", "run", "set2"]) for _ in range(n)]}
    for _ in range(120 if tier == "quick" else 2000):
        n = rng.randint(3, 12)
        ops = []
        for _ in range(n):
            r = rng.random()
            if r < 0.4:
                ops.append(["run"])
            elif r < 0.55:
                ops.append(["setopen", rng.choice("abc"), rng.choice(["x", "y"])])
            elif r < 0.65:
                ops.append(["setinner", rng.randrange(3), rng.choice("abc"), rng.choice(["x", "y"])])
            elif r < 0.78:
                ops.append(["rewire", rng.randrange(1, 3), rng.choice("abc"), rng.randrange(3)])
            elif r < 0.84:
                ops.append(["remove", rng.randrange(3)])
            elif r < 0.9:
                ops.append(["add", rng.randrange(3, 5)])
            elif r < 0.95:
                ops.append(["replace", rng.randrange(3)])
            else:
                ops.append(["pickle"])
        yield {"kind": "wf", "ops": ops, "macro": rng.random() < 0.3}


def corpus():
    yield {"kind": "node", "ops": ["set1", "run", "clearfailed", "run"]}
    yield {"kind": "node", "ops": ["run", "run"]}
    yield {"kind": "node", "ops": ["set2", "submit", "run"]}
    yield {"kind": "node", "ops": ["set2", "run", "run", "submit", "set3", "run"]}
    yield {"kind": "wf", "ops": [["run"], ["rewire", 2, "a", 0], ["run"]], "macro": False}
    yield {"kind": "wf", "ops": [["run"], ["setinner", 1, "a", "y"], ["run"]], "macro": False}


# ----------------------------------------------------------------------------- node level


def _mk_node(use_cache, sched):
    from . import nodes_c05 as nc

    n = nc.G(label="g")
    n.use_cache = use_cache
    return n


def _res(x):
    from concurrent.futures import Future

    from pyiron_workflow.channels import NOT_DATA

    if isinstance(x, Future):
        return "future"
    if x is NOT_DATA:
        return "ret:ND"
    if isinstance(x, tuple) and x and x[0] == "g":
        return f"ret:F({x[1]})"
    return f"ret:{x!r}"


def _vis(n):
    from pyiron_workflow.channels import NOT_DATA

    v = n.inputs.x.value
    o = n.outputs.o.value
    inp = 0 if v is NOT_DATA else v
    out = "ND" if o is NOT_DATA else (f"F({o[1]})" if isinstance(o, tuple) else repr(o))
    return f"{inp},{out},{str(bool(n.running)).lower()},{str(bool(n.failed)).lower()}"


def _apply_node(n, op, sched, exe):
    from pyiron_workflow.channels import NOT_DATA
    from pyiron_workflow.mixin.run import ReadinessError

    from . import nodes_c05 as nc

    try:
        if op.startswith("set"):
            v = int(op[3:])
            n.inputs.x.value = NOT_DATA if v == 0 else v
            return "unit"
        if op == "run":
            n.executor = None
            return _res(n.run())
        if op == "submit":
            n.executor = exe
            return _res(n.run())
        if op == "complete":
            for k, job in enumerate(sched.jobs):
                if job[0] is n:
                    from .execsim import _run_job

                    sched.jobs.pop(k)
                    _run_job(job)
                    break
            return "unit"
        if op == "clearfailed":
            n.failed = False
            return "unit"
    except ReadinessError:
        return "readiness"
    except nc.Boom:
        return "raised"
    except RuntimeError as e:
        return "locked" if "locked" in str(e) else f"exc:{type(e).__name__}"
    except Exception as e:  # noqa: BLE001
        return f"exc:{type(e).__name__}"
    return "bad-op"


def _run_node_case(case):
    import io
    import logging

    from . import nodes_c05 as nc
    from .execsim import CtlExecutor, Scheduler

    nc.reset(BAD)
    sched = Scheduler([])
    exe = CtlExecutor(sched, "ctl")
    a = _mk_node(True, sched)
    b = _mk_node(False, sched)
    lines, rows = [], []
    hits = 0
    special = 0
    for op in case["ops"]:
        ca = len(nc.CALLS["c"])
        nc.WHO = "c"
        ra = _apply_node(a, op, sched, exe)
        nc.WHO = "u"
        rb = _apply_node(b, op, sched, exe)
        settled = False
        if op == "submit" and ra.startswith("ret:") and rb == "future":
            # a submit answered from the cache: settle the uncached twin's job, then compare
            _apply_node(b, "complete", sched, exe)
            settled = True
        if op in ("run", "submit") and ra.startswith("ret:") and len(nc.CALLS["c"]) == ca:
            hits += 1
        if ra in ("raised", "readiness") or rb in ("raised", "readiness") or a.running:
            special += 1
        rows.append({"op": op, "c": ra, "u": rb, "vc": _vis(a), "vu": _vis(b), "settled": settled})
        lines.append(f"c={ra} u={rb} vc={_vis(a)} vu={_vis(b)}")
    return {"obs": lines, "rows": rows, "hits": hits, "special": special,
            "stats": {"node_cases": 1, "hits": hits, "failed_refused_inflight": special,
                      "settled_submit_hits": sum(r["settled"] for r in rows)}}


# ----------------------------------------------------------------------------- composite level


def _build_wf(use_cache, macro):
    from pyiron_workflow import Workflow

    from . import nodes

    if macro:
        from . import nodes_c05 as nc

        m = nc.M3(label="m")
        host = m
    else:
        host = Workflow("w", autoload=None)
        host.n0 = nodes.F0()
        host.n1 = nodes.F1(a=host.n0)
        host.n2 = nodes.F2(a=host.n1, b=host.n0)
    if not use_cache:
        host.use_cache = False
        for c in host:
            c.use_cache = False
    return host


def _snap(host):
    from .execsim import term_str

    return {c.label: term_str(c.outputs.o.value) for c in host if hasattr(c.outputs, "o")}


def _apply_wf(host, op, use_cache):
    import pickle

    from . import nodes
    from .execsim import term_str

    kids = lambda: {c.label: c for c in host}  # noqa: E731
    try:
        if op[0] == "run":
            r = host.run() if hasattr(host, "automate_execution") else host.run()
            return "ret:" + str({k: term_str(v) for k, v in dict(r).items()}), host
        if op[0] == "setopen":
            key = f"n0__{op[1]}"
            if hasattr(host.inputs, key):
                host.inputs[key].value = op[2]
                return "unit", host
            if hasattr(host.inputs, op[1]):
                host.inputs[op[1]].value = op[2]
                return "unit", host
            return "skip", host
        if op[0] == "setinner":
            c = kids().get(f"n{op[1]}")
            if c is None:
                return "skip", host
            c.inputs[op[2]].value = op[3]
            return "unit", host
        if op[0] == "rewire":
            c, u = kids().get(f"n{op[1]}"), kids().get(f"n{op[3]}")
            if c is None or u is None or c is u or op[3] >= op[1]:
                return "skip", host
            c.inputs[op[2]].disconnect_all()
            c.inputs[op[2]].connect(u.outputs.o)
            return "unit", host
        if op[0] == "remove":
            c = kids().get(f"n{op[1]}")
            if c is None:
                return "skip", host
            host.remove_child(c)
            return "unit", host
        if op[0] == "add":
            if f"n{op[1]}" in kids():
                return "skip", host
            n = nodes.term_node(op[1], label=f"n{op[1]}")
            if not use_cache:
                n.use_cache = False
            host.add_child(n)
            return "unit", host
        if op[0] == "replace":
            c = kids().get(f"n{op[1]}")
            if c is None:
                return "skip", host
            n = nodes.term_node(op[1] + 8, label="r")
            if not use_cache:
                n.use_cache = False
            host.replace_child(c, n)
            return "unit", host
        if op[0] == "pickle":
            h2 = pickle.loads(pickle.dumps(host))
            if not use_cache:
                h2.use_cache = False
                for c in h2:
                    c.use_cache = False
            return "unit", h2
    except Exception as e:  # noqa: BLE001
        return f"exc:{type(e).__name__}", host
    return "bad-op", host


def _run_wf_case(case):
    from . import nodes

    nodes.reset()
    a = _build_wf(True, case.get("macro"))
    b = _build_wf(False, case.get("macro"))
    rows = []
    for op in case["ops"]:
        ra, a = _apply_wf(a, op, True)
        rb, b = _apply_wf(b, op, False)
        rows.append({"op": op, "c": ra, "u": rb, "vc": _snap(a), "vu": _snap(b)})
    return {"obs": [], "rows": rows, "hits": 0, "special": 0, "stats": {"wf_cases": 1}}


def run_impl(case):
    return _run_node_case(case) if case["kind"] == "node" else _run_wf_case(case)


def nontrivial(case, impl):
    return case["kind"] == "wf" or impl["hits"] > 0 or impl["special"] > 0


# ----------------------------------------------------------------------------- model


def model_input(case, impl):
    if case["kind"] != "node":
        return []
    lines = ["bad " + " ".join(map(str, BAD))]
    for op in case["ops"]:
        lines.append(f"set {op[3:]}" if op.startswith("set") else op)
    return lines


def diff(case, impl, model):
    if case["kind"] != "node":
        return None
    mine = []
    for r in impl["rows"]:
        # a settled submit-hit is compared after the settle on the uncached side (theorem submit_hit_settles);
        # the driver knows no settle, so such cases are compared up to that point only
        if r["settled"]:
            break
        mine.append(f"c={r['c']} u={r['u']} vc={r['vc']} vu={r['vu']}")
    best = None
    for tag in ("P", "R"):
        theirs = [l[2:] for l in model if l.startswith(tag + " ")][: len(mine)]
        if theirs == mine:
            return None
        for k, (x, y) in enumerate(zip(mine, theirs)):
            if x != y:
                if best is None or k > best["index"]:
                    best = {"index": k, "impl": x, "model": y, "variant": tag, "op": case["ops"][k]}
                break
    return best


# ----------------------------------------------------------------------------- oracle


def oracle(case, impl):
    fails = []
    prev_special = None
    for k, r in enumerate(impl["rows"]):
        c, u = r["c"], r["u"]
        same_ret = c == u or (r.get("settled") and c.startswith("ret:"))
        if r.get("settled"):
            # value returned from the cache must equal what the uncached job produced
            same_ret = c == "ret:" + r["vu"].split(",")[1] if case["kind"] == "node" else same_ret
        if not same_ret or r["vc"] != r["vu"]:
            trig = _trigger(case, impl, k)
            fails.append({"clause": "cached-differs-from-uncached",
                          "detail": f"op #{k} {r['op']}: cached {c} / {r['vc']}  vs  uncached {u} / {r['vu']}",
                          "signature": {"clause": "transparent", "kind": case["kind"], "trigger": trig}})
            break
    return fails


def _trigger(case, impl, k):
    """what kind of event preceded the stale answer (structural classification for findings)"""
    rows = impl["rows"]
    if case["kind"] == "node":
        # look back for the most recent non-trivial outcome on the uncached twin
        for j in range(k, -1, -1):
            u = rows[j]["u"]
            if u == "raised":
                return "after-failed-run"
            if u == "readiness" and j < k:
                return "after-refused-run"
            if u == "future":
                return "while-in-flight"
        return "other"
    for j in range(k - 1, -1, -1):
        if rows[j]["op"][0] != "run" and rows[j]["c"] == "unit":
            return "after-" + rows[j]["op"][0]
    return "other"


def shrink_candidates(case):
    ops = case["ops"]
    for i in range(len(ops)):
        yield {**case, "ops": ops[:i] + ops[i + 1:]}
