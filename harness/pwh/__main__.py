import argparse
import os
import sys
import traceback


def main() -> int:
    ap = argparse.ArgumentParser(prog="check")
    ap.add_argument("prop")
    ap.add_argument("--tier", default=os.environ.get("VERIF_TIER", "quick"), choices=["quick", "thorough"])
    ap.add_argument("--replay", default=None)
    a = ap.parse_args()
    from . import engine

    try:
        return engine.run_check(f"pwh.{a.prop.lower()}", a.tier, a.replay)
    except Exception:  # noqa: BLE001
        traceback.print_exc()
        return 2


if __name__ == "__main__":
    sys.exit(main())
