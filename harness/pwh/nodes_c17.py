"""
Helpers importable from the source files the C17 harness generates.

`Term(i, *args)` is a free term: the i-th uninterpreted function symbol applied to its arguments.
Generated function bodies return Terms of their parameters, so "the node returns what the function
returns" is a syntactic equality.
"""

from __future__ import annotations


class Term:
    __slots__ = ("i", "args")

    def __init__(self, i, *args):
        self.i = i
        self.args = tuple(args)

    def __eq__(self, other):
        return isinstance(other, Term) and self.i == other.i and self.args == other.args

    def __hash__(self):
        return hash(("Term", self.i, self.args))

    def __repr__(self):
        return f"app{self.i}({','.join(map(repr, self.args))})"

    def __getstate__(self):
        return (self.i, self.args)

    def __setstate__(self, st):
        self.i, self.args = st
