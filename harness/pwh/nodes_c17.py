"""
Helpers importable from the source files the C17 harness generates.

`Term(i, *args)` is a free term: the i-th uninterpreted function symbol applied to its arguments.
Generated function bodies return Terms of their parameters, so "the node returns what the function
returns" is a syntactic equality.
"""

from __future__ import annotations


class Term:
    __slots__ = ("i", "args")

    def __init__(self, i, *args):
        self.i = i
        self.args = tuple(args)

    def __eq__(self, other):
        return isinstance(other, Term) and self.i == other.i and self.args == other.args

    def __hash__(self):
        return hash(("Term", self.i, self.args))

    def __repr__(self):
        return f"app{self.i}({','.join(map(repr, self.args))})"

    def __getstate__(self):
        return (self.i, self.args)

    def __setstate__(self, st):
        self.i, self.args = st


# ----------------------------------------------------------------------------------------------------------------------
# Objects with an identity: the pool the C17 generator draws parameter / field / specification defaults (and supplied
# values) from.  For each of them equality, identity and copying are different things in some way.  They are module
# level objects so that generated source files can name them (`from pwh.nodes_c17 import POOL as _P; def f(x=_P[3])`),
# the bare twin and the node function then share ONE default object, as a sentinel idiom requires.  The canonical token
# of a pool object is `@<index>.<kind>` and is given by IDENTITY (`v is POOL[index]`), never by `==`.
# ----------------------------------------------------------------------------------------------------------------------

import enum as _enum


class Marker:
    """a marker instance, compared by identity like `None` would be (default `__eq__`)"""

    __slots__ = ("_pk",)

    def __init__(self, pk):
        self._pk = pk

    def __repr__(self):
        return f"MARK{self._pk}"


class NeverEq:
    """`==` is always False, even with itself (like NaN); hashable by identity"""

    def __init__(self, pk):
        self._pk = pk

    def __eq__(self, other):
        return False

    def __ne__(self, other):
        return True

    __hash__ = object.__hash__


class AlwaysEq:
    """`==` is always True (equal to NOT_DATA, to inspect.Parameter.empty, to dataclasses.MISSING, to any other value)"""

    def __init__(self, pk):
        self._pk = pk

    def __eq__(self, other):
        return True

    def __ne__(self, other):
        return False

    __hash__ = object.__hash__


class NoCopy:
    """refuses to be copied, deep-copied or pickled (a lock, a handle, an open connection)"""

    def __init__(self, pk):
        self._pk = pk

    def __copy__(self):
        raise TypeError("NoCopy objects cannot be copied")

    def __deepcopy__(self, memo):
        raise TypeError("NoCopy objects cannot be deep-copied")

    def __reduce_ex__(self, protocol):
        raise TypeError("NoCopy objects cannot be pickled")


class CopyDiff:
    """a copy is a different thing: `__deepcopy__` / `__copy__` hand back an object that is not equal to the original"""

    def __init__(self, pk, generation=0):
        self._pk = pk
        self.generation = generation

    def __eq__(self, other):
        return isinstance(other, CopyDiff) and (self._pk, self.generation) == (other._pk, other.generation)

    def __hash__(self):
        return hash(("CopyDiff", self._pk, self.generation))

    def __copy__(self):
        return CopyDiff(self._pk, self.generation + 1)

    def __deepcopy__(self, memo):
        return CopyDiff(self._pk, self.generation + 1)


class EqByValue:
    """equal by value, so a copy is `==` to the original while not being it (a frozen config record)"""

    def __init__(self, pk, payload):
        self._pk = pk
        self.payload = payload

    def __eq__(self, other):
        return isinstance(other, EqByValue) and self.payload == other.payload

    def __hash__(self):
        return hash(("EqByValue", self._pk))  # distinct per pool object, see design.d/C17.md (class cache of inputs_to_dict)


class NotData:
    """looks like pyiron_workflow.channels.NOT_DATA (class name, repr, falsy) but is an ordinary value"""

    def __init__(self, pk):
        self._pk = pk

    def __repr__(self):
        return "NOT_DATA"

    def __bool__(self):
        return False


class Colour(_enum.Enum):
    RED = 1
    GREEN = 2


def pool_function(x=None):
    """a module level function used as a default value"""
    return x


pool_lambda = lambda x=None: x  # noqa: E731


class PoolClass:
    """a class object used as a default value"""


POOL: list = []
KINDS: list = []


def _add(kind, make):
    POOL.append(make(len(POOL)))
    KINDS.append(kind)


# two objects of every identity-compared kind: "the default" and "another one that looks just like it"
_add("object", lambda k: object())
_add("object", lambda k: object())
_add("marker", Marker)
_add("marker", Marker)
_add("nevereq", NeverEq)
_add("nevereq", NeverEq)
_add("alwayseq", AlwaysEq)
_add("alwayseq", AlwaysEq)
_add("nocopy", NoCopy)
_add("nocopy", NoCopy)
_add("copydiff", CopyDiff)
_add("copydiff", CopyDiff)
_add("eqbyvalue", lambda k: EqByValue(k, ("cfg", 1)))
_add("eqbyvalue", lambda k: EqByValue(k, ("cfg", 1)))
_add("notdata", NotData)
_add("notdata", NotData)
_add("list", lambda k: [1, 2])  # a shared mutable default
_add("list", lambda k: [1, 2])
_add("dict", lambda k: {"k": 1})
_add("dict", lambda k: {"k": 1})
_add("set", lambda k: {1, 2})
_add("bytearray", lambda k: bytearray(b"ab"))
_add("nan", lambda k: float("nan"))
_add("nan", lambda k: float("nan"))
_add("enum", lambda k: Colour.RED)
_add("enum", lambda k: Colour.GREEN)
_add("class", lambda k: PoolClass)
_add("class", lambda k: Marker)
_add("function", lambda k: pool_function)
_add("lambda", lambda k: pool_lambda)
_add("ellipsis", lambda k: Ellipsis)
_add("nestedlist", lambda k: [[1], {"a": [2]}])  # a shallow copy is not enough to tell either

_BY_ID = {id(o): k for k, o in enumerate(POOL)}

HASHABLE_KINDS = {"object", "marker", "nevereq", "alwayseq", "nocopy", "copydiff", "eqbyvalue", "notdata", "nan",
                  "enum", "class", "function", "lambda", "ellipsis"}
#: kinds for which `x is default` is the only sensible test a function body can make
IDENTITY_KINDS = {"object", "marker", "nevereq", "alwayseq", "nocopy", "copydiff", "eqbyvalue", "notdata", "list", "dict",
                  "set", "bytearray", "nan", "nestedlist"}


def pool_token(v):
    """`@<index>.<kind>` if `v` IS a pool object; `~<index>.<kind>` if it is a copy of one (an instance of a pool class
    carrying the index of its original); None otherwise"""
    k = _BY_ID.get(id(v))
    if k is not None and POOL[k] is v:
        return f"@{k}.{KINDS[k]}"
    pk = None
    if type(v) in (Marker, NeverEq, AlwaysEq, NoCopy, CopyDiff, EqByValue, NotData):
        try:
            pk = object.__getattribute__(v, "_pk")
        except AttributeError:
            pk = None
    if isinstance(pk, int) and 0 <= pk < len(POOL):
        return f"~{pk}.{KINDS[pk]}"
    if type(v) is object:
        return "~?.object"
    if isinstance(v, float) and v != v:
        return "~?.nan"
    return None


def pool_index(t: str) -> int:
    """index of the pool object named by the token `@<index>.<kind>`"""
    k, kind = t[1:].split(".", 1)
    k = int(k)
    if KINDS[k] != kind:
        raise ValueError(t)
    return k


def siblings(k: int) -> list[int]:
    """the other pool objects of the same kind"""
    return [j for j, kind in enumerate(KINDS) if kind == KINDS[k] and j != k]
