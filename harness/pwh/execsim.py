"""
Deterministic control of the REAL scheduler (shared by C01, C06, C05, C10 …).

* `CtlExecutor`: a `concurrent.futures.Executor` whose jobs run — and whose futures resolve,
  callbacks included, synchronously in the calling thread — only when `complete(k)` is called.
  Modes: "ctl" (call in process), "ctl-pickle" / "ctl-cloudpickle" (callable, arguments and result
  go through dumps/loads = an emulated process boundary).
* `Scheduler`: decides at every schedule point which outstanding job completes. Schedule points:
  (a) the composite's idle `sleep` (rebound module attribute `pyiron_workflow.nodes.composite.sleep`)
      — a job MUST complete there; (b) after every `Composite.register_child_emitting` (class-level
      wrapper that calls the original first) — a job MAY complete there.
  The choices come from a list of ints (the schedule); the trace of what happened is recorded as
  tokens `h:k` (k completed when h emission events had happened) / `s:k` (k completed at idle).
"""

from __future__ import annotations

import pickle
import sys
from concurrent.futures import Executor, Future

import cloudpickle


class Stuck(BaseException):
    """the real scheduler idles with nothing outstanding (livelock) or exceeded its step budget"""


class CtlExecutor(Executor):
    def __init__(self, sched: "Scheduler", mode: str = "ctl"):
        self.sched = sched
        self.mode = mode

    def submit(self, fn, /, *args, **kwargs):
        fut = Future()
        owner = getattr(fn, "__self__", None)
        self.sched.jobs.append((owner, fut, fn, args, kwargs, self.mode))
        return fut

    def shutdown(self, wait=True, *, cancel_futures=False):
        pass


def _run_job(job):
    owner, fut, fn, args, kwargs, mode = job
    fut.set_running_or_notify_cancel()
    try:
        if mode == "ctl":
            res = fn(*args, **kwargs)
        else:
            dumps, loads = (pickle.dumps, pickle.loads) if mode == "ctl-pickle" else (cloudpickle.dumps, cloudpickle.loads)
            fn2, args2, kwargs2 = loads(dumps((fn, args, kwargs)))
            res = loads(dumps(fn2(*args2, **kwargs2)))
    except BaseException as e:  # noqa: BLE001
        fut.set_exception(e)
    else:
        fut.set_result(res)


class Scheduler:
    def __init__(self, choices: list[int], ident=lambda owner: owner.label, max_points=2000):
        self.choices = list(choices)
        self.jobs: list = []
        self.trace: list[str] = []
        self.events = 0  # emission events so far
        self.ident = ident
        self.points = 0
        self.max_points = max_points
        self.options_seen: list[int] = []  # number of alternatives at each decision point (for DFS)
        self.log: list = []  # ("start", label) / ("finish", label) / ("emit", label)
        self.depth = 0

    def _choose(self, n_options: int) -> int:
        self.options_seen.append(n_options)
        c = self.choices.pop(0) if self.choices else 0
        return c % n_options

    def at_emit(self):
        """after a child's emission was queued: complete none (0) or the (c-1)-th outstanding job"""
        self.events += 1
        self.points += 1
        if self.points > self.max_points:
            raise Stuck("step budget exceeded")
        while self.jobs:
            c = self._choose(len(self.jobs) + 1)
            if c == 0:
                break
            job = self.jobs.pop(c - 1)
            self.trace.append(f"{self.events}:{self.ident(job[0])}")
            _run_job(job)  # its callback ends in another at_emit → events += 1 (nested)
            break

    def at_sleep(self, *_a):
        self.points += 1
        if self.points > self.max_points:
            raise Stuck("step budget exceeded")
        if not self.jobs:
            raise Stuck("idle with nothing outstanding")
        c = self._choose(len(self.jobs))
        job = self.jobs.pop(c)
        self.trace.append(f"s:{self.ident(job[0])}")
        _run_job(job)

    def drain(self):
        """complete whatever is still outstanding after the run returned (late completions)"""
        n = 0
        while self.jobs and n < 100:
            job = self.jobs.pop(0)
            _run_job(job)
            n += 1
        return n


class Instrument:
    """context manager installing the schedule points; everything delegates to the original code"""

    def __init__(self, sched: Scheduler):
        self.sched = sched

    def __enter__(self):
        import pyiron_workflow.nodes.composite as comp

        self.comp = comp
        self.old_sleep = comp.sleep
        self.old_emit = comp.Composite.register_child_emitting
        self.old_start = comp.Composite.register_child_starting
        self.old_fin = comp.Composite.register_child_finished
        sched = self.sched
        old_emit, old_start, old_fin = self.old_emit, self.old_start, self.old_fin

        # A finishing child makes two calls on its running parent, `register_child_finished` and
        # `register_child_emitting`, in an order that is the tree's business; the schedule point "a job
        # MAY complete here" sits after the LATER of the two, so that a completion callback stays one
        # atomic action of the coarse model whichever order the tree uses.
        fin_seen: set = set()
        emit_seen: set = set()

        def emitting(self_, child):
            old_emit(self_, child)
            sched.log.append(("emit", child.label, self_.label))
            key = (id(self_), child.label)
            if key in fin_seen:
                fin_seen.discard(key)
                sched.at_emit()
            else:
                emit_seen.add(key)

        def starting(self_, child):
            old_start(self_, child)
            key = (id(self_), child.label)
            fin_seen.discard(key)
            emit_seen.discard(key)
            sched.log.append(("start", child.label, self_.label))

        def finished(self_, child):
            old_fin(self_, child)
            sched.log.append(("finish", child.label, self_.label))
            key = (id(self_), child.label)
            if key in emit_seen:
                emit_seen.discard(key)
                sched.at_emit()
            else:
                fin_seen.add(key)

        comp.sleep = sched.at_sleep
        comp.Composite.register_child_emitting = emitting
        comp.Composite.register_child_starting = starting
        comp.Composite.register_child_finished = finished
        return self

    def __exit__(self, *exc):
        self.comp.sleep = self.old_sleep
        self.comp.Composite.register_child_emitting = self.old_emit
        self.comp.Composite.register_child_starting = self.old_start
        self.comp.Composite.register_child_finished = self.old_fin
        return False


def term_str(v) -> str:
    """canonical rendering of a term value produced by nodes.F*"""
    from pyiron_workflow.channels import NOT_DATA

    if v is NOT_DATA:
        return "ND"
    if isinstance(v, tuple) and v and isinstance(v[0], str) and v[0].startswith("f"):
        return v[0] + "(" + ",".join(term_str(a) for a in v[1:]) + ")"
    if v == "d":
        return "d"
    return repr(v).replace(" ", "")


def explore(run_with_choices, limit=2000):
    """
    stateless DFS over schedules: `run_with_choices(prefix)` runs once and returns
    (result, options_seen); yields every result for every distinct complete choice sequence.
    """
    stack = [[]]
    n = 0
    while stack and n < limit:
        prefix = stack.pop()
        res, seen = run_with_choices(list(prefix))
        n += 1
        yield prefix, res
        # children: at each decision point beyond the prefix, the alternatives to the default 0
        for pos in range(len(prefix), len(seen)):
            for alt in range(1, seen[pos]):
                stack.append(prefix + [0] * (pos - len(prefix)) + [alt])
